//! `Project` → files.  The output is what a user would have on disk: `isograph.config.json`,
//! `schema.graphql`, `schema-extension.graphql` (only when there are extensions) and the source
//! files with `export const X = iso(`…`)(…)` literals laid out so that the compiler's
//! extraction regex
//!
//! ```text
//! (// )?(export const ([^ ]+) =\s+)?iso(\()?\s*`([^`]+)`,?\s*(\))?(\()?
//! ```
//!
//! sees an exported, called literal for fields/pointers and a bare `iso(`entrypoint T.f`)` for
//! entrypoints.
//!
//! Layout knobs (`RenderOpts`) never change the meaning of the program: they vary separators
//! (newline / comma / both), indentation, `ID!` vs `ID !`, inline vs multi-line arguments, and the
//! TypeScript scaffolding around the literals.  File-arrangement knobs (`FilePlan`) move
//! declarations between source files (content preserved, discovery order changed).
use crate::model::*;
use hx_common::Rng;
use std::collections::BTreeMap;
use std::path::PathBuf;

/// How selections / arguments / variable definitions are separated inside a literal.
#[derive(Clone, Copy, Debug, PartialEq, Eq)]
pub enum Sep {
    /// one item per line, no commas (what the formatter prints)
    Newline,
    /// one item per line, each followed by a comma
    CommaNewline,
    /// everything on ONE line, each selection followed by `, ` (the iso grammar needs a comma or a
    /// line break after EVERY selection, the last one included)
    CommaOneLine,
}

#[derive(Clone, Debug)]
pub struct RenderOpts {
    pub sep: Sep,
    /// spaces per nesting level (multi-line styles)
    pub indent: usize,
    /// `ID !` (formatter style) instead of `ID!`
    pub space_before_bang: bool,
    /// arguments and variable definitions one per line (formatter style) instead of `(a: 1, b: 2)`
    pub multiline_args: bool,
    /// render descriptions as `"…"` when they contain no newline/quote/backslash, else `"""…"""`
    pub prefer_single_line_description: bool,
    /// first line(s) of every source file
    pub file_prelude: String,
    /// file extension used by `FilePlan`s that invent names
    pub omit_default_options: bool,
    /// write `schema-extension.graphql` (empty) and list it in the config even without extensions
    pub always_write_extension_file: bool,
    pub file_plan: FilePlan,
}

impl Default for RenderOpts {
    fn default() -> Self {
        RenderOpts {
            sep: Sep::Newline,
            indent: 2,
            space_before_bang: false,
            multiline_args: false,
            prefer_single_line_description: false,
            file_prelude: "import { iso } from '@iso';\n".to_string(),
            omit_default_options: true,
            always_write_extension_file: false,
            file_plan: FilePlan::AsDeclared,
        }
    }
}

impl RenderOpts {
    /// A random layout (meaning-preserving).
    pub fn random(r: &mut Rng) -> RenderOpts {
        RenderOpts {
            sep: *r.pick(&[Sep::Newline, Sep::Newline, Sep::CommaNewline, Sep::CommaOneLine]),
            indent: *r.pick(&[0usize, 1, 2, 2, 4]),
            space_before_bang: r.chance(1, 2),
            multiline_args: r.chance(1, 2),
            prefer_single_line_description: r.chance(1, 2),
            file_prelude: r.pick(&["import { iso } from '@iso';\n", "", "/* generated test source */\n\n"]).to_string(),
            omit_default_options: r.chance(1, 2),
            always_write_extension_file: r.chance(1, 4),
            file_plan: FilePlan::AsDeclared,
        }
    }
}

/// Where declarations live.  Applied by `apply_file_plan` (also usable on its own).
#[derive(Clone, Debug, PartialEq, Eq)]
pub enum FilePlan {
    /// use the paths recorded in `Project::decls`
    AsDeclared,
    /// every declaration in its own file `<root>/d<k>_<name>.ts`
    OnePerDecl,
    /// all declarations in one file `<root>/<name>`
    Single(String),
    /// keep the grouping, rename every source file (new directory depth, new extension, names
    /// chosen so that alphabetical order is reversed)
    Rename,
    /// random regrouping into 1..=n files with random nesting/extension; order of declarations
    /// inside a file is shuffled too
    Shuffle { seed: u64 },
}

pub const SOURCE_EXTENSIONS: &[&str] = &["ts", "tsx", "js", "jsx"];

/// Returns a project with the same declarations placed in different files.
pub fn apply_file_plan(p: &Project, plan: &FilePlan) -> Project {
    let root = p.options.project_root.trim_start_matches("./").trim_end_matches('/').to_string();
    let in_root = |rest: &str| if root.is_empty() || root == "." { rest.to_string() } else { format!("{root}/{rest}") };
    let mut out = p.clone();
    match plan {
        FilePlan::AsDeclared => {}
        FilePlan::OnePerDecl => {
            for (k, (path, d)) in out.decls.iter_mut().enumerate() {
                *path = in_root(&format!("d{k}_{}.ts", d.name()));
            }
        }
        FilePlan::Single(name) => {
            for (path, _) in out.decls.iter_mut() {
                *path = in_root(name);
            }
        }
        FilePlan::Rename => {
            let files = p.source_files();
            let n = files.len();
            let mut map = BTreeMap::new();
            let mut sorted = files.clone();
            sorted.sort();
            for (rank, f) in sorted.iter().enumerate() {
                let ext = SOURCE_EXTENSIONS[rank % SOURCE_EXTENSIONS.len()];
                let dir = if rank % 2 == 0 { "moved/deep/" } else { "" };
                map.insert(f.clone(), in_root(&format!("{dir}r{:03}.{ext}", n - rank)));
            }
            for (path, _) in out.decls.iter_mut() {
                *path = map[path].clone();
            }
        }
        FilePlan::Shuffle { seed } => {
            let mut r = Rng::new(*seed, 0x5f17);
            let n = out.decls.len().max(1);
            let k = r.range(1, n.min(4));
            let names: Vec<String> = (0..k)
                .map(|i| {
                    let ext = *r.pick(SOURCE_EXTENSIONS);
                    let dir = *r.pick(&["", "", "a/", "a/b/", "ab/", "z/"]);
                    in_root(&format!("{dir}{}{i}.{ext}", r.pick(&["m", "A", "z", "comp"])))
                })
                .collect();
            // Fisher–Yates on the declaration order
            for i in (1..out.decls.len()).rev() {
                let j = r.below(i + 1);
                out.decls.swap(i, j);
            }
            for (path, _) in out.decls.iter_mut() {
                *path = r.pick(&names).clone();
            }
        }
    }
    out
}

// ---------------------------------------------------------------------------------------------
// values, types
// ---------------------------------------------------------------------------------------------

pub fn render_type(t: &TypeRef, space_before_bang: bool) -> String {
    match t {
        TypeRef::Named(n) => n.clone(),
        TypeRef::List(t) => format!("[{}]", render_type(t, space_before_bang)),
        TypeRef::NonNull(t) => {
            format!("{}{}!", render_type(t, space_before_bang), if space_before_bang { " " } else { "" })
        }
    }
}

/// Value in iso / GraphQL syntax.  `Str` is written verbatim between quotes.
pub fn render_value(v: &Value) -> String {
    match v {
        Value::Int(i) => i.to_string(),
        Value::Float(s) => s.clone(),
        Value::Bool(b) => b.to_string(),
        Value::Null => "null".to_string(),
        Value::Enum(e) => e.clone(),
        Value::Str(s) => format!("\"{s}\""),
        Value::Var(n) => format!("${n}"),
        Value::Object(fs) => {
            if fs.is_empty() {
                "{}".to_string()
            } else {
                let inner: Vec<String> = fs.iter().map(|(k, v)| format!("{k}: {}", render_value(v))).collect();
                format!("{{ {} }}", inner.join(", "))
            }
        }
        Value::List(vs) => format!("[{}]", vs.iter().map(render_value).collect::<Vec<_>>().join(", ")),
    }
}

fn render_description_block(d: &str, indent: &str) -> String {
    // SDL block string; `"""` inside is escaped the GraphQL way.
    let body = d.replace("\"\"\"", "\\\"\"\"");
    let mut s = String::new();
    s.push_str(indent);
    s.push_str("\"\"\"\n");
    for line in body.split('\n') {
        s.push_str(indent);
        s.push_str(line);
        s.push('\n');
    }
    s.push_str(indent);
    s.push_str("\"\"\"\n");
    s
}

// ---------------------------------------------------------------------------------------------
// schema
// ---------------------------------------------------------------------------------------------

fn render_arg_def(a: &ArgDef) -> String {
    let mut s = format!("{}: {}", a.name, a.ty.render());
    if let Some(d) = &a.default {
        s.push_str(" = ");
        s.push_str(&render_value(d));
    }
    s
}

fn render_field_def(f: &FieldDef, out: &mut String) {
    if let Some(d) = &f.description {
        out.push_str(&render_description_block(d, "  "));
    }
    out.push_str("  ");
    out.push_str(&f.name);
    if !f.args.is_empty() {
        out.push('(');
        out.push_str(&f.args.iter().map(render_arg_def).collect::<Vec<_>>().join(", "));
        out.push(')');
    }
    out.push_str(": ");
    out.push_str(&f.ty.render());
    out.push('\n');
}

pub fn render_schema(s: &Schema) -> String {
    let mut out = String::new();
    for t in &s.types {
        if let Some(d) = &t.description {
            out.push_str(&render_description_block(d, ""));
        }
        match &t.kind {
            TypeKind::Object { implements, fields } | TypeKind::Interface { implements, fields } => {
                let kw = if matches!(t.kind, TypeKind::Object { .. }) { "type" } else { "interface" };
                out.push_str(&format!("{kw} {}", t.name));
                if !implements.is_empty() {
                    out.push_str(" implements ");
                    out.push_str(&implements.join(" & "));
                }
                out.push_str(" {\n");
                for f in fields {
                    render_field_def(f, &mut out);
                }
                out.push_str("}\n\n");
            }
            TypeKind::Union { members } => {
                out.push_str(&format!("union {} = {}\n\n", t.name, members.join(" | ")));
            }
            TypeKind::Scalar => out.push_str(&format!("scalar {}\n\n", t.name)),
            TypeKind::Enum { values } => {
                out.push_str(&format!("enum {} {{\n", t.name));
                for v in values {
                    out.push_str(&format!("  {v}\n"));
                }
                out.push_str("}\n\n");
            }
            TypeKind::Input { fields } => {
                out.push_str(&format!("input {} {{\n", t.name));
                for f in fields {
                    if let Some(d) = &f.description {
                        out.push_str(&render_description_block(d, "  "));
                    }
                    out.push_str(&format!("  {}\n", render_arg_def(f)));
                }
                out.push_str("}\n\n");
            }
        }
    }
    out
}

pub fn render_extensions(exts: &[Extension]) -> String {
    let mut out = String::new();
    for e in exts {
        out.push_str(&format!("extend type {}", e.on_type));
        for x in &e.expose {
            out.push_str("\n  @exposeField(field: \"");
            out.push_str(&x.path.join("."));
            out.push('"');
            if let Some(a) = &x.as_name {
                out.push_str(&format!(", as: \"{a}\""));
            }
            if !x.field_map.is_empty() {
                let items: Vec<String> =
                    x.field_map.iter().map(|(f, t)| format!("{{ from: \"{f}\", to: \"{t}\" }}")).collect();
                out.push_str(&format!(", fieldMap: [{}]", items.join(", ")));
            }
            out.push(')');
        }
        out.push_str("\n\n");
    }
    out
}

// ---------------------------------------------------------------------------------------------
// config
// ---------------------------------------------------------------------------------------------

pub fn render_config(p: &Project, o: &RenderOpts) -> String {
    use serde_json::{json, Map, Value as J};
    let opt = &p.options;
    let def = Options::default();
    let mut m = Map::new();
    m.insert("project_root".into(), json!(format!("./{}", opt.project_root.trim_start_matches("./"))));
    if let Some(a) = &opt.artifact_directory {
        m.insert("artifact_directory".into(), json!(format!("./{}", a.trim_start_matches("./"))));
    }
    m.insert("schema".into(), json!(format!("./{SCHEMA_FILE}")));
    if !p.extensions.is_empty() || o.always_write_extension_file {
        m.insert("schema_extensions".into(), json!([format!("./{SCHEMA_EXTENSION_FILE}")]));
    }
    let mut om = Map::new();
    let keep = |is_default: bool| !(o.omit_default_options && is_default);
    if keep(opt.on_invalid_id_type == def.on_invalid_id_type) {
        om.insert(
            "on_invalid_id_type".into(),
            json!(match opt.on_invalid_id_type {
                ValidationLevel::Ignore => "ignore",
                ValidationLevel::Warn => "warn",
                ValidationLevel::Error => "error",
            }),
        );
    }
    if keep(opt.no_babel_transform == def.no_babel_transform) {
        om.insert("no_babel_transform".into(), json!(opt.no_babel_transform));
    }
    if keep(opt.include_file_extensions_in_import_statements == def.include_file_extensions_in_import_statements) {
        om.insert(
            "include_file_extensions_in_import_statements".into(),
            json!(opt.include_file_extensions_in_import_statements),
        );
    }
    if keep(opt.module == def.module) {
        om.insert(
            "module".into(),
            json!(match opt.module {
                ModuleKind::EsModule => "esmodule",
                ModuleKind::CommonJs => "commonjs",
            }),
        );
    }
    if let Some(h) = &opt.generated_file_header {
        om.insert("generated_file_header".into(), json!(h));
    }
    if let Some(pd) = &opt.persisted_documents {
        let mut pm = Map::new();
        if let Some(f) = &pd.file {
            pm.insert("file".into(), json!(f));
        }
        if keep(pd.algorithm == HashAlgorithm::Sha256) {
            pm.insert(
                "algorithm".into(),
                json!(match pd.algorithm {
                    HashAlgorithm::Md5 => "md5",
                    HashAlgorithm::Sha256 => "sha256",
                }),
            );
        }
        if keep(!pd.include_extra_info) {
            pm.insert("include_extra_info".into(), json!(pd.include_extra_info));
        }
        om.insert("persisted_documents".into(), J::Object(pm));
    }
    if !om.is_empty() || !o.omit_default_options {
        m.insert("options".into(), J::Object(om));
    }
    let mut s = serde_json::to_string_pretty(&J::Object(m)).expect("json");
    s.push('\n');
    s
}

// ---------------------------------------------------------------------------------------------
// iso literals
// ---------------------------------------------------------------------------------------------

struct W<'a> {
    o: &'a RenderOpts,
    out: String,
}

impl<'a> W<'a> {
    fn one_line(&self) -> bool {
        self.o.sep == Sep::CommaOneLine
    }
    fn nl(&mut self, depth: usize) {
        if self.one_line() {
            self.out.push(' ');
        } else {
            self.out.push('\n');
            for _ in 0..depth * self.o.indent {
                self.out.push(' ');
            }
        }
    }
    /// separator after an item of a comma-or-newline list (selection, argument, variable)
    fn item_end(&mut self) {
        match self.o.sep {
            Sep::Newline => {}
            Sep::CommaNewline | Sep::CommaOneLine => self.out.push(','),
        }
    }
    fn args(&mut self, args: &[(String, String)], depth: usize) {
        if args.is_empty() {
            return;
        }
        self.out.push('(');
        if self.o.multiline_args && !self.one_line() {
            for (k, v) in args {
                self.nl(depth + 1);
                self.out.push_str(&format!("{k}: {v}"));
                self.item_end();
            }
            self.nl(depth);
        } else {
            let items: Vec<String> = args.iter().map(|(k, v)| format!("{k}: {v}")).collect();
            self.out.push_str(&items.join(", "));
        }
        self.out.push(')');
    }
    fn directives(&mut self, ds: &[Directive], depth: usize) {
        for d in ds {
            self.out.push_str(&format!(" @{}", d.name));
            let a: Vec<(String, String)> = d.args.iter().map(|(k, v)| (k.clone(), render_value(v))).collect();
            self.args(&a, depth);
        }
    }
    fn vars(&mut self, vars: &[VarDef], depth: usize) {
        let a: Vec<(String, String)> = vars
            .iter()
            .map(|v| {
                let mut t = render_type(&v.ty, self.o.space_before_bang);
                if let Some(d) = &v.default {
                    t.push_str(" = ");
                    t.push_str(&render_value(d));
                }
                (format!("${}", v.name), t)
            })
            .collect();
        self.args(&a, depth);
    }
    fn description(&mut self, d: &Option<String>, depth: usize) {
        if let Some(d) = d {
            let simple = !d.contains('\n') && !d.contains('"') && !d.contains('\\');
            if self.o.prefer_single_line_description && simple {
                self.nl(depth);
                self.out.push_str(&format!("\"{d}\""));
                self.nl(depth);
            } else if self.one_line() && !d.contains('\n') {
                self.out.push_str(&format!(" \"\"\"{}\"\"\" ", d.replace("\"\"\"", "\\\"\"\"")));
            } else {
                // Block string over several lines.  Real line breaks are used even in the
                // one-line style (they are inside the string token), so that the cleaned value
                // (`clean_block_string_literal`) is `d` again.
                let pad = if self.one_line() { 0 } else { depth * self.o.indent };
                let hard_nl = |out: &mut String| {
                    out.push('\n');
                    for _ in 0..pad {
                        out.push(' ');
                    }
                };
                hard_nl(&mut self.out);
                self.out.push_str("\"\"\"");
                for line in d.replace("\"\"\"", "\\\"\"\"").split('\n') {
                    hard_nl(&mut self.out);
                    self.out.push_str(line);
                }
                hard_nl(&mut self.out);
                self.out.push_str("\"\"\"");
                hard_nl(&mut self.out);
            }
        } else {
            self.out.push(' ');
        }
    }
    fn selection_set(&mut self, sels: &[Selection], depth: usize) {
        self.out.push('{');
        for s in sels {
            self.nl(depth + 1);
            let h = s.head();
            if let Some(a) = &h.alias {
                self.out.push_str(&format!("{a}: "));
            }
            self.out.push_str(&h.name);
            let a: Vec<(String, String)> = h.args.iter().map(|(k, v)| (k.clone(), render_value(v))).collect();
            self.args(&a, depth + 1);
            self.directives(&h.directives, depth + 1);
            if let Some(k) = s.kids() {
                self.out.push(' ');
                self.selection_set(k, depth + 1);
            }
            self.item_end();
        }
        self.nl(depth);
        self.out.push('}');
    }
}

/// The text between the back-ticks.
pub fn render_iso_literal(d: &Decl, o: &RenderOpts) -> String {
    let mut w = W { o, out: String::new() };
    let multi = o.sep != Sep::CommaOneLine;
    if multi {
        w.nl(1);
    }
    match d {
        Decl::Entrypoint(e) => {
            // entrypoints are short; always on one line
            let mut s = format!("entrypoint {}.{}", e.parent, e.name);
            for dir in &e.directives {
                s.push_str(&format!(" @{}", dir.name));
                if !dir.args.is_empty() {
                    let a: Vec<String> = dir.args.iter().map(|(k, v)| format!("{k}: {}", render_value(v))).collect();
                    s.push_str(&format!("({})", a.join(", ")));
                }
            }
            return s;
        }
        Decl::ClientField(f) => {
            w.out.push_str(&format!("field {}.{}", f.parent, f.name));
            w.vars(&f.vars, 1);
            w.directives(&f.directives, 1);
            w.description(&f.description, 1);
            w.selection_set(&f.selections, 1);
        }
        Decl::ClientPointer(f) => {
            w.out.push_str(&format!("pointer {}.{}", f.parent, f.name));
            w.vars(&f.vars, 1);
            w.out.push_str(&format!(" to {}", render_type(&f.to, o.space_before_bang)));
            w.directives(&f.directives, 1);
            w.description(&f.description, 1);
            w.selection_set(&f.selections, 1);
        }
    }
    if multi {
        w.out.push('\n');
    }
    w.out
}

/// The export name used for `field T.name` / `pointer T.name`: always `name` (this is what ends
/// up as `import { name as resolver }` in the reader artifact).
pub fn export_name(d: &Decl) -> String {
    d.name().to_string()
}

/// One TypeScript statement holding the literal.
pub fn render_decl_statement(d: &Decl, o: &RenderOpts) -> String {
    let lit = render_iso_literal(d, o);
    match d {
        Decl::Entrypoint(_) => format!("iso(`{lit}`);\n"),
        Decl::ClientField(f) => {
            let name = export_name(d);
            if f.directives.iter().any(|x| x.name == "component") {
                format!(
                    "export const {name} = iso(`{lit}`)(function {name}Component({{ data }}) {{\n  return null;\n}});\n"
                )
            } else {
                format!("export const {name} = iso(`{lit}`)(({{ data }}) => {{\n  return data;\n}});\n")
            }
        }
        Decl::ClientPointer(_) => {
            let name = export_name(d);
            format!("export const {name} = iso(`{lit}`)(({{ data }}) => {{\n  return null;\n}});\n")
        }
    }
}

pub fn render_source_file(decls: &[&Decl], o: &RenderOpts) -> String {
    let mut s = o.file_prelude.clone();
    for d in decls {
        s.push('\n');
        s.push_str(&render_decl_statement(d, o));
    }
    s
}

// ---------------------------------------------------------------------------------------------
// whole project
// ---------------------------------------------------------------------------------------------

/// All files of the project, keyed by path relative to the project directory.
pub fn render(p: &Project, o: &RenderOpts) -> BTreeMap<PathBuf, Vec<u8>> {
    let p = apply_file_plan(p, &o.file_plan);
    let mut files: BTreeMap<PathBuf, Vec<u8>> = BTreeMap::new();
    files.insert(PathBuf::from(CONFIG_FILE), render_config(&p, o).into_bytes());
    files.insert(PathBuf::from(SCHEMA_FILE), render_schema(&p.schema).into_bytes());
    if !p.extensions.is_empty() || o.always_write_extension_file {
        files.insert(PathBuf::from(SCHEMA_EXTENSION_FILE), render_extensions(&p.extensions).into_bytes());
    }
    for f in p.source_files() {
        let ds: Vec<&Decl> = p.decls.iter().filter(|(path, _)| *path == f).map(|(_, d)| d).collect();
        files.insert(PathBuf::from(&f), render_source_file(&ds, o).into_bytes());
    }
    for (path, bytes) in &p.extra_files {
        files.insert(PathBuf::from(path), bytes.clone());
    }
    files
}

pub fn render_default(p: &Project) -> BTreeMap<PathBuf, Vec<u8>> {
    render(p, &RenderOpts::default())
}

// ---------------------------------------------------------------------------------------------
// noise files
// ---------------------------------------------------------------------------------------------

/// Files that a compile must ignore (or, for the last two kinds, must reject cleanly).
#[derive(Clone, Copy, Debug, PartialEq, Eq)]
pub enum Noise {
    /// `README.md` next to the config and `<root>/notes.md` containing an iso literal
    Markdown,
    /// `<root>/logo.png`: non-UTF-8 bytes with a non-source extension
    BinaryNonSource,
    /// `<root>/sub/__isograph_backup/x.ts` with a (bogus) literal — skipped because the path
    /// contains `__isograph`
    IsographLookalikeDir,
    /// `<root>/commented.ts` whose only literal is commented out with `// `
    CommentedOutLiteral,
    /// `<root>/empty.tsx`, zero bytes
    EmptySource,
    /// `<root>/broken.ts` with non-UTF-8 bytes: the compiler must report a diagnostic
    BinarySource,
}

pub const HARMLESS_NOISE: &[Noise] =
    &[Noise::Markdown, Noise::BinaryNonSource, Noise::IsographLookalikeDir, Noise::CommentedOutLiteral, Noise::EmptySource];

pub fn add_noise(p: &mut Project, kind: Noise) {
    let root = p.options.project_root.trim_start_matches("./").trim_end_matches('/').to_string();
    let bogus = "export const Nope = iso(`\n  field Query.Nope {\n    doesNotExist\n  }\n`)(() => null);\n";
    let mut add = |path: String, bytes: Vec<u8>| p.extra_files.push((path, bytes));
    match kind {
        Noise::Markdown => {
            add("README.md".into(), b"# test project\n".to_vec());
            add(format!("{root}/notes.md"), bogus.as_bytes().to_vec());
        }
        Noise::BinaryNonSource => add(format!("{root}/logo.png"), vec![0x89, b'P', b'N', b'G', 0xff, 0xfe, 0x00, 0xc3, 0x28]),
        Noise::IsographLookalikeDir => add(format!("{root}/sub/__isograph_backup/x.ts"), bogus.as_bytes().to_vec()),
        Noise::CommentedOutLiteral => add(
            format!("{root}/commented.ts"),
            b"// export const Nope = iso(`field Query.Nope { doesNotExist, }`)(() => null);\n".to_vec(),
        ),
        Noise::EmptySource => add(format!("{root}/empty.tsx"), vec![]),
        Noise::BinarySource => add(format!("{root}/broken.ts"), vec![b'/', b'/', 0xff, 0xfe, 0xc3, 0x28, b'\n']),
    }
}
