// project generator (built by the projgen task)
