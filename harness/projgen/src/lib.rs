//! `hx_projgen` — shared infrastructure for every compiler-pipeline property family:
//! structured isograph projects (`model`), their rendering to files (`render`), a type-directed
//! generator with single-fault mutants and meaning-preserving rearrangements (`gen`), drivers
//! for the REAL compiler (`compile`) and the wire format shared with the Lean side (`wire`).
//! See `README.md`.
pub mod arrange;
pub mod compile;
pub mod diag_kinds;
pub mod env;
pub mod gen;
pub mod model;
pub mod mutate;
pub mod render;
pub mod shrink;
pub mod wire;

pub use hx_common::Rng;
