//! Meaning-preserving rearrangements (C15): the result must compile to the SAME operations
//! (`query_text.ts`, `normalization_ast.ts` of every entrypoint) as the input.
//!
//! * `permute_selections` — shuffle every selection set at every depth;
//! * `duplicate_under_alias` — select one field a second time under a fresh alias (same arguments,
//!   same sub-selections);
//! * `extract_client_field` — move part of a selection set into a new client field on the same
//!   type, selected at the same place, every used variable passed through under its own name.
//!
//! Reader artifacts, `iso.ts` and refetch-query numbering legitimately change.
use crate::env::{Env, SelKind, SelPath};
use crate::gen::accepts_variable;
use crate::model::*;
use hx_common::Rng;

fn shuffle<T>(r: &mut Rng, v: &mut [T]) {
    for i in (1..v.len()).rev() {
        let j = r.below(i + 1);
        v.swap(i, j);
    }
}

pub fn permute_selections(r: &mut Rng, p: &Project) -> Project {
    fn go(r: &mut Rng, set: &mut Vec<Selection>) {
        shuffle(r, set);
        for s in set.iter_mut() {
            if let Some(k) = s.kids_mut() {
                go(r, k);
            }
        }
    }
    let mut q = p.clone();
    for (_, d) in q.decls.iter_mut() {
        if let Some(s) = d.selections_mut() {
            go(r, s);
        }
    }
    q
}

fn subtree_has(s: &Selection, f: &dyn Fn(&SelHead) -> bool) -> bool {
    f(s.head()) || s.kids().map_or(false, |k| k.iter().any(|x| subtree_has(x, f)))
}

/// `None` if no selection qualifies (selections carrying directives, `__refetch` and exposed
/// fields are left alone: duplicating them changes the set of refetch queries).
pub fn duplicate_under_alias(r: &mut Rng, p: &Project) -> Option<Project> {
    let env = Env::new(p);
    let mut cands: Vec<SelPath> = vec![];
    env.walk(|path, _ty, sel, found| {
        if let Some(t) = found {
            let plain = !subtree_has(sel, &|h| !h.directives.is_empty() || h.name == "__refetch");
            if plain && matches!(t.kind, SelKind::ServerScalar | SelKind::ServerObject | SelKind::Typename | SelKind::AsConcrete | SelKind::ClientField) {
                cands.push(path.clone());
            }
        }
    });
    if cands.is_empty() {
        return None;
    }
    let path = r.pick(&cands).clone();
    let mut q = p.clone();
    let set = path.parent_set_mut(&mut q)?;
    let i = *path.idx.last()?;
    let mut dup = set[i].clone();
    let used: Vec<String> = set.iter().map(|s| s.response_name().to_string()).collect();
    let base = dup.head().name.trim_start_matches('_').to_string();
    let mut k = 2;
    let alias = loop {
        let a = format!("dup{k}_{base}");
        if !used.contains(&a) {
            break a;
        }
        k += 1;
    };
    dup.head_mut().alias = Some(alias);
    let at = r.range(0, set.len());
    set.insert(at, dup);
    Some(q)
}

/// Does `parent.name` (a client field or pointer) select, transitively, a client pointer?
fn selects_pointer(p: &Project, parent: &str, name: &str, fuel: usize) -> bool {
    if fuel == 0 {
        return true;
    }
    let Some(d) = p.decl(parent, name) else { return false };
    if matches!(d, Decl::ClientPointer(_)) {
        return true;
    }
    let env = Env::new(p);
    let mut hit = false;
    fn go(env: &Env, p: &Project, ty: &str, set: &[Selection], fuel: usize, hit: &mut bool) {
        for s in set {
            match env.lookup(ty, &s.head().name) {
                Some(t) => {
                    match t.kind {
                        SelKind::ClientPointer => *hit = true,
                        SelKind::ClientField => {
                            if selects_pointer(p, ty, &t.name, fuel - 1) {
                                *hit = true
                            }
                        }
                        _ => {}
                    }
                    if let (Some(k), Some(target)) = (s.kids(), &t.target) {
                        go(env, p, target, k, fuel, hit);
                    }
                }
                None => {}
            }
        }
    }
    if let Some(sels) = d.selections() {
        go(&env, p, parent, sels, fuel, &mut hit);
    }
    hit
}

/// Moves a random non-empty subset of one selection set into a fresh client field
/// `<Type>.Extracted<n>` declared in the same file and selects that field in its place.
/// `None` if no selection set qualifies.  Not extracted: `@updatable` selections, client pointers
/// (and fields selecting them), anything below an `asConcreteType` selection when variables would
/// have to be passed (each of these makes the current compiler panic, see `GenOpts`).
pub fn extract_client_field(r: &mut Rng, p: &Project) -> Option<Project> {
    let env = Env::new(p);
    // group selections by the set they are in: key = (decl, path of the set)
    let mut sets: Vec<(usize, Vec<usize>, String, bool)> = vec![]; // decl, set path, type, under_as
    let mut under_as_paths: Vec<(usize, Vec<usize>)> = vec![];
    env.walk(|path, ty, _sel, found| {
        let set_path = path.idx[..path.idx.len() - 1].to_vec();
        let under_as = under_as_paths.iter().any(|(d, pre)| *d == path.decl && set_path.starts_with(pre));
        if let Some(t) = found {
            if t.kind == SelKind::AsConcrete {
                under_as_paths.push((path.decl, path.idx.clone()));
            }
        }
        if !sets.iter().any(|(d, sp, _, _)| *d == path.decl && *sp == set_path) {
            sets.push((path.decl, set_path, ty.to_string(), under_as));
        }
    });
    // only sets inside client FIELDS (a pointer's own selection set is left alone)
    sets.retain(|(d, _, _, _)| matches!(p.decls[*d].1, Decl::ClientField(_)));
    if sets.is_empty() {
        return None;
    }
    for _attempt in 0..8 {
        let (decl, set_path, ty, under_as) = r.pick(&sets).clone();
        let mut q = p.clone();
        let host_vars: Vec<VarDef> = q.decls[decl].1.vars().to_vec();
        let host_file = q.decls[decl].0.clone();
        let set = {
            let mut set = q.decls[decl].1.selections_mut()?;
            for &i in &set_path {
                set = set.get_mut(i)?.kids_mut()?;
            }
            set
        };
        if set.is_empty() {
            continue;
        }
        // choose the subset
        let mut chosen: Vec<usize> = (0..set.len()).filter(|_| r.chance(1, 2)).collect();
        if chosen.is_empty() {
            chosen.push(r.below(set.len()));
        }
        let env2 = Env::new(p);
        let bad = chosen.iter().any(|&i| {
            let s = &set[i];
            subtree_has(s, &|h| h.has_directive("updatable"))
                || subtree_uses_pointer(&env2, p, &ty, s)
        });
        if bad {
            continue;
        }
        let mut used_vars: Vec<String> = vec![];
        for &i in &chosen {
            for v in set[i].variables() {
                if !used_vars.contains(&v) {
                    used_vars.push(v);
                }
            }
        }
        if under_as && !used_vars.is_empty() {
            continue;
        }
        let mut vars = vec![];
        let mut ok = true;
        for v in &used_vars {
            match host_vars.iter().find(|d| d.name == *v) {
                Some(d) if accepts_variable(&d.ty) => vars.push(VarDef { name: d.name.clone(), ty: d.ty.clone(), default: None }),
                _ => ok = false,
            }
        }
        if !ok {
            continue;
        }
        // fresh name
        let existing: Vec<String> = env2.selectables(&ty).into_iter().map(|x| x.name).collect();
        let mut n = 1;
        let name = loop {
            let c = format!("Extracted{n}");
            if !existing.contains(&c) && !p.decls.iter().any(|(_, d)| d.name() == c) {
                break c;
            }
            n += 1;
        };
        // move
        let mut moved = vec![];
        let first = chosen[0];
        for &i in chosen.iter().rev() {
            moved.insert(0, set.remove(i));
        }
        let mut head = SelHead::new(&name);
        head.args = used_vars.iter().map(|v| (v.clone(), Value::var(v))).collect();
        set.insert(first.min(set.len()), Selection::Scalar(head));
        let new_decl = Decl::ClientField(ClientField {
            parent: ty.clone(),
            name,
            vars,
            directives: vec![],
            description: None,
            selections: moved,
        });
        q.decls.insert(decl, (host_file, new_decl));
        return Some(q);
    }
    None
}

fn subtree_uses_pointer(env: &Env, p: &Project, ty: &str, s: &Selection) -> bool {
    match env.lookup(ty, &s.head().name) {
        None => false,
        Some(t) => match t.kind {
            SelKind::ClientPointer => true,
            SelKind::ClientField => selects_pointer(p, ty, &t.name, 16),
            _ => match (s.kids(), &t.target) {
                (Some(k), Some(target)) => k.iter().any(|x| subtree_uses_pointer(env, p, target, x)),
                _ => false,
            },
        },
    }
}
