//! Type-directed generation of WELL-TYPED isograph projects over generated schemas.
//!
//! `generate(&mut Rng, &GenOpts) -> Project`.  Every random choice comes from the `Rng`, so a
//! project is a pure function of `(seed, index, opts)`.
//!
//! What "well-typed" means here (= what the real compiler accepts, measured in the smoke
//! binary): every selection names something selectable on its parent type with the right shape
//! (scalar vs. selection set), required arguments are present, argument values and variables are
//! type-compatible in the compiler's sense, every variable is declared and used, response names
//! are unique per selection set, client fields only select client fields declared EARLIER on the
//! same type (acyclic) unless `allow_cycles`.
use crate::env::{Env, SelKind, Selectable};
use crate::model::*;
use hx_common::Rng;

/// Which characters string values and descriptions may contain.
#[derive(Clone, Copy, Debug, PartialEq, Eq)]
pub enum Alphabet {
    /// `[A-Za-z0-9_]`
    Word,
    /// Word + space and ASCII punctuation that is harmless inside `"…"`, a JS template literal
    /// and a JS single-quoted string (no `"`, `\`, `` ` ``, `$`, `'`, no `*/`)
    Punct,
    /// Punct + `'`, `*/`, non-ASCII BMP characters (known findings F13/F13b live here)
    Risky,
}

#[derive(Clone, Debug)]
pub struct GenOpts {
    // ---- sizes ----
    /// non-root object types (payload types of mutations included); ≥ 1
    pub max_types: usize,
    /// server fields per object type (besides `id`)
    pub max_fields: usize,
    /// client fields + pointers (entrypoints come on top, one per chosen Query/Mutation field)
    pub max_decls: usize,
    /// nesting depth of selection sets (1 = only top-level selections)
    pub max_depth: usize,
    /// selections per selection set
    pub max_selections: usize,
    // ---- schema features, percentages 0..=100 ----
    pub pct_node_interface: usize,
    pub pct_second_interface: usize,
    pub pct_union: usize,
    pub pct_enum: usize,
    pub pct_custom_scalar: usize,
    pub pct_input_object: usize,
    pub pct_mutation: usize,
    pub pct_subscription: usize,
    pub pct_expose_field: usize,
    pub pct_field_args: usize,
    pub pct_descriptions: usize,
    /// names that are prefixes of one another (`Pet`/`PetStats`, `name`/`nameFull`, `Card`/`CardHeader`)
    pub pct_prefix_names: usize,
    // ---- program features ----
    pub pct_pointer: usize,
    pub pct_component: usize,
    pub pct_loadable: usize,
    pub pct_updatable: usize,
    pub pct_alias: usize,
    /// chance that an argument value is a variable rather than a literal
    pub pct_variable: usize,
    pub pct_var_default: usize,
    pub pct_optional_arg_given: usize,
    pub pct_entrypoint: usize,
    pub pct_lazy_entrypoint: usize,
    pub pct_special_fields: usize,
    pub pct_empty_selection_set: usize,
    /// variables inside object-literal arguments (known finding F12: accepted, but the query does
    /// not declare them)
    pub pct_var_in_object: usize,
    pub negative_ints: bool,
    pub strings: Alphabet,
    /// randomise `Options` (module kind, file extensions, header, persisted documents, …)
    pub random_options: bool,
    /// close a cycle between client fields (the real compiler overflows its stack: F20)
    pub allow_cycles: bool,
    /// emit `Float`/`Enum`/`List` VALUES, which the iso parser cannot parse
    pub unparseable_values: bool,
    /// entrypoints on non-root types that have an `id` (fetched through `node(id:)`)
    pub pct_non_root_entrypoint: usize,
    /// allow `@loadable` selections of client fields whose parent type has neither an `id` nor is
    /// a root type (the real compiler panics: "Expected refetch strategy")
    pub loadable_without_refetch_strategy: bool,
    /// client pointers may declare variables / use variables in their selection set
    /// `@loadable` on client fields that (transitively) contain `__refetch`, exposed fields,
    /// `@loadable` selections or pointers (the real compiler panics)
    pub loadable_with_nested_refetch: bool,
    /// variables as arguments of client fields / pointers selected below `asConcreteType`
    /// (the real compiler panics)
    pub vars_to_client_fields_under_as: bool,
    /// let client fields select client fields that (transitively) select a pointer whose target
    /// type differs from its parent type (the real compiler panics)
    pub select_fields_with_cross_type_pointers: bool,
    pub pointer_variables: bool,
    /// client pointers may target types without `id` or root types (the real compiler panics:
    /// "Type `T` is not fetchable")
    pub pointer_to_unfetchable: bool,
}

impl Default for GenOpts {
    fn default() -> Self {
        GenOpts {
            max_types: 5,
            max_fields: 4,
            max_decls: 6,
            max_depth: 3,
            max_selections: 4,
            pct_node_interface: 70,
            pct_second_interface: 35,
            pct_union: 40,
            pct_enum: 40,
            pct_custom_scalar: 30,
            pct_input_object: 45,
            pct_mutation: 45,
            pct_subscription: 10,
            pct_expose_field: 60,
            pct_field_args: 40,
            pct_descriptions: 25,
            pct_prefix_names: 50,
            pct_pointer: 20,
            pct_component: 50,
            pct_loadable: 20,
            pct_updatable: 10,
            pct_alias: 20,
            pct_variable: 45,
            pct_var_default: 20,
            pct_optional_arg_given: 50,
            pct_entrypoint: 85,
            pct_lazy_entrypoint: 15,
            pct_special_fields: 15,
            pct_empty_selection_set: 4,
            pct_var_in_object: 15,
            negative_ints: true,
            strings: Alphabet::Punct,
            random_options: true,
            allow_cycles: false,
            unparseable_values: false,
            pct_non_root_entrypoint: 0,
            loadable_without_refetch_strategy: false,
            loadable_with_nested_refetch: false,
            vars_to_client_fields_under_as: false,
            select_fields_with_cross_type_pointers: false,
            pointer_variables: false,
            pointer_to_unfetchable: false,
        }
    }
}

impl GenOpts {
    /// The conservative subset: no known-finding triggers (negative ints, variables in objects,
    /// punctuation in strings), default options.
    pub fn safe() -> GenOpts {
        GenOpts {
            negative_ints: false,
            pct_var_in_object: 0,
            strings: Alphabet::Word,
            pct_empty_selection_set: 0,
            ..GenOpts::default()
        }
    }
    pub fn tiny() -> GenOpts {
        GenOpts { max_types: 2, max_fields: 2, max_decls: 2, max_depth: 2, max_selections: 2, ..GenOpts::default() }
    }
}

fn pct(r: &mut Rng, p: usize) -> bool {
    r.below(100) < p
}

// ---------------------------------------------------------------------------------------------
// names
// ---------------------------------------------------------------------------------------------

const TYPE_WORDS: &[&str] = &["Pet", "User", "Item", "Post", "Team", "Shop", "Tag", "Room", "Book", "Game"];
const TYPE_SUFFIXES: &[&str] = &["Stats", "Info", "X", "s", "Item", "2", "_a"];
const FIELD_WORDS: &[&str] = &[
    "name", "age", "title", "count", "flag", "score", "tag", "owner", "friend", "best", "items", "item", "x", "value",
    "text", "size", "kind", "rank", "total", "label", "note", "link_", "typename", "a", "b",
];
const FIELD_SUFFIXES: &[&str] = &["Full", "s", "2", "_x", "Id", "Of", "1"];
const CLIENT_WORDS: &[&str] =
    &["Card", "Avatar", "Row", "List", "Detail", "Summary", "Header", "Badge", "Page", "View", "Link", "Field", "F", "Q"];
const CLIENT_SUFFIXES: &[&str] = &["Header", "Inner", "2", "Big", "_v", "X"];
const ARG_WORDS: &[&str] = &["first", "skip", "limit", "filter", "input", "q", "by", "n", "only", "fir", "firstN", "where_"];
const VAR_WORDS: &[&str] = &["v", "id_", "n", "q", "first", "input", "x", "va", "var1"];
const ENUM_VALUES: &[&str] = &["RED", "GREEN", "BLUE", "A", "AB", "UP", "DOWN"];

struct Names {
    used: Vec<String>,
}

impl Names {
    fn new(reserved: &[&str]) -> Names {
        Names { used: reserved.iter().map(|s| s.to_string()).collect() }
    }
    fn taken(&self, n: &str) -> bool {
        self.used.iter().any(|u| u == n)
    }
    /// A fresh name; with probability `prefix_pct` it extends (or is a prefix of) one already used.
    fn fresh(&mut self, r: &mut Rng, words: &[&str], suffixes: &[&str], prefix_pct: usize, own: &[String]) -> String {
        for _ in 0..40 {
            let cand = if !own.is_empty() && pct(r, prefix_pct) {
                let base = r.pick(own).clone();
                if base.len() > 2 && r.chance(1, 3) {
                    base[..base.len() - 1].to_string()
                } else {
                    format!("{base}{}", r.pick(suffixes))
                }
            } else {
                r.pick(words).to_string()
            };
            if !self.taken(&cand) && is_name(&cand) {
                self.used.push(cand.clone());
                return cand;
            }
        }
        let mut k = self.used.len();
        loop {
            let cand = format!("{}{}", words[k % words.len()], k);
            if !self.taken(&cand) {
                self.used.push(cand.clone());
                return cand;
            }
            k += 1;
        }
    }
}

pub fn is_name(s: &str) -> bool {
    let mut cs = s.chars();
    match cs.next() {
        Some(c) if c.is_ascii_alphabetic() || c == '_' => {}
        _ => return false,
    }
    cs.all(|c| c.is_ascii_alphanumeric() || c == '_')
}

fn gen_text(r: &mut Rng, a: Alphabet, max_len: usize) -> String {
    const WORD: &[&str] = &["a", "b", "Z", "q", "0", "7", "_", "x", "Y"];
    const PUNCT: &[&str] = &[" ", " ", "-", ".", ",", ":", ";", "!", "?", "(", ")", "#", "+", "=", "/", "*", "<", ">", "[", "]", "{", "}", "@", "&", "|", "~", "^", "%"];
    const RISKY: &[&str] = &["'", "*/", "é", "ö", "→", "漢", "/*", "//"];
    let n = r.range(0, max_len);
    let mut s = String::new();
    for _ in 0..n {
        let pool: &[&str] = match a {
            Alphabet::Word => WORD,
            Alphabet::Punct => {
                if r.chance(2, 3) { WORD } else { PUNCT }
            }
            Alphabet::Risky => match r.below(6) {
                0 => RISKY,
                1 | 2 => PUNCT,
                _ => WORD,
            },
        };
        let piece: &str = *r.pick(pool);
        s.push_str(piece);
    }
    s
}

fn gen_description(r: &mut Rng, o: &GenOpts) -> Option<String> {
    if !pct(r, o.pct_descriptions) {
        return None;
    }
    // no leading/trailing blank lines, no line starting with white space: the rendered block
    // string then cleans back to exactly this text
    let line = |r: &mut Rng| {
        let t = gen_text(r, o.strings, 10);
        let t = t.trim().to_string();
        if t.is_empty() { "d".to_string() } else { t }
    };
    let mut d = line(r);
    if r.chance(1, 4) {
        d.push('\n');
        d.push_str(&line(r));
    }
    Some(d)
}

// ---------------------------------------------------------------------------------------------
// schema
// ---------------------------------------------------------------------------------------------

struct SchemaCtx {
    objects: Vec<String>,
    /// composite types that fields may point to
    composites: Vec<String>,
    enums: Vec<String>,
    scalars: Vec<String>,
    inputs: Vec<String>,
    has_node: bool,
}

fn wrap_output(r: &mut Rng, t: TypeRef, allow_list: bool) -> TypeRef {
    match r.below(if allow_list { 6 } else { 3 }) {
        0 | 1 => t,
        2 => t.non_null(),
        3 => t.non_null().list().non_null(),
        4 => t.list(),
        _ => t.non_null().list(),
    }
}

fn leaf_type(r: &mut Rng, c: &SchemaCtx) -> String {
    let mut pool: Vec<String> = vec!["String".into(), "String".into(), "Int".into(), "Int".into(), "Float".into(), "Boolean".into(), "ID".into()];
    pool.extend(c.enums.iter().cloned());
    pool.extend(c.scalars.iter().cloned());
    r.pick(&pool).clone()
}

fn input_type(r: &mut Rng, c: &SchemaCtx, allow_input_objects: bool) -> TypeRef {
    let mut pool: Vec<String> = vec!["String".into(), "Int".into(), "Int".into(), "Boolean".into(), "ID".into(), "Float".into()];
    pool.extend(c.enums.iter().cloned());
    pool.extend(c.scalars.iter().cloned());
    if allow_input_objects {
        pool.extend(c.inputs.iter().cloned());
        pool.extend(c.inputs.iter().cloned());
    }
    let t = TypeRef::Named(r.pick(&pool).clone());
    match r.below(10) {
        0..=4 => t,
        5..=7 => t.non_null(),
        8 => t.non_null().list(),
        _ => t.non_null().list().non_null(),
    }
}

/// A constant literal of type `t` in the subset the SCHEMA parser and the iso parser both read.
fn const_literal(r: &mut Rng, o: &GenOpts, s: &Schema, t: &TypeRef) -> Option<Value> {
    if t.is_list() {
        return None;
    }
    match t.inner() {
        "Int" | "Float" => Some(Value::Int(gen_int(r, o))),
        "String" => Some(Value::Str(gen_text(r, o.strings, 6))),
        "Boolean" => Some(Value::Bool(r.chance(1, 2))),
        "ID" => Some(if r.chance(1, 2) { Value::Str(gen_text(r, Alphabet::Word, 4)) } else { Value::Int(r.below(50) as i64) }),
        n => match s.get(n).map(|t| &t.kind) {
            Some(TypeKind::Enum { .. }) | Some(TypeKind::Scalar) | None => None,
            _ => None,
        },
    }
}

fn gen_int(r: &mut Rng, o: &GenOpts) -> i64 {
    let v = *r.pick(&[0i64, 1, 2, 3, 5, 10, 42, 100, 2147483647]);
    if o.negative_ints && r.chance(1, 6) { -v - 1 } else { v }
}

fn gen_args(r: &mut Rng, o: &GenOpts, c: &SchemaCtx, s: &Schema, prefix: usize) -> Vec<ArgDef> {
    let n = r.range(1, 2);
    let mut names = Names::new(&["id"]);
    let mut own: Vec<String> = vec![];
    let mut out = vec![];
    for _ in 0..n {
        let name = names.fresh(r, ARG_WORDS, &["N", "2", "_"], prefix, &own);
        own.push(name.clone());
        let ty = input_type(r, c, true);
        let default = if ty.is_nullable() && r.chance(1, 4) { const_literal(r, o, s, &ty) } else { None };
        out.push(ArgDef { name, description: None, ty, default });
    }
    out
}

fn gen_schema(r: &mut Rng, o: &GenOpts) -> (Schema, Vec<Extension>) {
    let mut s = Schema::default();
    let mut tn = Names::new(&[
        "Query", "Mutation", "Subscription", "Node", "String", "Int", "Float", "Boolean", "ID",
    ]);
    let mut own_types: Vec<String> = vec![];
    let mut c = SchemaCtx { objects: vec![], composites: vec![], enums: vec![], scalars: vec![], inputs: vec![], has_node: pct(r, o.pct_node_interface) };

    // leaf types first so that fields can use them
    if pct(r, o.pct_enum) {
        let name = tn.fresh(r, &["Color", "Kind", "Dir", "Mode"], &["2", "X"], 0, &[]);
        let k = r.range(1, 3);
        let mut values: Vec<String> = vec![];
        while values.len() < k {
            let v = r.pick(ENUM_VALUES).to_string();
            if !values.contains(&v) {
                values.push(v);
            }
        }
        s.types.push(TypeDef { name: name.clone(), description: gen_description(r, o), kind: TypeKind::Enum { values } });
        c.enums.push(name);
    }
    if pct(r, o.pct_custom_scalar) {
        let name = tn.fresh(r, &["Url", "Date", "Json", "Money"], &["2", "X"], 0, &[]);
        s.types.push(TypeDef { name: name.clone(), description: gen_description(r, o), kind: TypeKind::Scalar });
        c.scalars.push(name);
    }
    if pct(r, o.pct_input_object) {
        let k = r.range(1, 2);
        for _ in 0..k {
            let name = tn.fresh(r, &["Filter", "Params", "Input", "Where"], &["Inner", "2", "X"], o.pct_prefix_names, &c.inputs.clone());
            let nf = r.range(1, 3);
            let mut fnames = Names::new(&[]);
            let mut own: Vec<String> = vec![];
            let mut fields = vec![];
            for _ in 0..nf {
                let fname = fnames.fresh(r, FIELD_WORDS, FIELD_SUFFIXES, o.pct_prefix_names, &own);
                own.push(fname.clone());
                // nested input objects only refer to EARLIER ones (no recursion)
                let ty = input_type(r, &c, true);
                let default = if ty.is_nullable() && r.chance(1, 5) { const_literal(r, o, &s, &ty) } else { None };
                fields.push(ArgDef { name: fname, description: gen_description(r, o), ty, default });
            }
            s.types.push(TypeDef { name: name.clone(), description: gen_description(r, o), kind: TypeKind::Input { fields } });
            c.inputs.push(name);
        }
    }

    // object type names
    let n_obj = r.range(1, o.max_types.max(1));
    for _ in 0..n_obj {
        let name = tn.fresh(r, TYPE_WORDS, TYPE_SUFFIXES, o.pct_prefix_names, &own_types);
        own_types.push(name.clone());
        c.objects.push(name.clone());
        c.composites.push(name);
    }

    // interfaces / unions over them
    let mut implements: Vec<Vec<String>> = vec![vec![]; n_obj];
    let mut with_id: Vec<bool> = vec![false; n_obj];
    if c.has_node {
        for i in 0..n_obj {
            if r.chance(3, 4) {
                implements[i].push("Node".into());
                with_id[i] = true;
            }
        }
        c.composites.push("Node".into());
    } else {
        for w in with_id.iter_mut() {
            *w = r.chance(1, 3);
        }
    }
    let mut second_iface: Option<(String, Vec<FieldDef>)> = None;
    if n_obj >= 2 && pct(r, o.pct_second_interface) {
        let name = tn.fresh(r, &["Named", "Entity", "Thing", "Actor"], &["2", "X"], 0, &[]);
        let mut fnames = Names::new(&["id"]);
        let k = r.range(1, 2);
        let mut fields = vec![];
        for _ in 0..k {
            let fname = fnames.fresh(r, FIELD_WORDS, FIELD_SUFFIXES, 0, &[]);
            let n = leaf_type(r, &c);
            let ty = wrap_output(r, TypeRef::Named(n), false);
            fields.push(FieldDef { name: fname, description: gen_description(r, o), args: vec![], ty });
        }
        let mut members = 0;
        for i in 0..n_obj {
            if r.chance(2, 3) {
                implements[i].push(name.clone());
                members += 1;
            }
        }
        if members == 0 {
            implements[0].push(name.clone());
        }
        c.composites.push(name.clone());
        second_iface = Some((name, fields));
    }
    let mut union_def: Option<TypeDef> = None;
    if n_obj >= 2 && pct(r, o.pct_union) {
        let name = tn.fresh(r, &["Feed", "Result", "Any", "Either"], &["Item", "2"], 0, &[]);
        let mut members: Vec<String> = c.objects.iter().filter(|_| r.chance(2, 3)).cloned().collect();
        if members.len() < 2 {
            members = c.objects[..2].to_vec();
        }
        c.composites.push(name.clone());
        union_def = Some(TypeDef { name, description: gen_description(r, o), kind: TypeKind::Union { members } });
    }

    // object fields
    let gen_object_fields = |r: &mut Rng, c: &SchemaCtx, s: &Schema, reserved: &[&str], n: usize| -> Vec<FieldDef> {
        let mut fnames = Names::new(reserved);
        let mut own: Vec<String> = vec![];
        let mut fields = vec![];
        for _ in 0..n {
            let fname = fnames.fresh(r, FIELD_WORDS, FIELD_SUFFIXES, o.pct_prefix_names, &own);
            own.push(fname.clone());
            let ty = if r.chance(2, 5) && !c.composites.is_empty() {
                {
                let n = r.pick(&c.composites).clone();
                wrap_output(r, TypeRef::Named(n), true)
            }
            } else {
                {
                let n = leaf_type(r, c);
                wrap_output(r, TypeRef::Named(n), true)
            }
            };
            let args = if pct(r, o.pct_field_args) { gen_args(r, o, c, s, o.pct_prefix_names) } else { vec![] };
            fields.push(FieldDef { name: fname, description: gen_description(r, o), args, ty });
        }
        fields
    };
    let reserved_field_names: Vec<String> = {
        // `as<Type>` and the special names must not be declared by the schema
        let mut v = vec!["id".to_string(), "__typename".into(), "__link".into(), "__refetch".into(), "node".into()];
        if let Some((_, fs)) = &second_iface {
            v.extend(fs.iter().map(|f| f.name.clone()));
        }
        v
    };
    let reserved_refs: Vec<&str> = reserved_field_names.iter().map(|s| s.as_str()).collect();

    if c.has_node {
        s.types.push(TypeDef {
            name: "Node".into(),
            description: None,
            kind: TypeKind::Interface {
                implements: vec![],
                fields: vec![FieldDef { name: "id".into(), description: None, args: vec![], ty: TypeRef::named("ID").non_null() }],
            },
        });
    }
    if let Some((name, fields)) = &second_iface {
        s.types.push(TypeDef {
            name: name.clone(),
            description: gen_description(r, o),
            kind: TypeKind::Interface { implements: vec![], fields: fields.clone() },
        });
    }
    for i in 0..n_obj {
        let mut fields = vec![];
        if with_id[i] {
            fields.push(FieldDef { name: "id".into(), description: gen_description(r, o), args: vec![], ty: TypeRef::named("ID").non_null() });
        }
        if let Some((iname, ifields)) = &second_iface {
            if implements[i].contains(iname) {
                fields.extend(ifields.iter().cloned());
            }
        }
        let n = r.range(1, o.max_fields.max(1));
        fields.extend(gen_object_fields(r, &c, &s, &reserved_refs, n));
        s.types.push(TypeDef {
            name: c.objects[i].clone(),
            description: gen_description(r, o),
            kind: TypeKind::Object { implements: implements[i].clone(), fields },
        });
    }
    if let Some(u) = union_def {
        s.types.push(u);
    }

    // Query
    let mut qfields = vec![];
    if c.has_node {
        qfields.push(FieldDef {
            name: "node".into(),
            description: None,
            args: vec![ArgDef { name: "id".into(), description: None, ty: TypeRef::named("ID").non_null(), default: None }],
            ty: TypeRef::named("Node"),
        });
    }
    {
        let n = r.range(2, o.max_fields.max(2));
        let mut fnames = Names::new(&reserved_refs);
        let mut own: Vec<String> = vec![];
        for k in 0..n {
            let fname = fnames.fresh(r, &["viewer", "me", "item", "items", "search", "byId", "top", "all", "feed", "one"], &["s", "2", "ById"], o.pct_prefix_names, &own);
            own.push(fname.clone());
            let ty = if k == 0 || r.chance(3, 4) {
                {
                let n = r.pick(&c.composites).clone();
                wrap_output(r, TypeRef::Named(n), true)
            }
            } else {
                {
                let n = leaf_type(r, &c);
                wrap_output(r, TypeRef::Named(n), true)
            }
            };
            let args = if pct(r, o.pct_field_args + 15) { gen_args(r, o, &c, &s, o.pct_prefix_names) } else { vec![] };
            qfields.push(FieldDef { name: fname, description: gen_description(r, o), args, ty });
        }
    }
    s.types.insert(0, TypeDef { name: "Query".into(), description: gen_description(r, o), kind: TypeKind::Object { implements: vec![], fields: qfields } });

    // Mutation (+ payload types) and @exposeField
    let mut exts: Vec<Extension> = vec![];
    let id_objects: Vec<String> = (0..n_obj).filter(|&i| with_id[i]).map(|i| c.objects[i].clone()).collect();
    if pct(r, o.pct_mutation) {
        let mut mfields = vec![];
        let mut expose = vec![];
        let k = r.range(1, 2);
        let mut mnames = Names::new(&[]);
        let mut own: Vec<String> = vec![];
        for _ in 0..k {
            let mname = mnames.fresh(r, &["set_name", "update", "rename", "touch", "bump"], &["_v2", "2", "All"], o.pct_prefix_names, &own);
            own.push(mname.clone());
            if !id_objects.is_empty() && r.chance(3, 4) {
                // payload pattern of the pet demo: m(id: ID!, extra…): Payload!   Payload { obj: T! }
                let target = r.pick(&id_objects).clone();
                let pname = tn.fresh(r, &["Payload", "Response", "Result"], &["2", "X", "B"], 0, &[]);
                let obj_field = r.pick(&["obj", "pet", "result", "it"]).to_string();
                let payload_ty = if r.chance(1, 2) { TypeRef::Named(target.clone()).non_null() } else { TypeRef::Named(target.clone()) };
                s.types.push(TypeDef {
                    name: pname.clone(),
                    description: None,
                    kind: TypeKind::Object {
                        implements: vec![],
                        fields: vec![FieldDef { name: obj_field.clone(), description: None, args: vec![], ty: payload_ty }],
                    },
                });
                let mut args = vec![ArgDef { name: "id".into(), description: None, ty: TypeRef::named("ID").non_null(), default: None }];
                if r.chance(1, 2) {
                    let extra = input_type(r, &c, false);
                    args.push(ArgDef { name: r.pick(&["value", "to", "n"]).to_string(), description: None, ty: extra, default: None });
                }
                let mty = if r.chance(1, 2) { TypeRef::Named(pname).non_null() } else { TypeRef::Named(pname) };
                mfields.push(FieldDef { name: mname.clone(), description: gen_description(r, o), args, ty: mty });
                if pct(r, o.pct_expose_field) {
                    let as_name = if r.chance(1, 2) { Some(format!("do_{mname}")) } else { None };
                    expose.push(ExposeField { path: vec![mname, obj_field], as_name, field_map: vec![("id".into(), "id".into())] });
                }
            } else {
                let n = r.pick(&c.composites).clone();
                let ty = wrap_output(r, TypeRef::Named(n), false);
                let args = gen_args(r, o, &c, &s, 0);
                mfields.push(FieldDef { name: mname, description: None, args, ty });
            }
        }
        s.types.push(TypeDef { name: "Mutation".into(), description: None, kind: TypeKind::Object { implements: vec![], fields: mfields } });
        if !expose.is_empty() {
            exts.push(Extension { on_type: "Mutation".into(), expose });
        }
    }
    if pct(r, o.pct_subscription) {
        let ty = TypeRef::Named(r.pick(&c.composites).clone());
        s.types.push(TypeDef {
            name: "Subscription".into(),
            description: None,
            kind: TypeKind::Object {
                implements: vec![],
                fields: vec![FieldDef { name: "changes".into(), description: None, args: vec![], ty }],
            },
        });
    }
    // Query-side exposure: node.asT
    if c.has_node && pct(r, o.pct_expose_field / 2) {
        let node_members: Vec<String> = s.concrete_subtypes("Node");
        if !node_members.is_empty() {
            let t = r.pick(&node_members).clone();
            exts.push(Extension {
                on_type: "Query".into(),
                expose: vec![ExposeField { path: vec!["node".into(), format!("as{t}")], as_name: Some(format!("refetch_{t}")), field_map: vec![] }],
            });
        }
    }
    (s, exts)
}

// ---------------------------------------------------------------------------------------------
// programs
// ---------------------------------------------------------------------------------------------

/// Per-declaration generation state: the variables declared so far.
struct DeclCtx {
    vars: Vec<VarDef>,
    var_names: Names,
    /// never introduce variables (arguments that need one are left out or `null`)
    no_vars: bool,
    /// currently below an `asConcreteType { … }` selection
    under_as: bool,
    /// the selection set generated so far creates refetch paths (`__refetch`, exposed field,
    /// `@loadable`, client pointer, or a client field that does)
    refetchy: bool,
    /// selects (transitively) a pointer with target ≠ parent
    pointerish: bool,
}

impl DeclCtx {
    fn new() -> DeclCtx {
        DeclCtx { vars: vec![], var_names: Names::new(&[]), no_vars: false, under_as: false, refetchy: false, pointerish: false }
    }
    /// A variable usable for an argument of type `target` (reusing a declared one sometimes).
    fn variable_for(&mut self, r: &mut Rng, o: &GenOpts, s: &Schema, target: &TypeRef, hint: &str) -> String {
        let reusable: Vec<String> = self
            .vars
            .iter()
            .filter(|v| crate::env::variable_type_satisfies(&v.ty, target) && v.default.is_none())
            .map(|v| v.name.clone())
            .collect();
        if !reusable.is_empty() && r.chance(1, 2) {
            return r.pick(&reusable).clone();
        }
        let name = if is_name(hint) && !self.var_names.taken(hint) && r.chance(1, 2) {
            self.var_names.used.push(hint.to_string());
            hint.to_string()
        } else {
            let own: Vec<String> = self.vars.iter().map(|v| v.name.clone()).collect();
            self.var_names.fresh(r, VAR_WORDS, &["2", "_b", "X"], o.pct_prefix_names, &own)
        };
        // exactly the argument type, or (for nullable targets) the stricter non-null version
        let ty = if target.is_nullable() && r.chance(1, 4) { target.clone().non_null() } else { target.clone() };
        let default = if ty.is_nullable() && pct(r, o.pct_var_default) { const_literal(r, o, s, &ty) } else { None };
        self.vars.push(VarDef { name: name.clone(), ty, default });
        name
    }
}

/// Can the compiler accept a VARIABLE for an argument of this type?  Not if a nullable list
/// occurs anywhere in it: such types are compared including the source location embedded in
/// the list annotation, so even a variable of the identical type is rejected ("Mismatched
/// type").  (Reported as a finding; the generator steers around it.)
pub fn accepts_variable(t: &TypeRef) -> bool {
    match t {
        TypeRef::Named(_) => true,
        TypeRef::List(_) => false,
        TypeRef::NonNull(i) => match &**i {
            TypeRef::List(e) => accepts_variable(e),
            other => accepts_variable(other),
        },
    }
}

/// Is there any way to write a value of type `t` (other than `null`)?
fn writable(o: &GenOpts, s: &Schema, t: &TypeRef) -> bool {
    if accepts_variable(t) {
        return true;
    }
    let _ = (o, s);
    false
}

/// A value for an argument of type `t`; `None` when none can be written (only possible when
/// variables are forbidden: enum / custom scalar / list types have no literal syntax).
fn gen_value(r: &mut Rng, o: &GenOpts, s: &Schema, cx: &mut DeclCtx, t: &TypeRef, hint: &str, in_object: bool) -> Option<Value> {
    let var_ok = accepts_variable(t) && !cx.no_vars && !(in_object && o.pct_var_in_object == 0);
    if t.is_nullable() && (r.chance(1, 12) || !writable(o, s, t)) {
        return Some(Value::Null);
    }
    let want_var = var_ok && if in_object { pct(r, o.pct_var_in_object) } else { pct(r, o.pct_variable) };
    if want_var {
        return Some(Value::Var(cx.variable_for(r, o, s, t, hint)));
    }
    let literal: Option<Value> = if t.is_list() {
        if o.unparseable_values {
            let inner = match t.nullable() {
                TypeRef::List(i) => *i,
                other => other,
            };
            gen_value(r, o, s, cx, &inner, hint, true).map(|v| Value::List(vec![v]))
        } else {
            None
        }
    } else {
        match t.inner() {
            "Float" if o.unparseable_values && r.chance(1, 2) => Some(Value::Float("1.5".into())),
            "Int" | "Float" | "String" | "Boolean" | "ID" => const_literal(r, o, s, &t.nullable()),
            n => match s.get(n).map(|t| &t.kind) {
                Some(TypeKind::Input { fields }) => {
                    let mut fs = Some(vec![]);
                    for f in fields {
                        // the compiler requires exactly the non-null NAMED fields
                        let required = matches!(&f.ty, TypeRef::NonNull(i) if matches!(**i, TypeRef::Named(_)));
                        if required || (pct(r, o.pct_optional_arg_given) && (f.ty.is_nullable() || writable(o, s, &f.ty))) {
                            match gen_value(r, o, s, cx, &f.ty, &f.name, true) {
                                Some(v) => {
                                    if let Some(fs) = fs.as_mut() {
                                        fs.push((f.name.clone(), v))
                                    }
                                }
                                None if required => fs = None,
                                None => {}
                            }
                        }
                    }
                    fs.map(Value::Object)
                }
                Some(TypeKind::Enum { values }) if o.unparseable_values => Some(Value::Enum(r.pick(values).clone())),
                _ => None,
            },
        }
    };
    match literal {
        Some(v) => Some(v),
        // no literal syntax for this type (enum, custom scalar, list): a variable is the only way
        None => {
            if accepts_variable(t) && !cx.no_vars {
                Some(Value::Var(cx.variable_for(r, o, s, t, hint)))
            } else if t.is_nullable() {
                Some(Value::Null)
            } else {
                None
            }
        }
    }
}

struct ProgCtx<'a> {
    o: &'a GenOpts,
    /// node(id:) exists → `__refetch`/`@loadable` have something to refetch through
    has_node_field: bool,
    /// client fields (parent, name) whose selection sets (transitively) create refetch paths
    refetchy: Vec<(String, String)>,
    /// client fields / pointers that (transitively) select a client pointer whose target type
    /// differs from its parent type.  Selecting such a field from ANOTHER client field makes the
    /// reader generator walk the pointer's own selection set against the pointer's TARGET type
    /// and panic ("Expected selectable to exist"); they are only used as entrypoints.
    pointerish: Vec<(String, String)>,
}

fn fresh_alias(r: &mut Rng, used: &[String], base: &str) -> String {
    for suffix in ["2", "_alt", "B", "3", "_x", "4", "5", "6"] {
        let cand = if r.chance(1, 2) { format!("{base}{suffix}") } else { format!("a_{base}{suffix}") };
        if !used.contains(&cand) {
            return cand;
        }
    }
    format!("{base}_{}", used.len())
}

/// Arguments for a selection of `sel`; `None` if a required argument cannot be written.
fn gen_args_for(r: &mut Rng, pc: &ProgCtx, s: &Schema, cx: &mut DeclCtx, sel: &Selectable, loadable: bool) -> Option<Vec<(String, Value)>> {
    let mut out = vec![];
    for a in &sel.args {
        let required = a.ty.is_non_null() && a.default.is_none();
        let give = if required { !(loadable && r.chance(1, 2)) } else { pct(r, pc.o.pct_optional_arg_given) };
        if give {
            match gen_value(r, pc.o, s, cx, &a.ty, &a.name, false) {
                Some(v) => out.push((a.name.clone(), v)),
                None if required => return None,
                None => {}
            }
        }
    }
    if out.len() > 1 && r.chance(1, 3) {
        out.reverse();
    }
    Some(out)
}

fn gen_selection_set(r: &mut Rng, pc: &ProgCtx, env: &Env, cx: &mut DeclCtx, ty: &str, depth: usize, allow_updatable: bool) -> Vec<Selection> {
    let o = pc.o;
    let s = env.schema();
    let avail = env.selectables(ty);
    if pct(r, o.pct_empty_selection_set) {
        return vec![];
    }
    let k = r.range(1, o.max_selections.max(1));
    let mut out: Vec<Selection> = vec![];
    let mut used: Vec<String> = vec![];
    for _ in 0..k {
        // weighted choice
        let mut pool: Vec<&Selectable> = vec![];
        for x in &avail {
            if !o.select_fields_with_cross_type_pointers
                && matches!(x.kind, SelKind::ClientField | SelKind::ClientPointer)
                && pc.pointerish.iter().any(|(p, n)| p == ty && *n == x.name)
            {
                continue;
            }
            let w = match x.kind {
                SelKind::ServerScalar => 4,
                SelKind::ServerObject => if depth > 1 { 4 } else { 0 },
                SelKind::ClientField => 5,
                SelKind::ClientPointer => if depth > 1 { 4 } else { 0 },
                SelKind::Exposed => 3,
                SelKind::AsConcrete => if depth > 1 { 3 } else { 0 },
                SelKind::Typename | SelKind::Link => if pct(r, o.pct_special_fields) { 1 } else { 0 },
                SelKind::Refetch => if pc.has_node_field && pct(r, o.pct_special_fields) { 1 } else { 0 },
            };
            for _ in 0..w {
                pool.push(x);
            }
        }
        if pool.is_empty() {
            // a type with nothing but special fields (union at depth 1, …)
            pool.extend(avail.iter().filter(|x| matches!(x.kind, SelKind::Typename)));
            if pool.is_empty() {
                break;
            }
        }
        let x: &Selectable = *r.pick(&pool);
        let mut head = SelHead::new(&x.name);
        if used.iter().any(|u| *u == x.name) {
            head.alias = Some(fresh_alias(r, &used, &x.name));
        } else if pct(r, o.pct_alias) {
            let a = fresh_alias(r, &used, &x.name);
            // an alias must not shadow a later un-aliased selection of that name: keep it distinct
            // from every selectable name
            if !avail.iter().any(|y| y.name == a) {
                head.alias = Some(a);
            }
        }
        used.push(head.response_name().to_string());
        let mut loadable = false;
        match x.kind {
            SelKind::ClientField => {
                // `@loadable` needs a refetch strategy: the field's parent type is a root type or
                // has an `id` (otherwise the compiler panics "Expected refetch strategy")
                let refetchable = matches!(ty, "Query" | "Mutation" | "Subscription")
                    || (pc.has_node_field && s.get(ty).map_or(false, |t| t.has_id()));
                // … and the loaded field must not itself contain refetch paths (`__refetch`,
                // exposed fields, nested `@loadable`, pointers): the entrypoint generator looks
                // those paths up in the wrong selection map and panics ("Expected linked field to
                // exist by now")
                let is_refetchy = pc.refetchy.iter().any(|(p, n)| p == ty && *n == x.name);
                if is_refetchy {
                    cx.refetchy = true;
                }
                if (refetchable || o.loadable_without_refetch_strategy)
                    && (!is_refetchy || o.loadable_with_nested_refetch)
                    && pct(r, o.pct_loadable)
                {
                    cx.refetchy = true;
                    loadable = true;
                    head.directives.push(Directive::loadable(r.chance(1, 2)));
                }
            }
            SelKind::ServerScalar | SelKind::ServerObject => {
                if allow_updatable && x.name != "id" && pct(r, o.pct_updatable) {
                    head.directives.push(Directive::updatable());
                }
            }
            _ => {}
        }
        if matches!(x.kind, SelKind::Refetch | SelKind::Exposed | SelKind::ClientPointer) {
            cx.refetchy = true;
        }
        if x.kind == SelKind::ClientPointer && x.target.as_deref() != Some(ty) {
            cx.pointerish = true;
        }
        // below an `asConcreteType` selection the compiler merges with an EMPTY variable
        // context: a variable handed to a client field / pointer there panics ("Parent context
        // has missing variable")
        let saved_no_vars = cx.no_vars;
        if cx.under_as && matches!(x.kind, SelKind::ClientField | SelKind::ClientPointer) && !o.vars_to_client_fields_under_as {
            cx.no_vars = true;
        }
        let args = gen_args_for(r, pc, s, cx, x, loadable);
        cx.no_vars = saved_no_vars;
        match args {
            Some(a) => head.args = a,
            None => {
                used.pop();
                continue;
            }
        }
        if x.kind.is_linked() {
            let target = x.target.clone().unwrap();
            let saved_under_as = cx.under_as;
            if x.kind == SelKind::AsConcrete {
                cx.under_as = true;
            }
            let kids = gen_selection_set(r, pc, env, cx, &target, depth - 1, allow_updatable);
            cx.under_as = saved_under_as;
            out.push(Selection::Linked(head, kids));
        } else {
            out.push(Selection::Scalar(head));
        }
    }
    out
}

fn gen_options(r: &mut Rng, o: &GenOpts) -> Options {
    let mut opt = Options::default();
    if !o.random_options || r.chance(1, 3) {
        return opt;
    }
    if r.chance(1, 3) {
        opt.module = ModuleKind::CommonJs;
    }
    opt.include_file_extensions_in_import_statements = r.chance(1, 3);
    if r.chance(1, 3) {
        let h = gen_text(r, o.strings, 12);
        opt.generated_file_header = Some(if h.is_empty() { "header".into() } else { h });
    }
    if r.chance(1, 3) {
        opt.persisted_documents = Some(PersistedDocuments {
            file: if r.chance(1, 3) { Some("docs.json".into()) } else { None },
            algorithm: if r.chance(1, 2) { HashAlgorithm::Md5 } else { HashAlgorithm::Sha256 },
            include_extra_info: r.chance(1, 2),
        });
    }
    opt.no_babel_transform = r.chance(1, 4);
    opt.on_invalid_id_type = *r.pick(&[ValidationLevel::Error, ValidationLevel::Error, ValidationLevel::Warn, ValidationLevel::Ignore]);
    if r.chance(1, 5) {
        opt.project_root = "app/src".into();
    }
    if r.chance(1, 6) {
        opt.artifact_directory = Some("generated".into());
    }
    opt
}

/// A well-typed project.
pub fn generate(r: &mut Rng, o: &GenOpts) -> Project {
    let (schema, extensions) = gen_schema(r, o);
    let options = gen_options(r, o);
    let mut p = Project { schema, extensions, decls: vec![], options, extra_files: vec![] };
    let root = p.options.project_root.clone();

    let has_node_field = p.schema.get("Query").and_then(|q| q.field("node")).is_some();
    let mut pc = ProgCtx { o, has_node_field, refetchy: vec![], pointerish: vec![] };

    // candidate parent types, Query first and most likely
    let composites: Vec<String> = p.schema.types.iter().filter(|t| t.is_composite()).map(|t| t.name.clone()).collect();
    let n_decls = r.range(1, o.max_decls.max(1));
    let mut client_names = Names::new(&[]);
    let mut own_client: Vec<String> = vec![];
    let mut parents_used: Vec<String> = vec![];
    let mut files: Vec<String> = vec![];

    // build bottom-up: declarations on non-root types first so that Query fields can use them
    let mut plan: Vec<String> = vec![];
    for k in 0..n_decls {
        let parent = if k + 1 == n_decls || r.chance(1, 4) {
            "Query".to_string()
        } else if !parents_used.is_empty() && r.chance(1, 2) {
            r.pick(&parents_used).clone()
        } else {
            r.pick(&composites).clone()
        };
        if parent != "Query" {
            parents_used.push(parent.clone());
        }
        plan.push(parent);
    }
    // non-root parents first, Query/Mutation last (stable)
    plan.sort_by_key(|t| matches!(t.as_str(), "Query" | "Mutation" | "Subscription") as u8);

    for parent in plan {
        let name = {
            // a name that is not already a selectable of the parent
            let existing: Vec<String> = Env::new(&p).selectables(&parent).into_iter().map(|x| x.name).collect();
            let mut n;
            loop {
                n = client_names.fresh(r, CLIENT_WORDS, CLIENT_SUFFIXES, o.pct_prefix_names, &own_client);
                if !existing.contains(&n) && !n.starts_with("as") {
                    break;
                }
            }
            own_client.push(n.clone());
            n
        };
        let is_root = matches!(parent.as_str(), "Query" | "Mutation" | "Subscription");
        let mut cx = DeclCtx::new();
        let file = if !files.is_empty() && r.chance(1, 3) {
            r.pick(&files).clone()
        } else {
            let dir = *r.pick(&["", "", "components/", "components/", "a/", "ab/", "a/b/"]);
            let ext = *r.pick(&["ts", "tsx", "tsx", "js", "jsx"]);
            let f = format!("{root}/{dir}{name}.{ext}");
            files.push(f.clone());
            f
        };
        let env = Env::new(&p);
        // pointer targets: by default only types the compiler can refetch (non-root, with `id`,
        // and `Query.node` present)
        let pointer_targets: Vec<String> = composites
            .iter()
            .filter(|t| {
                o.pointer_to_unfetchable
                    || (pc.has_node_field
                        && !matches!(t.as_str(), "Query" | "Mutation" | "Subscription")
                        && p.schema.get(t).map_or(false, |t| t.has_id()))
            })
            .cloned()
            .collect();
        let refetchy;
        let pointerish;
        let decl = if !is_root && !pointer_targets.is_empty() && pct(r, o.pct_pointer) {
            let target = r.pick(&pointer_targets).clone();
            let to = wrap_output(r, TypeRef::Named(target), true);
            cx.no_vars = !o.pointer_variables;
            let selections = gen_selection_set(r, &pc, &env, &mut cx, &parent, o.max_depth.max(1), false);
            refetchy = cx.refetchy;
            pointerish = cx.pointerish;
            Decl::ClientPointer(ClientPointer {
                parent: parent.clone(),
                name: name.clone(),
                to,
                vars: cx.vars,
                directives: vec![],
                description: gen_description(r, o),
                selections,
            })
        } else {
            let selections = gen_selection_set(r, &pc, &env, &mut cx, &parent, o.max_depth.max(1), true);
            refetchy = cx.refetchy;
            pointerish = cx.pointerish;
            let directives = if pct(r, o.pct_component) { vec![Directive::component()] } else { vec![] };
            Decl::ClientField(ClientField {
                parent: parent.clone(),
                name: name.clone(),
                vars: cx.vars,
                directives,
                description: gen_description(r, o),
                selections,
            })
        };
        let is_field = matches!(decl, Decl::ClientField(_));
        if refetchy {
            pc.refetchy.push((parent.clone(), name.clone()));
        }
        if pointerish {
            pc.pointerish.push((parent.clone(), name.clone()));
        }
        p.decls.push((file.clone(), decl));
        let fetchable_non_root = !is_root
            && pc.has_node_field
            && p.schema.get(&parent).map_or(false, |t| matches!(t.kind, TypeKind::Object { .. }) && t.has_id());
        if is_field && ((is_root && pct(r, o.pct_entrypoint)) || (fetchable_non_root && pct(r, o.pct_non_root_entrypoint))) {
            let directives = if pct(r, o.pct_lazy_entrypoint) { vec![Directive::lazy_load()] } else { vec![] };
            let efile = if r.chance(2, 3) { file } else { format!("{root}/entry_{name}.ts") };
            p.decls.push((efile, Decl::Entrypoint(Entrypoint { parent, name, directives })));
        }
    }

    if o.allow_cycles {
        close_a_cycle(r, &mut p);
    }
    p
}

/// Makes some client field (transitively) select itself.
fn close_a_cycle(r: &mut Rng, p: &mut Project) {
    let idx: Vec<usize> = p.decls.iter().enumerate().filter(|(_, (_, d))| matches!(d, Decl::ClientField(_))).map(|(i, _)| i).collect();
    if idx.is_empty() {
        return;
    }
    let i = *r.pick(&idx);
    if let Decl::ClientField(f) = &mut p.decls[i].1 {
        if f.vars.iter().all(|v| v.ty.is_nullable() || v.default.is_some()) {
            let name = f.name.clone();
            let mut h = SelHead::new(&name);
            if f.selections.iter().any(|s| s.response_name() == name) {
                h.alias = Some(format!("{name}_again"));
            }
            f.selections.push(Selection::Scalar(h));
        }
    }
}
