//! Single-fault mutants: from a well-typed project produce one that violates EXACTLY ONE rule of
//! the selection-validity list (C16):
//!
//! undefined field · object field without selection set · scalar with selection set · undefined
//! argument · missing required argument · undeclared variable · unused variable · incompatible
//! value type · incompatible variable type · duplicate response name.
//!
//! Sites are chosen so that the mutation has no side effects on other rules (e.g. a selection is
//! only renamed if no variable is used inside it, otherwise the variable would become unused as
//! well).  `mutate_fault` returns `None` when the project has no suitable site for that kind.
use crate::env::{Env, SelKind, SelPath, Selectable};
use crate::gen::accepts_variable;
use crate::model::*;
use hx_common::Rng;

#[derive(Clone, Copy, Debug, PartialEq, Eq, Hash, PartialOrd, Ord)]
pub enum FaultKind {
    UndefinedField,
    ObjectWithoutSelectionSet,
    ScalarWithSelectionSet,
    UndefinedArgument,
    /// on a selection WITHOUT selection set (server scalar field or client field)
    MissingRequiredArgument,
    UndeclaredVariable,
    UnusedVariable,
    IncompatibleValueType,
    IncompatibleVariableType,
    DuplicateResponseName,
    /// required argument removed from a selection WITH a selection set (server object field or
    /// client pointer).  NOT in `FaultKind::ALL`: the current compiler accepts these programs
    /// (`can_have_missing_args = true` for every object selection) — a finding, kept available so
    /// that it can be measured.
    MissingRequiredArgumentLinked,
}

impl FaultKind {
    /// The ten kinds every mutant of which the compiler must reject.
    pub const ALL: &'static [FaultKind] = &[
        FaultKind::UndefinedField,
        FaultKind::ObjectWithoutSelectionSet,
        FaultKind::ScalarWithSelectionSet,
        FaultKind::UndefinedArgument,
        FaultKind::MissingRequiredArgument,
        FaultKind::UndeclaredVariable,
        FaultKind::UnusedVariable,
        FaultKind::IncompatibleValueType,
        FaultKind::IncompatibleVariableType,
        FaultKind::DuplicateResponseName,
    ];
    pub fn name(self) -> &'static str {
        match self {
            FaultKind::UndefinedField => "undefined-field",
            FaultKind::ObjectWithoutSelectionSet => "object-without-selection-set",
            FaultKind::ScalarWithSelectionSet => "scalar-with-selection-set",
            FaultKind::UndefinedArgument => "undefined-argument",
            FaultKind::MissingRequiredArgument => "missing-required-argument",
            FaultKind::UndeclaredVariable => "undeclared-variable",
            FaultKind::UnusedVariable => "unused-variable",
            FaultKind::IncompatibleValueType => "incompatible-value-type",
            FaultKind::IncompatibleVariableType => "incompatible-variable-type",
            FaultKind::DuplicateResponseName => "duplicate-response-name",
            FaultKind::MissingRequiredArgumentLinked => "missing-required-argument-linked",
        }
    }
    /// The diagnostic kind (`diag_kinds`) the compiler is expected to answer with.
    pub fn expected_diag_kind(self) -> &'static str {
        match self {
            FaultKind::UndefinedField => "undefined-field",
            FaultKind::ObjectWithoutSelectionSet => "object-selected-as-scalar",
            FaultKind::ScalarWithSelectionSet => "scalar-selected-as-object",
            FaultKind::UndefinedArgument => "undefined-argument",
            FaultKind::MissingRequiredArgument | FaultKind::MissingRequiredArgumentLinked => "missing-argument",
            FaultKind::UndeclaredVariable => "undeclared-variable",
            FaultKind::UnusedVariable => "unused-variable",
            FaultKind::IncompatibleValueType => "value-type-mismatch",
            FaultKind::IncompatibleVariableType => "variable-type-mismatch",
            FaultKind::DuplicateResponseName => "duplicate-response-name",
        }
    }
}

/// Names introduced by mutants (never produced by the generator).
pub const UNDEFINED_FIELD_NAME: &str = "zz_undefined";
pub const UNDEFINED_ARG_NAME: &str = "zz_extra";
pub const UNDECLARED_VAR_NAME: &str = "zz_undeclared";
pub const UNUSED_VAR_NAME: &str = "zz_unused";
pub const WRONG_VAR_NAME: &str = "zz_wrong";

struct Site {
    path: SelPath,
    ty: String,
    sel: Selection,
    target: Selectable,
}

fn sites(p: &Project) -> Vec<Site> {
    let env = Env::new(p);
    let mut out = vec![];
    env.walk(|path, ty, sel, found| {
        if let Some(t) = found {
            out.push(Site { path: path.clone(), ty: ty.to_string(), sel: sel.clone(), target: t.clone() });
        }
    });
    out
}

fn pick<'a, T>(r: &mut Rng, xs: &'a [T]) -> Option<&'a T> {
    if xs.is_empty() {
        None
    } else {
        Some(r.pick(xs))
    }
}

fn is_loadable(h: &SelHead) -> bool {
    h.has_directive("loadable")
}

fn takes_args(k: SelKind) -> bool {
    matches!(k, SelKind::ServerScalar | SelKind::ServerObject | SelKind::ClientField | SelKind::ClientPointer)
}

/// A literal that no argument of type `t` accepts.
fn wrong_literal(t: &TypeRef) -> Value {
    if !t.is_list() && t.inner() == "Boolean" {
        Value::Int(1)
    } else {
        Value::Bool(true)
    }
}

/// `t` with its innermost name replaced by a different scalar.
fn wrong_var_type(t: &TypeRef) -> TypeRef {
    fn go(t: &TypeRef, n: &str) -> TypeRef {
        match t {
            TypeRef::Named(_) => TypeRef::Named(n.to_string()),
            TypeRef::List(i) => TypeRef::List(Box::new(go(i, n))),
            TypeRef::NonNull(i) => TypeRef::NonNull(Box::new(go(i, n))),
        }
    }
    go(t, if t.inner() == "Int" { "String" } else { "Int" })
}

/// (site index, argument index) of arguments whose value mentions no variable.
fn literal_arg_sites(ss: &[Site]) -> Vec<(usize, usize, TypeRef)> {
    let mut out = vec![];
    for (i, s) in ss.iter().enumerate() {
        if !takes_args(s.target.kind) {
            continue;
        }
        for (j, (name, v)) in s.sel.head().args.iter().enumerate() {
            if v.variables().is_empty() {
                if let Some(def) = s.target.args.iter().find(|a| a.name == *name) {
                    out.push((i, j, def.ty.clone()));
                }
            }
        }
    }
    out
}

/// (site index, argument definition) of declared, optional arguments the selection does not give.
fn absent_optional_arg_sites(ss: &[Site]) -> Vec<(usize, VarDef)> {
    let mut out = vec![];
    for (i, s) in ss.iter().enumerate() {
        if !takes_args(s.target.kind) {
            continue;
        }
        for def in &s.target.args {
            if !s.sel.head().args.iter().any(|(n, _)| *n == def.name) {
                out.push((i, def.clone()));
            }
        }
    }
    out
}

/// Apply one fault of the given kind at a random suitable site.
pub fn mutate_fault(r: &mut Rng, p: &Project, kind: FaultKind) -> Option<Project> {
    let ss = sites(p);
    let mut q = p.clone();
    match kind {
        FaultKind::UndefinedField => {
            let c: Vec<&Site> = ss.iter().filter(|s| s.sel.variables().is_empty()).collect();
            let s = *pick(r, &c)?;
            s.path.get_mut(&mut q)?.head_mut().name = UNDEFINED_FIELD_NAME.to_string();
        }
        FaultKind::ObjectWithoutSelectionSet => {
            let c: Vec<&Site> =
                ss.iter().filter(|s| s.target.kind == SelKind::ServerObject && s.sel.kids().is_some() && s.sel.variables().is_empty()).collect();
            let s = *pick(r, &c)?;
            let slot = s.path.get_mut(&mut q)?;
            *slot = Selection::Scalar(slot.head().clone());
        }
        FaultKind::ScalarWithSelectionSet => {
            let c: Vec<&Site> =
                ss.iter().filter(|s| s.target.kind == SelKind::ServerScalar && s.sel.kids().is_none() && s.sel.variables().is_empty()).collect();
            let s = *pick(r, &c)?;
            let slot = s.path.get_mut(&mut q)?;
            *slot = Selection::Linked(slot.head().clone(), vec![Selection::scalar("__typename")]);
        }
        FaultKind::UndefinedArgument => {
            let c: Vec<&Site> = ss
                .iter()
                .filter(|s| takes_args(s.target.kind) && s.sel.kids().is_some() == s.target.kind.is_linked())
                .collect();
            let s = *pick(r, &c)?;
            s.path.get_mut(&mut q)?.head_mut().args.push((UNDEFINED_ARG_NAME.to_string(), Value::Int(1)));
        }
        FaultKind::MissingRequiredArgument | FaultKind::MissingRequiredArgumentLinked => {
            let want_linked = kind == FaultKind::MissingRequiredArgumentLinked;
            let mut c: Vec<(&Site, usize)> = vec![];
            for s in &ss {
                let ok_kind = if want_linked {
                    matches!(s.target.kind, SelKind::ServerObject | SelKind::ClientPointer)
                } else {
                    matches!(s.target.kind, SelKind::ServerScalar | SelKind::ClientField)
                };
                if !ok_kind || is_loadable(s.sel.head()) || s.sel.kids().is_some() != want_linked {
                    continue;
                }
                for (j, (name, v)) in s.sel.head().args.iter().enumerate() {
                    let required = s.target.required_args().any(|a| a.name == *name);
                    if required && v.variables().is_empty() {
                        c.push((s, j));
                    }
                }
            }
            let (s, j) = *pick(r, &c)?;
            s.path.get_mut(&mut q)?.head_mut().args.remove(j);
        }
        FaultKind::UndeclaredVariable => {
            let lits = literal_arg_sites(&ss);
            if let Some((i, j, _)) = pick(r, &lits) {
                ss[*i].path.get_mut(&mut q)?.head_mut().args[*j].1 = Value::var(UNDECLARED_VAR_NAME);
            } else {
                let abs = absent_optional_arg_sites(&ss);
                let (i, def) = pick(r, &abs)?;
                ss[*i].path.get_mut(&mut q)?.head_mut().args.push((def.name.clone(), Value::var(UNDECLARED_VAR_NAME)));
            }
        }
        FaultKind::UnusedVariable => {
            let c: Vec<usize> = (0..p.decls.len()).filter(|&i| !p.decls[i].1.is_entrypoint()).collect();
            let i = *pick(r, &c)?;
            q.decls[i].1.vars_mut()?.push(VarDef { name: UNUSED_VAR_NAME.to_string(), ty: TypeRef::named("Int"), default: None });
        }
        FaultKind::IncompatibleValueType => {
            let lits = literal_arg_sites(&ss);
            if let Some((i, j, ty)) = pick(r, &lits) {
                ss[*i].path.get_mut(&mut q)?.head_mut().args[*j].1 = wrong_literal(ty);
            } else {
                let abs = absent_optional_arg_sites(&ss);
                let (i, def) = pick(r, &abs)?;
                ss[*i].path.get_mut(&mut q)?.head_mut().args.push((def.name.clone(), wrong_literal(&def.ty)));
            }
        }
        FaultKind::IncompatibleVariableType => {
            // a NEW variable of the wrong type, used exactly once (so nothing becomes unused);
            // nullable, so that selections of the mutated client field do not miss an argument
            let lits: Vec<(usize, usize, TypeRef)> = literal_arg_sites(&ss).into_iter().filter(|(_, _, t)| accepts_variable(t)).collect();
            let (decl, ty) = if let Some((i, j, ty)) = pick(r, &lits) {
                ss[*i].path.get_mut(&mut q)?.head_mut().args[*j].1 = Value::var(WRONG_VAR_NAME);
                (ss[*i].path.decl, ty.clone())
            } else {
                let abs: Vec<(usize, VarDef)> = absent_optional_arg_sites(&ss).into_iter().filter(|(_, d)| accepts_variable(&d.ty)).collect();
                let (i, def) = pick(r, &abs)?;
                ss[*i].path.get_mut(&mut q)?.head_mut().args.push((def.name.clone(), Value::var(WRONG_VAR_NAME)));
                (ss[*i].path.decl, def.ty.clone())
            };
            q.decls[decl].1.vars_mut()?.push(VarDef { name: WRONG_VAR_NAME.to_string(), ty: wrong_var_type(&ty).nullable(), default: None });
        }
        FaultKind::DuplicateResponseName => {
            let s = pick(r, &ss)?;
            let dup = s.sel.clone();
            let last = *s.path.idx.last()?;
            s.path.parent_set_mut(&mut q)?.insert(last + 1, dup);
        }
    }
    let _ = &ss.first().map(|s| &s.ty);
    Some(q)
}

/// One fault of a random kind among those that have a site in `p`.  `None` only for projects
/// without any selection.
pub fn mutate_single_fault(r: &mut Rng, p: &Project) -> Option<(Project, FaultKind)> {
    let mut kinds: Vec<FaultKind> = FaultKind::ALL.to_vec();
    while !kinds.is_empty() {
        let k = kinds.remove(r.below(kinds.len()));
        if let Some(q) = mutate_fault(r, p, k) {
            return Some((q, k));
        }
    }
    None
}
