//! Running the REAL compiler on a `Project`.
//!
//! * `compile_project` / `compile_files` — one fresh `CompilerState` per call, in-process, under
//!   `catch_unwind`; files are materialised in `/tmp/hx_proj_<pid>_<n>/` and removed afterwards.
//! * `Session` / `compile_with_state` — several compiles in ONE `CompilerState` (watch-mode
//!   tests): the session owns the temp dir; callers may edit files in `session.dir()` and call
//!   `session.update_sources(events)` (the watch-mode entry point) before the next `compile`.
//! * `compile_via_cli_subprocess` — the real `isograph_cli` binary in a child process, so that
//!   aborts and stack overflows are observable as exit statuses.
//!
//! The in-process path does what `isograph_cli` does: `create_config(<dir>/isograph.config.json,
//! cwd = <dir>)`, `CompilerState::<GraphQLAndJavascriptProfile>::new`, `batch_compile::compile`.
//! Like the CLI (which formats every diagnostic with `print_location_fn` before printing) each
//! diagnostic is also rendered to text; a panic while rendering is reported as `Panic`.
use crate::diag_kinds::classify_message;
use crate::model::{Project, CONFIG_FILE};
use crate::render::{render, RenderOpts};
use common_lang_types::{CurrentWorkingDirectory, Diagnostic, Location};
use graphql_network_protocol::GraphQLAndJavascriptProfile;
use intern::string_key::{Intern, Lookup};
use isograph_compiler::batch_compile::{compile, CompilationStats};
pub use isograph_compiler::watch::{ChangedFileKind, SourceEventKind, SourceFileEvent};
use isograph_compiler::{update_sources, CompilerState};
use isograph_config::create_config;
use std::collections::BTreeMap;
use std::panic::{catch_unwind, AssertUnwindSafe};
use std::path::{Path, PathBuf};
use std::sync::atomic::{AtomicU64, Ordering};

pub type Files = BTreeMap<PathBuf, Vec<u8>>;
pub type State = CompilerState<GraphQLAndJavascriptProfile>;

#[derive(Clone, Debug, PartialEq, Eq)]
pub struct Stats {
    pub client_field_count: usize,
    pub client_pointer_count: usize,
    pub entrypoint_count: usize,
    pub total_artifacts_written: usize,
}

impl From<CompilationStats> for Stats {
    fn from(s: CompilationStats) -> Self {
        Stats {
            client_field_count: s.client_field_count,
            client_pointer_count: s.client_pointer_count,
            entrypoint_count: s.entrypoint_count,
            total_artifacts_written: s.total_artifacts_written,
        }
    }
}

/// Where a diagnostic points.
#[derive(Clone, Debug, PartialEq, Eq, PartialOrd, Ord)]
pub enum DiagLoc {
    /// `Location::Generated`
    Generated,
    /// `file` is relative to the project directory; `literal` is the byte span of the iso
    /// literal inside the file (absent for schema files); `span` is relative to `literal`.
    Embedded { file: String, literal: Option<(u32, u32)>, span: (u32, u32) },
}

#[derive(Clone, Debug, PartialEq, Eq)]
pub struct Diag {
    /// short stable class, see `diag_kinds::KIND_TABLE`
    pub kind: String,
    pub message: String,
    /// `None` when the compiler attached no location at all
    pub location: Option<DiagLoc>,
    /// the text the CLI would print for this diagnostic (colours off); `None` for
    /// initialisation errors, which have no location machinery
    pub rendered: Option<String>,
}

#[derive(Clone, Debug, PartialEq, Eq)]
pub enum CompileResult {
    Ok(Stats),
    /// never empty
    Diagnostics(Vec<Diag>),
    /// panic payload (message) prefixed by the phase: `config:`, `init:`, `compile:`, `print:`
    Panic(String),
}

impl CompileResult {
    pub fn is_ok(&self) -> bool {
        matches!(self, CompileResult::Ok(_))
    }
    /// `ok`, `panic`, or the sorted, de-duplicated diagnostic kinds joined by `+`.
    pub fn summary(&self) -> String {
        match self {
            CompileResult::Ok(_) => "ok".to_string(),
            CompileResult::Panic(_) => "panic".to_string(),
            CompileResult::Diagnostics(ds) => {
                let mut k: Vec<&str> = ds.iter().map(|d| d.kind.as_str()).collect();
                k.sort();
                k.dedup();
                k.join("+")
            }
        }
    }
    pub fn kinds(&self) -> Vec<String> {
        match self {
            CompileResult::Diagnostics(ds) => ds.iter().map(|d| d.kind.clone()).collect(),
            _ => vec![],
        }
    }
}

#[derive(Clone, Debug, PartialEq, Eq)]
pub struct Outcome {
    pub result: CompileResult,
    /// every file under the artifact directory after the compile, keyed by path relative to the
    /// artifact directory (`Query/Foo/entrypoint.ts`, `iso.ts`, …); empty when the directory
    /// does not exist.
    pub artifacts: BTreeMap<String, Vec<u8>>,
}

// ---------------------------------------------------------------------------------------------
// temp directories
// ---------------------------------------------------------------------------------------------

static COUNTER: AtomicU64 = AtomicU64::new(0);

/// A directory `/tmp/hx_proj_<pid>_<n>` removed on drop.
pub struct TempDir {
    path: PathBuf,
}

impl TempDir {
    pub fn new() -> TempDir {
        let n = COUNTER.fetch_add(1, Ordering::SeqCst);
        let base = std::env::var_os("HX_TMP").map(PathBuf::from).unwrap_or_else(|| PathBuf::from("/tmp"));
        let path = base.join(format!("hx_proj_{}_{}", std::process::id(), n));
        let _ = std::fs::remove_dir_all(&path);
        std::fs::create_dir_all(&path).expect("create temp dir");
        // canonical, so that paths the compiler canonicalises stay inside it
        let path = path.canonicalize().expect("canonicalize temp dir");
        TempDir { path }
    }
    pub fn path(&self) -> &Path {
        &self.path
    }
}

impl Default for TempDir {
    fn default() -> Self {
        Self::new()
    }
}

impl Drop for TempDir {
    fn drop(&mut self) {
        let _ = std::fs::remove_dir_all(&self.path);
    }
}

/// Write `files` (relative paths) under `dir`.
pub fn materialise(dir: &Path, files: &Files) {
    for (rel, bytes) in files {
        let p = dir.join(rel);
        if let Some(parent) = p.parent() {
            std::fs::create_dir_all(parent).expect("mkdir");
        }
        std::fs::write(&p, bytes).expect("write file");
    }
}

/// Every regular file under `dir`, keyed by `/`-separated path relative to `dir`.
pub fn read_tree(dir: &Path) -> BTreeMap<String, Vec<u8>> {
    fn go(base: &Path, dir: &Path, out: &mut BTreeMap<String, Vec<u8>>) {
        let Ok(rd) = std::fs::read_dir(dir) else { return };
        for e in rd.flatten() {
            let p = e.path();
            if p.is_dir() {
                go(base, &p, out);
            } else if let Ok(bytes) = std::fs::read(&p) {
                let rel = p.strip_prefix(base).unwrap().to_string_lossy().replace('\\', "/");
                out.insert(rel, bytes);
            }
        }
    }
    let mut out = BTreeMap::new();
    go(dir, dir, &mut out);
    out
}

// ---------------------------------------------------------------------------------------------
// diagnostics
// ---------------------------------------------------------------------------------------------

fn convert_location(l: Option<Location>) -> Option<DiagLoc> {
    match l {
        None => None,
        Some(Location::Generated) => Some(DiagLoc::Generated),
        Some(Location::Embedded(e)) => Some(DiagLoc::Embedded {
            file: e.text_source.relative_path_to_source_file.lookup().to_string(),
            literal: e.text_source.span.map(|s| (s.start, s.end)),
            span: (e.span.start, e.span.end),
        }),
    }
}

fn panic_message(p: Box<dyn std::any::Any + Send>) -> String {
    if let Some(s) = p.downcast_ref::<&str>() {
        s.to_string()
    } else if let Some(s) = p.downcast_ref::<String>() {
        s.clone()
    } else {
        "<non-string panic payload>".to_string()
    }
}

fn convert_diagnostics(state: &State, ds: &[Diagnostic]) -> CompileResult {
    let mut out = vec![];
    for d in ds {
        let rendered = catch_unwind(AssertUnwindSafe(|| d.printable(state.db.print_location_fn(false)).to_string()));
        let rendered = match rendered {
            Ok(s) => s,
            Err(p) => return CompileResult::Panic(format!("print: {}", panic_message(p))),
        };
        out.push(Diag {
            kind: classify_message(&d.0.message).to_string(),
            message: d.0.message.clone(),
            location: convert_location(d.0.location),
            rendered: Some(rendered),
        });
    }
    CompileResult::Diagnostics(out)
}

fn init_diag(message: String) -> CompileResult {
    CompileResult::Diagnostics(vec![Diag {
        kind: classify_message(&message).to_string(),
        message,
        location: None,
        rendered: None,
    }])
}

fn prepare_process() {
    use std::sync::Once;
    static ONCE: Once = Once::new();
    ONCE.call_once(|| {
        colored::control::set_override(false);
    });
}

fn cwd_key(dir: &Path) -> CurrentWorkingDirectory {
    dir.to_str().expect("utf-8 temp dir").intern().into()
}

// ---------------------------------------------------------------------------------------------
// sessions
// ---------------------------------------------------------------------------------------------

/// One project directory + (after the first `compile`) one live `CompilerState`.
pub struct Session {
    tmp: TempDir,
    state: Option<State>,
    artifact_dir: Option<PathBuf>,
}

impl Session {
    /// Creates the temp dir and writes `files` into it.  No compiler state yet.
    pub fn new(files: &Files) -> Session {
        prepare_process();
        let tmp = TempDir::new();
        materialise(tmp.path(), files);
        Session { tmp, state: None, artifact_dir: None }
    }
    pub fn from_project(p: &Project) -> Session {
        Session::new(&render(p, &RenderOpts::default()))
    }
    /// The project directory (holds `isograph.config.json`).  Callers may create, edit, rename
    /// and delete files here between compiles.
    pub fn dir(&self) -> &Path {
        self.tmp.path()
    }
    /// Absolute artifact directory (known after the state has been created).
    pub fn artifact_dir(&self) -> Option<&Path> {
        self.artifact_dir.as_deref()
    }
    pub fn state(&self) -> Option<&State> {
        self.state.as_ref()
    }
    pub fn state_mut(&mut self) -> Option<&mut State> {
        self.state.as_mut()
    }
    /// Overwrite / create files (relative paths) in the project directory.
    pub fn write_files(&self, files: &Files) {
        materialise(self.dir(), files);
    }
    /// Replace the project directory's contents by `files` (artifact directory left alone).
    pub fn replace_sources(&self, files: &Files) {
        let keep = self.artifact_dir.clone();
        let existing = read_tree(self.dir());
        for rel in existing.keys() {
            let abs = self.dir().join(rel);
            if keep.as_ref().map_or(false, |k| abs.starts_with(k)) {
                continue;
            }
            if !files.contains_key(&PathBuf::from(rel)) {
                let _ = std::fs::remove_file(abs);
            }
        }
        materialise(self.dir(), files);
    }
    /// Drop the compiler state (next `compile` starts from scratch, like a new process).
    pub fn reset_state(&mut self) {
        self.state = None;
    }

    /// Creates the `CompilerState` the way the CLI does.  `Err` = outcome of a failed start.
    fn ensure_state(&mut self) -> Result<(), CompileResult> {
        if self.state.is_some() {
            return Ok(());
        }
        let dir = self.dir().to_path_buf();
        let cwd = cwd_key(&dir);
        let config_location = dir.join(CONFIG_FILE);
        let config = catch_unwind(AssertUnwindSafe(|| create_config(&config_location, cwd)))
            .map_err(|p| CompileResult::Panic(format!("config: {}", panic_message(p))))?;
        self.artifact_dir = Some(config.artifact_directory.absolute_path.clone());
        let state = catch_unwind(AssertUnwindSafe(|| State::new(config, cwd)))
            .map_err(|p| CompileResult::Panic(format!("init: {}", panic_message(p))))?;
        match state {
            Ok(s) => {
                self.state = Some(s);
                Ok(())
            }
            Err(e) => Err(init_diag(e.0)),
        }
    }

    /// `batch_compile::compile` on the session's state (created on first use).
    pub fn compile(&mut self) -> Outcome {
        let result = match self.ensure_state() {
            Err(r) => r,
            Ok(()) => {
                let state = self.state.as_mut().unwrap();
                let r = catch_unwind(AssertUnwindSafe(|| compile::<GraphQLAndJavascriptProfile>(state)));
                match r {
                    Ok(Ok(stats)) => CompileResult::Ok(stats.into()),
                    Ok(Err(ds)) if ds.is_empty() => CompileResult::Panic("compile: Err(vec![]) returned".to_string()),
                    Ok(Err(ds)) => convert_diagnostics(self.state.as_ref().unwrap(), &ds),
                    Err(p) => {
                        // the state may be poisoned; callers get a fresh one next time
                        self.state = None;
                        CompileResult::Panic(format!("compile: {}", panic_message(p)))
                    }
                }
            }
        };
        Outcome { result, artifacts: self.read_artifacts() }
    }

    /// The watch-mode `update_sources` on the live state.  `Err(messages)` is the fatal error
    /// that makes the real watch loop exit; a panic is reported as `Err(["panic: …"])`.
    pub fn update_sources(&mut self, events: &[SourceFileEvent]) -> Result<(), Vec<String>> {
        let Some(state) = self.state.as_mut() else { return Err(vec!["no state".to_string()]) };
        match catch_unwind(AssertUnwindSafe(|| update_sources(&mut state.db, events))) {
            Ok(Ok(())) => Ok(()),
            Ok(Err(es)) => Err(es.into_iter().map(|e| e.0).collect()),
            Err(p) => Err(vec![format!("panic: {}", panic_message(p))]),
        }
    }

    pub fn read_artifacts(&self) -> BTreeMap<String, Vec<u8>> {
        match &self.artifact_dir {
            Some(d) if d.is_dir() => read_tree(d),
            _ => BTreeMap::new(),
        }
    }
}

// ---------------------------------------------------------------------------------------------
// one-shot helpers
// ---------------------------------------------------------------------------------------------

/// Fresh directory, fresh state, one compile, directory removed.
pub fn compile_files(files: &Files) -> Outcome {
    let mut s = Session::new(files);
    s.compile()
}

/// `compile_files(render(p, default))`.
pub fn compile_project(p: &Project) -> Outcome {
    compile_files(&render(p, &RenderOpts::default()))
}

pub fn compile_project_with(p: &Project, o: &RenderOpts) -> Outcome {
    compile_files(&render(p, o))
}

/// Re-materialises `p` into the session's directory (sources replaced, artifact directory left
/// as the previous compile left it) and compiles with the session's state; if the session has a
/// live state the changed files are NOT pushed through `update_sources` — use
/// `Session::update_sources` for watch semantics, or `reset_state` for batch semantics.  On a
/// session without state this equals a batch compile.
pub fn compile_with_state(session: &mut Session, p: &Project) -> Outcome {
    session.replace_sources(&render(p, &RenderOpts::default()));
    session.compile()
}

// ---------------------------------------------------------------------------------------------
// demos
// ---------------------------------------------------------------------------------------------

pub const DEMOS: &[&str] = &["pet-demo", "github-demo", "vite-demo"];

/// The files of `/repo/demos/<name>` that the compiler reads: config, schema, extensions and
/// every file under the project root (generated `__isograph` directories and `node_modules`
/// left out).  Paths are relative to the demo directory.
pub fn load_demo(name: &str) -> Option<Files> {
    let dir = PathBuf::from("/repo/demos").join(name);
    let cfg_bytes = std::fs::read(dir.join(CONFIG_FILE)).ok()?;
    let cfg: serde_json::Value = serde_json::from_slice(&cfg_bytes).ok()?;
    let mut files = Files::new();
    // `$schema` points outside the demo; harmless (the field is only a string)
    files.insert(PathBuf::from(CONFIG_FILE), cfg_bytes);
    let mut add_file = |rel: &str| {
        let rel = rel.trim_start_matches("./");
        if let Ok(b) = std::fs::read(dir.join(rel)) {
            files.insert(PathBuf::from(rel), b);
        }
    };
    add_file(cfg.get("schema")?.as_str()?);
    if let Some(exts) = cfg.get("schema_extensions").and_then(|x| x.as_array()) {
        for e in exts {
            add_file(e.as_str()?);
        }
    }
    let root = cfg.get("project_root")?.as_str()?.trim_start_matches("./").to_string();
    fn walk(base: &Path, dir: &Path, out: &mut Files) {
        let Ok(rd) = std::fs::read_dir(dir) else { return };
        for e in rd.flatten() {
            let p = e.path();
            let name = e.file_name().to_string_lossy().to_string();
            if name == "__isograph" || name == "node_modules" {
                continue;
            }
            if p.is_dir() {
                walk(base, &p, out);
            } else if let Ok(b) = std::fs::read(&p) {
                out.insert(p.strip_prefix(base).unwrap().to_path_buf(), b);
            }
        }
    }
    walk(&dir, &dir.join(&root), &mut files);
    Some(files)
}

/// The checked-in artifacts of a demo (for comparison with a fresh compile), keyed like
/// `Outcome::artifacts`.
pub fn load_demo_checked_in_artifacts(name: &str) -> Option<BTreeMap<String, Vec<u8>>> {
    let dir = PathBuf::from("/repo/demos").join(name);
    let cfg: serde_json::Value = serde_json::from_slice(&std::fs::read(dir.join(CONFIG_FILE)).ok()?).ok()?;
    let root = cfg.get("artifact_directory").or_else(|| cfg.get("project_root"))?.as_str()?;
    let d = dir.join(root.trim_start_matches("./")).join("__isograph");
    if d.is_dir() {
        Some(read_tree(&d))
    } else {
        None
    }
}

// ---------------------------------------------------------------------------------------------
// CLI subprocess
// ---------------------------------------------------------------------------------------------

#[derive(Clone, Debug)]
pub struct CliOutcome {
    /// `Some(code)` for a normal exit (0 = success, 1 = diagnostics), `None` if killed by a signal
    pub exit_code: Option<i32>,
    /// signal number when killed (6 = SIGABRT: `panic = abort`/stack overflow, 11 = SIGSEGV)
    pub signal: Option<i32>,
    pub stdout: String,
    pub stderr: String,
    pub artifacts: BTreeMap<String, Vec<u8>>,
}

impl CliOutcome {
    /// `ok`, `diagnostics`, `panic` (exit 101), `signal:<n>`, `exit:<n>`
    pub fn class(&self) -> String {
        match (self.exit_code, self.signal) {
            (Some(0), _) => "ok".into(),
            (Some(1), _) => "diagnostics".into(),
            (Some(101), _) => "panic".into(),
            (Some(n), _) => format!("exit:{n}"),
            (None, Some(s)) => format!("signal:{s}"),
            (None, None) => "unknown".into(),
        }
    }
}

pub const CLI_TARGET_DIR: &str = "/verif/harness/target/isograph_cli";

/// Path of the real `isograph_cli` binary, building it (offline, from /repo's working tree,
/// into `/verif/harness/target/isograph_cli`) when `rebuild` is set or it does not exist.
/// `HX_ISOGRAPH_CLI=<path>` overrides everything.
pub fn cli_binary(rebuild: bool) -> Result<PathBuf, String> {
    if let Some(p) = std::env::var_os("HX_ISOGRAPH_CLI") {
        return Ok(PathBuf::from(p));
    }
    let bin = PathBuf::from(CLI_TARGET_DIR).join("debug/isograph_cli");
    if rebuild || !bin.is_file() {
        let out = std::process::Command::new("cargo")
            .args(["build", "-p", "isograph_cli", "--offline", "--target-dir", CLI_TARGET_DIR])
            .current_dir("/repo")
            .env("CARGO_NET_OFFLINE", "true")
            .output()
            .map_err(|e| format!("cannot run cargo: {e}"))?;
        if !out.status.success() {
            return Err(format!("cargo build -p isograph_cli failed:\n{}", String::from_utf8_lossy(&out.stderr)));
        }
    }
    if bin.is_file() {
        Ok(bin)
    } else {
        Err(format!("{} missing after build", bin.display()))
    }
}

/// Runs `isograph_cli --config ./isograph.config.json` with the temp dir as working directory.
pub fn compile_files_via_cli(files: &Files) -> Result<CliOutcome, String> {
    use std::sync::OnceLock;
    static BIN: OnceLock<Result<PathBuf, String>> = OnceLock::new();
    let bin = BIN.get_or_init(|| cli_binary(std::env::var_os("HX_CLI_REBUILD").is_some())).clone()?;
    let tmp = TempDir::new();
    materialise(tmp.path(), files);
    let out = std::process::Command::new(&bin)
        .args(["--config", "./isograph.config.json"])
        .current_dir(tmp.path())
        .env("NO_COLOR", "1")
        .env_remove("RUST_LOG")
        .output()
        .map_err(|e| format!("cannot run {}: {e}", bin.display()))?;
    #[cfg(unix)]
    let signal = {
        use std::os::unix::process::ExitStatusExt;
        out.status.signal()
    };
    #[cfg(not(unix))]
    let signal = None;
    // the artifact directory: ask the config
    let cfg: Option<serde_json::Value> =
        files.get(&PathBuf::from(CONFIG_FILE)).and_then(|b| serde_json::from_slice(b).ok());
    let art_root = cfg
        .as_ref()
        .and_then(|c| c.get("artifact_directory").or_else(|| c.get("project_root")))
        .and_then(|v| v.as_str())
        .unwrap_or("src")
        .trim_start_matches("./")
        .to_string();
    let art_dir = tmp.path().join(art_root).join("__isograph");
    Ok(CliOutcome {
        exit_code: out.status.code(),
        signal,
        stdout: String::from_utf8_lossy(&out.stdout).to_string(),
        stderr: String::from_utf8_lossy(&out.stderr).to_string(),
        artifacts: if art_dir.is_dir() { read_tree(&art_dir) } else { BTreeMap::new() },
    })
}

pub fn compile_via_cli_subprocess(p: &Project) -> Result<CliOutcome, String> {
    compile_files_via_cli(&render(p, &RenderOpts::default()))
}
