//! What can be selected where: the typing environment of a `Project`, as the compiler sees it
//! (server fields, `__typename`, `__link`, `__refetch`, `asConcreteType`, client fields and
//! pointers, `@exposeField` fields).  Used by the generator, the mutators, and available to
//! harnesses that need to know what a selection refers to.
use crate::model::*;

#[derive(Clone, Copy, Debug, PartialEq, Eq, Hash)]
pub enum SelKind {
    /// server field whose inner type is a scalar or enum
    ServerScalar,
    /// server field whose inner type is an object, interface or union
    ServerObject,
    /// `field T.name` declared in the project (selected without selection set)
    ClientField,
    /// `pointer T.name to U` declared in the project (selected WITH a selection set)
    ClientPointer,
    /// client field created by `@exposeField` (selected without selection set, no arguments)
    Exposed,
    /// `__link` — on every object, interface, union (and input object)
    Link,
    /// `__typename` — on every object, interface with ≥ 0 implementors, union
    Typename,
    /// `__refetch` — on OBJECT types that declare an `id` field
    Refetch,
    /// `as<Concrete>` on an interface/union, one per concrete subtype; selected with a selection set
    AsConcrete,
}

impl SelKind {
    /// must be selected with a selection set
    pub fn is_linked(self) -> bool {
        matches!(self, SelKind::ServerObject | SelKind::ClientPointer | SelKind::AsConcrete)
    }
    pub fn is_server_field(self) -> bool {
        matches!(self, SelKind::ServerScalar | SelKind::ServerObject)
    }
}

#[derive(Clone, Debug, PartialEq, Eq)]
pub struct Selectable {
    pub name: String,
    pub kind: SelKind,
    /// accepted arguments: schema arguments of a server field, variable definitions of a client
    /// field / pointer; empty for everything else
    pub args: Vec<VarDef>,
    /// composite type a linked selection continues in
    pub target: Option<String>,
    /// full type of a server field / pointer target
    pub ty: Option<TypeRef>,
}

impl Selectable {
    /// arguments that a (non-`@loadable`) scalar selection must supply
    pub fn required_args(&self) -> impl Iterator<Item = &VarDef> {
        self.args.iter().filter(|a| a.ty.is_non_null() && a.default.is_none())
    }
}

pub struct Env<'a> {
    pub project: &'a Project,
}

impl<'a> Env<'a> {
    pub fn new(project: &'a Project) -> Env<'a> {
        Env { project }
    }
    pub fn schema(&self) -> &'a Schema {
        &self.project.schema
    }

    /// The composite type an `@exposeField` client field is attached to: follow `path[1..]`
    /// from the payload type of `on_type.path[0]`.
    pub fn expose_landing_type(&self, on_type: &str, x: &ExposeField) -> Option<String> {
        let s = self.schema();
        let root = s.get(on_type)?.field(x.path.first()?)?;
        let mut cur = root.ty.inner().to_string();
        for step in &x.path[1..] {
            let t = s.get(&cur)?;
            if let Some(f) = t.field(step) {
                cur = f.ty.inner().to_string();
            } else if let Some(c) = step.strip_prefix("as") {
                if t.is_abstract() && s.concrete_subtypes(&cur).iter().any(|x| x == c) {
                    cur = c.to_string();
                } else {
                    return None;
                }
            } else {
                return None;
            }
        }
        if s.is_composite(&cur) {
            Some(cur)
        } else {
            None
        }
    }

    /// Everything selectable on `ty`, server-defined first, in a deterministic order.
    pub fn selectables(&self, ty: &str) -> Vec<Selectable> {
        let s = self.schema();
        let mut out = vec![];
        let Some(t) = s.get(ty) else { return out };
        if !t.is_composite() {
            return out;
        }
        for f in t.fields() {
            let inner = f.ty.inner();
            let args: Vec<VarDef> =
                f.args.iter().map(|a| VarDef { name: a.name.clone(), ty: a.ty.clone(), default: a.default.clone() }).collect();
            if s.is_composite(inner) {
                out.push(Selectable {
                    name: f.name.clone(),
                    kind: SelKind::ServerObject,
                    args,
                    target: Some(inner.to_string()),
                    ty: Some(f.ty.clone()),
                });
            } else {
                out.push(Selectable { name: f.name.clone(), kind: SelKind::ServerScalar, args, target: None, ty: Some(f.ty.clone()) });
            }
        }
        out.push(Selectable { name: "__typename".into(), kind: SelKind::Typename, args: vec![], target: None, ty: None });
        out.push(Selectable { name: "__link".into(), kind: SelKind::Link, args: vec![], target: None, ty: None });
        if matches!(t.kind, TypeKind::Object { .. }) && t.has_id() {
            out.push(Selectable { name: "__refetch".into(), kind: SelKind::Refetch, args: vec![], target: None, ty: None });
        }
        if t.is_abstract() {
            for c in s.concrete_subtypes(ty) {
                out.push(Selectable {
                    name: format!("as{c}"),
                    kind: SelKind::AsConcrete,
                    args: vec![],
                    target: Some(c.clone()),
                    ty: Some(TypeRef::Named(c)),
                });
            }
        }
        for (on_type, x) in self.project.expose_items() {
            if self.expose_landing_type(on_type, x).as_deref() == Some(ty) {
                out.push(Selectable { name: x.exposed_name().to_string(), kind: SelKind::Exposed, args: vec![], target: None, ty: None });
            }
        }
        for (_, d) in &self.project.decls {
            match d {
                Decl::ClientField(f) if f.parent == ty => out.push(Selectable {
                    name: f.name.clone(),
                    kind: SelKind::ClientField,
                    args: f.vars.clone(),
                    target: None,
                    ty: None,
                }),
                Decl::ClientPointer(f) if f.parent == ty => out.push(Selectable {
                    name: f.name.clone(),
                    kind: SelKind::ClientPointer,
                    args: f.vars.clone(),
                    target: Some(f.to.inner().to_string()),
                    ty: Some(f.to.clone()),
                }),
                _ => {}
            }
        }
        out
    }

    pub fn lookup(&self, ty: &str, name: &str) -> Option<Selectable> {
        self.selectables(ty).into_iter().find(|s| s.name == name)
    }

    /// Visit every selection of every declaration with the composite type it is selected on and
    /// what it resolves to (`None` = undefined there).  `path` identifies the selection:
    /// `(decl index, indices into nested selection sets)`.
    pub fn walk(&self, mut f: impl FnMut(&SelPath, &str, &Selection, Option<&Selectable>)) {
        for (di, (_, d)) in self.project.decls.iter().enumerate() {
            let Some(sels) = d.selections() else { continue };
            let mut path = SelPath { decl: di, idx: vec![] };
            self.walk_set(d.parent(), sels, &mut path, &mut f);
        }
    }

    fn walk_set(
        &self,
        ty: &str,
        sels: &[Selection],
        path: &mut SelPath,
        f: &mut impl FnMut(&SelPath, &str, &Selection, Option<&Selectable>),
    ) {
        let avail = self.selectables(ty);
        for (i, s) in sels.iter().enumerate() {
            path.idx.push(i);
            let found = avail.iter().find(|x| x.name == s.head().name);
            f(path, ty, s, found);
            if let (Some(kids), Some(sel)) = (s.kids(), found) {
                if let Some(t) = &sel.target {
                    self.walk_set(t, kids, path, f);
                }
            }
            path.idx.pop();
        }
    }
}

/// Address of a selection inside a project.
#[derive(Clone, Debug, PartialEq, Eq, Hash)]
pub struct SelPath {
    pub decl: usize,
    /// index into the declaration's selection set, then into that selection's kids, …  (non-empty
    /// for a selection; empty addresses the declaration's top-level selection SET)
    pub idx: Vec<usize>,
}

impl SelPath {
    /// The selection set that contains the addressed selection (or, for an empty `idx`, the
    /// top-level set itself).
    pub fn parent_set_mut<'p>(&self, p: &'p mut Project) -> Option<&'p mut Vec<Selection>> {
        let mut set = p.decls.get_mut(self.decl)?.1.selections_mut()?;
        if self.idx.is_empty() {
            return Some(set);
        }
        for &i in &self.idx[..self.idx.len() - 1] {
            set = set.get_mut(i)?.kids_mut()?;
        }
        Some(set)
    }
    pub fn get_mut<'p>(&self, p: &'p mut Project) -> Option<&'p mut Selection> {
        let last = *self.idx.last()?;
        self.parent_set_mut(p)?.get_mut(last)
    }
    pub fn get<'p>(&self, p: &'p Project) -> Option<&'p Selection> {
        let mut set = p.decls.get(self.decl)?.1.selections()?;
        let (last, init) = self.idx.split_last()?;
        for &i in init {
            set = set.get(i)?.kids()?;
        }
        set.get(*last)
    }
}

/// Does a variable declared with type `supplied` satisfy an argument of type `target` according
/// to GraphQL-style rules as the compiler INTENDS them (`variable_type_satisfies_argument_type`):
/// equal, or differing only in the OUTER nullability with the variable being the stricter one.
pub fn variable_type_satisfies_intended(supplied: &TypeRef, target: &TypeRef) -> bool {
    supplied == target || (target.is_nullable() && supplied.nullable() == *target)
}

/// What the compiler actually ACCEPTS today: as above, but a target type that contains a
/// nullable list anywhere is never satisfied by any variable (list annotations are compared
/// together with their source locations).
pub fn variable_type_satisfies(supplied: &TypeRef, target: &TypeRef) -> bool {
    crate::gen::accepts_variable(target) && variable_type_satisfies_intended(supplied, target)
}
