//! Structured description of an isograph project: GraphQL schema, schema extensions
//! (`@exposeField`), iso declarations, config options, extra files.
//!
//! This is plain data (no interning, no locations).  `lean/IsoVerif/Model/Core/Syntax.lean`
//! mirrors every type in this file constructor for constructor; `wire.rs` is the
//! serialisation that both sides agree on.  Changing a type here means changing all three.
//!
//! Conventions
//! * Every name is a `String` holding exactly the characters that are rendered.
//! * `Value::Str` holds the RAW source text between the two `"` of the iso literal (the iso
//!   parser performs no unescaping, see `parse_non_constant_value`), so `a\"b` is the
//!   five characters `a`, `\`, `"`, `b` … the renderer writes them verbatim.
//! * `Value::Float` holds the lexeme (`"-1.5e3"`); no `f64` ever appears, so Rust and Lean
//!   cannot disagree about formatting.
//! * File paths are relative to the project directory (the directory that holds
//!   `isograph.config.json`), use `/`, and never start with `/` or contain `..`.
use serde::{Deserialize, Serialize};

// ---------------------------------------------------------------------------------------------
// Types and values
// ---------------------------------------------------------------------------------------------

/// A GraphQL type reference: `T`, `[T]`, `T!`.  `NonNull(NonNull(_))` is never generated and is
/// rejected by `wellformed`.
#[derive(Clone, Debug, PartialEq, Eq, Hash, PartialOrd, Ord, Serialize, Deserialize)]
pub enum TypeRef {
    Named(String),
    List(Box<TypeRef>),
    NonNull(Box<TypeRef>),
}

impl TypeRef {
    pub fn named(n: &str) -> TypeRef {
        TypeRef::Named(n.to_string())
    }
    pub fn non_null(self) -> TypeRef {
        match self {
            TypeRef::NonNull(_) => self,
            t => TypeRef::NonNull(Box::new(t)),
        }
    }
    pub fn list(self) -> TypeRef {
        TypeRef::List(Box::new(self))
    }
    /// The innermost named type.
    pub fn inner(&self) -> &str {
        match self {
            TypeRef::Named(n) => n,
            TypeRef::List(t) | TypeRef::NonNull(t) => t.inner(),
        }
    }
    pub fn is_non_null(&self) -> bool {
        matches!(self, TypeRef::NonNull(_))
    }
    pub fn is_nullable(&self) -> bool {
        !self.is_non_null()
    }
    /// The type with one outer `!` removed (identity on nullable types).
    pub fn nullable(&self) -> TypeRef {
        match self {
            TypeRef::NonNull(t) => (**t).clone(),
            t => t.clone(),
        }
    }
    /// `true` if there is a list wrapper anywhere.
    pub fn is_list(&self) -> bool {
        match self {
            TypeRef::Named(_) => false,
            TypeRef::List(_) => true,
            TypeRef::NonNull(t) => t.is_list(),
        }
    }
    /// GraphQL spelling, no spaces: `[Pet!]!`.
    pub fn render(&self) -> String {
        match self {
            TypeRef::Named(n) => n.clone(),
            TypeRef::List(t) => format!("[{}]", t.render()),
            TypeRef::NonNull(t) => format!("{}!", t.render()),
        }
    }
}

/// Argument / default values of the iso language and of schema defaults.
///
/// What the *real* iso parser accepts today: `Int`, `Bool`, `Null`, `Str`, `Var`, `Object`.
/// `Float`, `Enum` and `List` are part of the model (the compiler's `NonConstantValue` has
/// them) but have no concrete iso syntax that parses: the generator emits them only when
/// `GenOpts::unparseable_values` is set.  They are rendered in GraphQL syntax.
#[derive(Clone, Debug, PartialEq, Eq, Hash, PartialOrd, Ord, Serialize, Deserialize)]
pub enum Value {
    Int(i64),
    /// lexeme, e.g. `1.5`, `-0.25e3`
    Float(String),
    Bool(bool),
    Null,
    Enum(String),
    /// raw text between the quotes
    Str(String),
    /// variable name without `$`
    Var(String),
    Object(Vec<(String, Value)>),
    List(Vec<Value>),
}

impl Value {
    pub fn var(n: &str) -> Value {
        Value::Var(n.to_string())
    }
    pub fn str(s: &str) -> Value {
        Value::Str(s.to_string())
    }
    /// Every variable mentioned, in order of appearance, with duplicates.
    pub fn variables(&self) -> Vec<String> {
        let mut out = vec![];
        self.collect_variables(&mut out);
        out
    }
    fn collect_variables(&self, out: &mut Vec<String>) {
        match self {
            Value::Var(v) => out.push(v.clone()),
            Value::Object(fs) => fs.iter().for_each(|(_, v)| v.collect_variables(out)),
            Value::List(vs) => vs.iter().for_each(|v| v.collect_variables(out)),
            _ => {}
        }
    }
    /// `true` if the real iso parser has concrete syntax for this value (recursively).
    pub fn is_parseable(&self) -> bool {
        match self {
            Value::Float(_) | Value::Enum(_) | Value::List(_) => false,
            Value::Object(fs) => fs.iter().all(|(_, v)| v.is_parseable()),
            _ => true,
        }
    }
}

// ---------------------------------------------------------------------------------------------
// Schema
// ---------------------------------------------------------------------------------------------

/// Argument of a field, or field of an input object.
#[derive(Clone, Debug, PartialEq, Eq, Hash, Serialize, Deserialize)]
pub struct ArgDef {
    pub name: String,
    pub description: Option<String>,
    pub ty: TypeRef,
    /// constant (no `Var` inside)
    pub default: Option<Value>,
}

#[derive(Clone, Debug, PartialEq, Eq, Hash, Serialize, Deserialize)]
pub struct FieldDef {
    pub name: String,
    pub description: Option<String>,
    pub args: Vec<ArgDef>,
    pub ty: TypeRef,
}

#[derive(Clone, Debug, PartialEq, Eq, Hash, Serialize, Deserialize)]
pub enum TypeKind {
    /// `type T implements A & B { … }` — concrete
    Object { implements: Vec<String>, fields: Vec<FieldDef> },
    /// `interface I implements A { … }` — abstract
    Interface { implements: Vec<String>, fields: Vec<FieldDef> },
    /// `union U = A | B` — abstract
    Union { members: Vec<String> },
    Scalar,
    Enum { values: Vec<String> },
    Input { fields: Vec<ArgDef> },
}

#[derive(Clone, Debug, PartialEq, Eq, Hash, Serialize, Deserialize)]
pub struct TypeDef {
    pub name: String,
    pub description: Option<String>,
    pub kind: TypeKind,
}

impl TypeDef {
    /// Objects, interfaces and unions can carry selection sets.
    pub fn is_composite(&self) -> bool {
        matches!(self.kind, TypeKind::Object { .. } | TypeKind::Interface { .. } | TypeKind::Union { .. })
    }
    /// The compiler's `is_concrete` flag: objects (and input objects) are concrete, interfaces
    /// and unions are not.  Meaningless for scalars/enums (returns false).
    pub fn is_concrete(&self) -> bool {
        matches!(self.kind, TypeKind::Object { .. } | TypeKind::Input { .. })
    }
    pub fn is_abstract(&self) -> bool {
        matches!(self.kind, TypeKind::Interface { .. } | TypeKind::Union { .. })
    }
    pub fn is_leaf(&self) -> bool {
        matches!(self.kind, TypeKind::Scalar | TypeKind::Enum { .. })
    }
    pub fn fields(&self) -> &[FieldDef] {
        match &self.kind {
            TypeKind::Object { fields, .. } | TypeKind::Interface { fields, .. } => fields,
            _ => &[],
        }
    }
    pub fn field(&self, name: &str) -> Option<&FieldDef> {
        self.fields().iter().find(|f| f.name == name)
    }
    pub fn has_id(&self) -> bool {
        self.field("id").is_some()
    }
}

pub const BUILTIN_SCALARS: &[&str] = &["String", "Int", "Float", "Boolean", "ID"];

#[derive(Clone, Debug, Default, PartialEq, Eq, Hash, Serialize, Deserialize)]
pub struct Schema {
    /// in rendering order; the five built-in scalars are implicit
    pub types: Vec<TypeDef>,
}

impl Schema {
    pub fn get(&self, name: &str) -> Option<&TypeDef> {
        self.types.iter().find(|t| t.name == name)
    }
    pub fn is_builtin_scalar(name: &str) -> bool {
        BUILTIN_SCALARS.contains(&name)
    }
    /// scalar (built-in or declared) or enum
    pub fn is_leaf(&self, name: &str) -> bool {
        Self::is_builtin_scalar(name) || self.get(name).map_or(false, |t| t.is_leaf())
    }
    pub fn is_composite(&self, name: &str) -> bool {
        self.get(name).map_or(false, |t| t.is_composite())
    }
    /// What the compiler records as the subtypes of an abstract type: for a union its members
    /// in declaration order; for an interface the OBJECT types that list it in `implements`, in
    /// schema order (interfaces implementing interfaces are ignored by the compiler).
    pub fn concrete_subtypes(&self, abstract_name: &str) -> Vec<String> {
        match self.get(abstract_name).map(|t| &t.kind) {
            Some(TypeKind::Union { members }) => members.clone(),
            Some(TypeKind::Interface { .. }) => self
                .types
                .iter()
                .filter(|t| matches!(&t.kind, TypeKind::Object { implements, .. } if implements.iter().any(|i| i == abstract_name)))
                .map(|t| t.name.clone())
                .collect(),
            _ => vec![],
        }
    }
}

/// One `@exposeField(field: "a.b.c", as: "name", fieldMap: [{from, to}])` item.
#[derive(Clone, Debug, PartialEq, Eq, Hash, Serialize, Deserialize)]
pub struct ExposeField {
    /// `["set_pet_tagline", "pet"]` renders as `field: "set_pet_tagline.pet"`; the first element
    /// is a field of the extended type, the rest is a path inside its payload (may contain
    /// `asConcreteType` steps).  Non-empty.
    pub path: Vec<String>,
    pub as_name: Option<String>,
    /// (from, to)
    pub field_map: Vec<(String, String)>,
}

impl ExposeField {
    /// The name of the client field that this directive creates (on the type the path ends at).
    pub fn exposed_name(&self) -> &str {
        self.as_name.as_deref().unwrap_or(&self.path[0])
    }
}

/// `extend type <on_type> @exposeField(…) @exposeField(…)`
#[derive(Clone, Debug, PartialEq, Eq, Hash, Serialize, Deserialize)]
pub struct Extension {
    pub on_type: String,
    pub expose: Vec<ExposeField>,
}

// ---------------------------------------------------------------------------------------------
// Iso declarations
// ---------------------------------------------------------------------------------------------

/// `@name(arg: value, …)`.  Known to the compiler: `@component` (client field), `@loadable` /
/// `@loadable(lazyLoadArtifact: true)` (scalar selection of a client field), `@updatable`
/// (selection of a server field), `@lazyLoad` (entrypoint).
#[derive(Clone, Debug, PartialEq, Eq, Hash, Serialize, Deserialize)]
pub struct Directive {
    pub name: String,
    pub args: Vec<(String, Value)>,
}

impl Directive {
    pub fn plain(name: &str) -> Directive {
        Directive { name: name.to_string(), args: vec![] }
    }
    pub fn component() -> Directive {
        Self::plain("component")
    }
    pub fn updatable() -> Directive {
        Self::plain("updatable")
    }
    pub fn lazy_load() -> Directive {
        Self::plain("lazyLoad")
    }
    pub fn loadable(lazy_load_artifact: bool) -> Directive {
        Directive {
            name: "loadable".to_string(),
            args: if lazy_load_artifact { vec![("lazyLoadArtifact".to_string(), Value::Bool(true))] } else { vec![] },
        }
    }
}

/// `$name: Type = default`
#[derive(Clone, Debug, PartialEq, Eq, Hash, Serialize, Deserialize)]
pub struct VarDef {
    pub name: String,
    pub ty: TypeRef,
    pub default: Option<Value>,
}

/// What every selection has: `alias: name(args) @directives`.
#[derive(Clone, Debug, PartialEq, Eq, Hash, Serialize, Deserialize)]
pub struct SelHead {
    pub alias: Option<String>,
    pub name: String,
    pub args: Vec<(String, Value)>,
    pub directives: Vec<Directive>,
}

impl SelHead {
    pub fn new(name: &str) -> SelHead {
        SelHead { alias: None, name: name.to_string(), args: vec![], directives: vec![] }
    }
    /// The name the reader sees (and the one that must be unique in a selection set).
    pub fn response_name(&self) -> &str {
        self.alias.as_deref().unwrap_or(&self.name)
    }
    pub fn has_directive(&self, name: &str) -> bool {
        self.directives.iter().any(|d| d.name == name)
    }
}

/// A selection.  There is no fragment syntax in iso: type refinement is the linked selection
/// `asConcreteType { … }`, a store link is the scalar selection `__link`, the discriminator is
/// `__typename`, the generated refetch field is `__refetch`.
#[derive(Clone, Debug, PartialEq, Eq, Hash, Serialize, Deserialize)]
pub enum Selection {
    /// no selection set
    Scalar(SelHead),
    /// with a (possibly empty) selection set
    Linked(SelHead, Vec<Selection>),
}

impl Selection {
    pub fn scalar(name: &str) -> Selection {
        Selection::Scalar(SelHead::new(name))
    }
    pub fn linked(name: &str, kids: Vec<Selection>) -> Selection {
        Selection::Linked(SelHead::new(name), kids)
    }
    pub fn head(&self) -> &SelHead {
        match self {
            Selection::Scalar(h) | Selection::Linked(h, _) => h,
        }
    }
    pub fn head_mut(&mut self) -> &mut SelHead {
        match self {
            Selection::Scalar(h) | Selection::Linked(h, _) => h,
        }
    }
    pub fn kids(&self) -> Option<&Vec<Selection>> {
        match self {
            Selection::Scalar(_) => None,
            Selection::Linked(_, k) => Some(k),
        }
    }
    pub fn kids_mut(&mut self) -> Option<&mut Vec<Selection>> {
        match self {
            Selection::Scalar(_) => None,
            Selection::Linked(_, k) => Some(k),
        }
    }
    pub fn response_name(&self) -> &str {
        self.head().response_name()
    }
    /// Variables used in arguments anywhere inside (with duplicates).
    pub fn variables(&self) -> Vec<String> {
        let mut out = vec![];
        fn go(s: &Selection, out: &mut Vec<String>) {
            for (_, v) in &s.head().args {
                out.extend(v.variables());
            }
            if let Some(k) = s.kids() {
                k.iter().for_each(|s| go(s, out));
            }
        }
        go(self, &mut out);
        out
    }
}

#[derive(Clone, Debug, PartialEq, Eq, Hash, Serialize, Deserialize)]
pub struct ClientField {
    pub parent: String,
    pub name: String,
    pub vars: Vec<VarDef>,
    pub directives: Vec<Directive>,
    pub description: Option<String>,
    pub selections: Vec<Selection>,
}

#[derive(Clone, Debug, PartialEq, Eq, Hash, Serialize, Deserialize)]
pub struct ClientPointer {
    pub parent: String,
    pub name: String,
    /// `to <TypeRef>`
    pub to: TypeRef,
    pub vars: Vec<VarDef>,
    pub directives: Vec<Directive>,
    pub description: Option<String>,
    pub selections: Vec<Selection>,
}

#[derive(Clone, Debug, PartialEq, Eq, Hash, Serialize, Deserialize)]
pub struct Entrypoint {
    pub parent: String,
    pub name: String,
    pub directives: Vec<Directive>,
}

#[derive(Clone, Debug, PartialEq, Eq, Hash, Serialize, Deserialize)]
pub enum Decl {
    ClientField(ClientField),
    ClientPointer(ClientPointer),
    Entrypoint(Entrypoint),
}

impl Decl {
    pub fn parent(&self) -> &str {
        match self {
            Decl::ClientField(d) => &d.parent,
            Decl::ClientPointer(d) => &d.parent,
            Decl::Entrypoint(d) => &d.parent,
        }
    }
    pub fn name(&self) -> &str {
        match self {
            Decl::ClientField(d) => &d.name,
            Decl::ClientPointer(d) => &d.name,
            Decl::Entrypoint(d) => &d.name,
        }
    }
    pub fn vars(&self) -> &[VarDef] {
        match self {
            Decl::ClientField(d) => &d.vars,
            Decl::ClientPointer(d) => &d.vars,
            Decl::Entrypoint(_) => &[],
        }
    }
    pub fn vars_mut(&mut self) -> Option<&mut Vec<VarDef>> {
        match self {
            Decl::ClientField(d) => Some(&mut d.vars),
            Decl::ClientPointer(d) => Some(&mut d.vars),
            Decl::Entrypoint(_) => None,
        }
    }
    pub fn selections(&self) -> Option<&Vec<Selection>> {
        match self {
            Decl::ClientField(d) => Some(&d.selections),
            Decl::ClientPointer(d) => Some(&d.selections),
            Decl::Entrypoint(_) => None,
        }
    }
    pub fn selections_mut(&mut self) -> Option<&mut Vec<Selection>> {
        match self {
            Decl::ClientField(d) => Some(&mut d.selections),
            Decl::ClientPointer(d) => Some(&mut d.selections),
            Decl::Entrypoint(_) => None,
        }
    }
    pub fn is_entrypoint(&self) -> bool {
        matches!(self, Decl::Entrypoint(_))
    }
    /// `field` / `pointer` / `entrypoint`
    pub fn keyword(&self) -> &'static str {
        match self {
            Decl::ClientField(_) => "field",
            Decl::ClientPointer(_) => "pointer",
            Decl::Entrypoint(_) => "entrypoint",
        }
    }
}

// ---------------------------------------------------------------------------------------------
// Options / project
// ---------------------------------------------------------------------------------------------

#[derive(Clone, Copy, Debug, PartialEq, Eq, Hash, Serialize, Deserialize)]
pub enum ModuleKind {
    /// `"module": "esmodule"` (the default)
    EsModule,
    /// `"module": "commonjs"`
    CommonJs,
}

#[derive(Clone, Copy, Debug, PartialEq, Eq, Hash, Serialize, Deserialize)]
pub enum ValidationLevel {
    Ignore,
    Warn,
    /// the config-file default
    Error,
}

#[derive(Clone, Copy, Debug, PartialEq, Eq, Hash, Serialize, Deserialize)]
pub enum HashAlgorithm {
    Md5,
    /// the default
    Sha256,
}

#[derive(Clone, Debug, PartialEq, Eq, Hash, Serialize, Deserialize)]
pub struct PersistedDocuments {
    /// custom file name (relative to the artifact directory); `None` = `persisted_documents.json`
    pub file: Option<String>,
    pub algorithm: HashAlgorithm,
    pub include_extra_info: bool,
}

/// The `isograph.config.json` contents that matter.  Defaults (`Options::default()`) are the
/// config-FILE defaults, i.e. what an empty `"options": {}` means.
#[derive(Clone, Debug, PartialEq, Eq, Hash, Serialize, Deserialize)]
pub struct Options {
    /// `project_root`, relative to the project directory (default `src`)
    pub project_root: String,
    /// `artifact_directory`; `None` = project_root.  `__isograph` is appended by the compiler.
    pub artifact_directory: Option<String>,
    pub module: ModuleKind,
    pub include_file_extensions_in_import_statements: bool,
    /// single line
    pub generated_file_header: Option<String>,
    pub persisted_documents: Option<PersistedDocuments>,
    pub no_babel_transform: bool,
    pub on_invalid_id_type: ValidationLevel,
}

impl Default for Options {
    fn default() -> Self {
        Options {
            project_root: "src".to_string(),
            artifact_directory: None,
            module: ModuleKind::EsModule,
            include_file_extensions_in_import_statements: false,
            generated_file_header: None,
            persisted_documents: None,
            no_babel_transform: false,
            on_invalid_id_type: ValidationLevel::Error,
        }
    }
}

impl Options {
    /// Directory that will hold the artifacts, relative to the project directory.
    pub fn artifact_dir(&self) -> String {
        let base = self.artifact_directory.as_deref().unwrap_or(&self.project_root);
        let base = base.trim_start_matches("./").trim_end_matches('/');
        if base.is_empty() || base == "." {
            "__isograph".to_string()
        } else {
            format!("{base}/__isograph")
        }
    }
}

pub const CONFIG_FILE: &str = "isograph.config.json";
pub const SCHEMA_FILE: &str = "schema.graphql";
pub const SCHEMA_EXTENSION_FILE: &str = "schema-extension.graphql";

/// A whole project.
#[derive(Clone, Debug, Default, PartialEq, Eq, Hash, Serialize, Deserialize)]
pub struct Project {
    pub schema: Schema,
    pub extensions: Vec<Extension>,
    /// (source file, declaration); several declarations may share a file, order inside a file is
    /// the order in this list.  Source files live under `options.project_root` and end in
    /// `.ts`/`.tsx`/`.js`/`.jsx` to be seen by the compiler.
    pub decls: Vec<(String, Decl)>,
    pub options: Options,
    /// Additional files written verbatim (non-source files, binary files, hand-written source
    /// files with malformed literals …).  A path equal to a generated one overrides it.
    pub extra_files: Vec<(String, Vec<u8>)>,
}

impl Project {
    pub fn decl(&self, parent: &str, name: &str) -> Option<&Decl> {
        self.decls.iter().map(|(_, d)| d).find(|d| !d.is_entrypoint() && d.parent() == parent && d.name() == name)
    }
    pub fn client_fields(&self) -> impl Iterator<Item = &ClientField> {
        self.decls.iter().filter_map(|(_, d)| if let Decl::ClientField(f) = d { Some(f) } else { None })
    }
    pub fn client_pointers(&self) -> impl Iterator<Item = &ClientPointer> {
        self.decls.iter().filter_map(|(_, d)| if let Decl::ClientPointer(f) = d { Some(f) } else { None })
    }
    pub fn entrypoints(&self) -> impl Iterator<Item = &Entrypoint> {
        self.decls.iter().filter_map(|(_, d)| if let Decl::Entrypoint(f) = d { Some(f) } else { None })
    }
    /// Distinct source files in first-appearance order.
    pub fn source_files(&self) -> Vec<String> {
        let mut out: Vec<String> = vec![];
        for (f, _) in &self.decls {
            if !out.contains(f) {
                out.push(f.clone());
            }
        }
        out
    }
    /// All exposed fields as (type the client field lands on is NOT computed here) raw items.
    pub fn expose_items(&self) -> impl Iterator<Item = (&str, &ExposeField)> {
        self.extensions.iter().flat_map(|e| e.expose.iter().map(move |x| (e.on_type.as_str(), x)))
    }
}
