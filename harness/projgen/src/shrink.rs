//! Greedy structural minimisation (delta debugging on the structure, not on text).
//!
//! `shrink(&project, |p| still_interesting(p))` repeatedly tries one-step reductions (drop a
//! declaration, a selection, an argument, a directive, an alias, a variable, a description, an
//! `@exposeField`, a schema type / field / argument, reset the options) and keeps a reduction
//! whenever the predicate still holds.  The result is 1-minimal with respect to these steps.
//! The predicate typically compiles the candidate (`compile_project`) and checks that the
//! same panic / diagnostic kind / disagreement is still there.
use crate::model::*;

/// Address of a selection SET: declaration index + indices of the linked selections to descend
/// through (empty = the declaration's top-level set).
type SetPath = (usize, Vec<usize>);

fn set_paths(p: &Project) -> Vec<SetPath> {
    fn go(set: &[Selection], decl: usize, prefix: &mut Vec<usize>, out: &mut Vec<SetPath>) {
        out.push((decl, prefix.clone()));
        for (i, s) in set.iter().enumerate() {
            if let Some(k) = s.kids() {
                prefix.push(i);
                go(k, decl, prefix, out);
                prefix.pop();
            }
        }
    }
    let mut out = vec![];
    for (di, (_, d)) in p.decls.iter().enumerate() {
        if let Some(s) = d.selections() {
            go(s, di, &mut vec![], &mut out);
        }
    }
    out
}

fn set_mut<'a>(p: &'a mut Project, path: &SetPath) -> Option<&'a mut Vec<Selection>> {
    let mut set = p.decls.get_mut(path.0)?.1.selections_mut()?;
    for &i in &path.1 {
        set = set.get_mut(i)?.kids_mut()?;
    }
    Some(set)
}

fn with_set(p: &Project, path: &SetPath, f: impl FnOnce(&mut Vec<Selection>) -> bool) -> Option<Project> {
    let mut q = p.clone();
    let changed = f(set_mut(&mut q, path)?);
    if changed {
        Some(q)
    } else {
        None
    }
}

/// All one-step reductions of `p`, cheapest-to-biggest-win first.
pub fn reductions(p: &Project) -> Vec<Project> {
    let mut out: Vec<Project> = vec![];
    // declarations
    for i in 0..p.decls.len() {
        let mut q = p.clone();
        q.decls.remove(i);
        out.push(q);
    }
    // extra files, extensions
    for i in 0..p.extra_files.len() {
        let mut q = p.clone();
        q.extra_files.remove(i);
        out.push(q);
    }
    for i in 0..p.extensions.len() {
        for j in 0..p.extensions[i].expose.len() {
            let mut q = p.clone();
            q.extensions[i].expose.remove(j);
            if q.extensions[i].expose.is_empty() {
                q.extensions.remove(i);
            }
            out.push(q);
        }
    }
    // schema types, fields, args
    for i in 0..p.schema.types.len() {
        let mut q = p.clone();
        q.schema.types.remove(i);
        out.push(q);
    }
    for i in 0..p.schema.types.len() {
        match &p.schema.types[i].kind {
            TypeKind::Object { fields, implements } | TypeKind::Interface { fields, implements } => {
                for j in 0..fields.len() {
                    let mut q = p.clone();
                    if let TypeKind::Object { fields, .. } | TypeKind::Interface { fields, .. } = &mut q.schema.types[i].kind {
                        fields.remove(j);
                    }
                    out.push(q);
                    for a in 0..fields[j].args.len() {
                        let mut q = p.clone();
                        if let TypeKind::Object { fields, .. } | TypeKind::Interface { fields, .. } = &mut q.schema.types[i].kind {
                            fields[j].args.remove(a);
                        }
                        out.push(q);
                    }
                    // simplify the field type: strip wrappers
                    if !matches!(fields[j].ty, TypeRef::Named(_)) {
                        let mut q = p.clone();
                        if let TypeKind::Object { fields, .. } | TypeKind::Interface { fields, .. } = &mut q.schema.types[i].kind {
                            fields[j].ty = TypeRef::Named(fields[j].ty.inner().to_string());
                        }
                        out.push(q);
                    }
                }
                for j in 0..implements.len() {
                    let mut q = p.clone();
                    if let TypeKind::Object { implements, .. } | TypeKind::Interface { implements, .. } = &mut q.schema.types[i].kind {
                        implements.remove(j);
                    }
                    out.push(q);
                }
            }
            TypeKind::Union { members } => {
                for j in 0..members.len() {
                    let mut q = p.clone();
                    if let TypeKind::Union { members } = &mut q.schema.types[i].kind {
                        members.remove(j);
                    }
                    out.push(q);
                }
            }
            TypeKind::Input { fields } => {
                for j in 0..fields.len() {
                    let mut q = p.clone();
                    if let TypeKind::Input { fields } = &mut q.schema.types[i].kind {
                        fields.remove(j);
                    }
                    out.push(q);
                }
            }
            TypeKind::Enum { values } => {
                for j in 0..values.len() {
                    if values.len() > 1 {
                        let mut q = p.clone();
                        if let TypeKind::Enum { values } = &mut q.schema.types[i].kind {
                            values.remove(j);
                        }
                        out.push(q);
                    }
                }
            }
            TypeKind::Scalar => {}
        }
    }
    // selections
    for k in &set_paths(p) {
        let mut scratch = p.clone();
        let heads: Vec<(usize, usize)> =
            set_mut(&mut scratch, k).map_or(vec![], |s| s.iter().map(|x| (x.head().args.len(), x.head().directives.len())).collect());
        for i in 0..heads.len() {
            if let Some(q) = with_set(p, k, |s| {
                s.remove(i);
                true
            }) {
                out.push(q);
            }
            // hoist: replace a linked selection by a scalar one is rarely type-correct; instead
            // drop pieces of the head
            if let Some(q) = with_set(p, k, |s| s[i].head_mut().alias.take().is_some()) {
                out.push(q);
            }
            let (nargs, ndirs) = heads[i];
            for a in 0..nargs {
                if let Some(q) = with_set(p, k, |s| {
                    s[i].head_mut().args.remove(a);
                    true
                }) {
                    out.push(q);
                }
            }
            for d in 0..ndirs {
                if let Some(q) = with_set(p, k, |s| {
                    s[i].head_mut().directives.remove(d);
                    true
                }) {
                    out.push(q);
                }
            }
            // replace an object-literal / variable argument by null (often still reproduces)
            for a in 0..nargs {
                if let Some(q) = with_set(p, k, |s| {
                    let v = &mut s[i].head_mut().args[a].1;
                    if *v != Value::Null && !matches!(v, Value::Int(_)) {
                        *v = Value::Null;
                        true
                    } else {
                        false
                    }
                }) {
                    out.push(q);
                }
            }
        }
    }
    // declaration details
    for i in 0..p.decls.len() {
        let d = &p.decls[i].1;
        for v in 0..d.vars().len() {
            let mut q = p.clone();
            q.decls[i].1.vars_mut().unwrap().remove(v);
            out.push(q);
            if d.vars()[v].default.is_some() {
                let mut q = p.clone();
                q.decls[i].1.vars_mut().unwrap()[v].default = None;
                out.push(q);
            }
        }
        let mut q = p.clone();
        let changed = match &mut q.decls[i].1 {
            Decl::ClientField(f) => f.description.take().is_some() | !std::mem::take(&mut f.directives).is_empty(),
            Decl::ClientPointer(f) => f.description.take().is_some() | !std::mem::take(&mut f.directives).is_empty(),
            Decl::Entrypoint(f) => !std::mem::take(&mut f.directives).is_empty(),
        };
        if changed {
            out.push(q);
        }
        if let Decl::ClientPointer(f) = d {
            if !matches!(f.to, TypeRef::Named(_)) {
                let mut q = p.clone();
                if let Decl::ClientPointer(f) = &mut q.decls[i].1 {
                    f.to = TypeRef::Named(f.to.inner().to_string());
                }
                out.push(q);
            }
        }
    }
    // all descriptions at once; options; file layout
    {
        let mut q = p.clone();
        let mut changed = false;
        for t in q.schema.types.iter_mut() {
            changed |= t.description.take().is_some();
            match &mut t.kind {
                TypeKind::Object { fields, .. } | TypeKind::Interface { fields, .. } => {
                    for f in fields {
                        changed |= f.description.take().is_some();
                    }
                }
                TypeKind::Input { fields } => {
                    for f in fields {
                        changed |= f.description.take().is_some();
                    }
                }
                _ => {}
            }
        }
        if changed {
            out.push(q);
        }
    }
    if p.options != Options::default() {
        let mut q = p.clone();
        let root_change = q.options.project_root != Options::default().project_root;
        q.options = Options::default();
        if root_change {
            // keep sources under the (new) project root
            for (path, _) in q.decls.iter_mut() {
                if let Some(rest) = path.strip_prefix(&format!("{}/", p.options.project_root)) {
                    *path = format!("src/{rest}");
                }
            }
        }
        out.push(q);
    }
    if p.source_files().len() > 1 {
        let mut q = p.clone();
        let root = q.options.project_root.clone();
        for (path, _) in q.decls.iter_mut() {
            *path = format!("{root}/all.ts");
        }
        out.push(q);
    }
    out
}

/// Greedy fixpoint.  `interesting(p)` must be true for the input (otherwise it is returned
/// unchanged).  At most `max_tests` predicate evaluations.
pub fn shrink(p: &Project, max_tests: usize, mut interesting: impl FnMut(&Project) -> bool) -> Project {
    let mut cur = p.clone();
    let mut tests = 0;
    if !interesting(&cur) {
        return cur;
    }
    loop {
        let mut progressed = false;
        for cand in reductions(&cur) {
            if tests >= max_tests {
                return cur;
            }
            tests += 1;
            if interesting(&cand) {
                cur = cand;
                progressed = true;
                break;
            }
        }
        if !progressed {
            return cur;
        }
    }
}
