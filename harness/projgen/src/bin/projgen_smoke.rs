use hx_projgen::compile::*;
use hx_projgen::gen::*;
use hx_projgen::Rng;
use std::collections::BTreeMap;
fn main() {
    if std::env::var("CASE").is_err() { hx_common::quiet_panics(); }
    let n: u64 = std::env::args().nth(1).and_then(|s| s.parse().ok()).unwrap_or(200);
    let seed: u64 = std::env::var("VERIF_SEED").ok().and_then(|s| s.parse().ok()).unwrap_or(1);
    let mut o = GenOpts::default();
    let envn = |k: &str| std::env::var(k).ok().and_then(|s| s.parse::<usize>().ok());
    if let Some(v) = envn("EXP_POINTER") { o.pct_pointer = v; }
    if let Some(v) = envn("EXP_PVARS") { o.pointer_variables = v != 0; }
    if let Some(v) = envn("EXP_VIO") { o.pct_var_in_object = v; }
    if let Some(v) = envn("EXP_LOADABLE") { o.pct_loadable = v; }
    if let Some(v) = envn("EXP_UPD") { o.pct_updatable = v; }
    let mut hist: BTreeMap<String, usize> = BTreeMap::new();
    let mut ok = 0;
    let mut shown: BTreeMap<String, usize> = BTreeMap::new();
    let only: Option<u64> = std::env::var("CASE").ok().and_then(|s| s.parse().ok());
    for i in 0..n {
        if only.map_or(false, |c| c != i) { continue; }
        let mut r = Rng::new(seed, i);
        let p = generate(&mut r, &o);
        let out = compile_project(&p);
        if out.result.is_ok() { ok += 1; }
        let key = match &out.result { CompileResult::Panic(m) => format!("panic: {}", &m[..m.len().min(90)]), x => x.summary() };
        *hist.entry(key.clone()).or_default() += 1;
        if !out.result.is_ok() {
            let c = shown.entry(key.clone()).or_default();
            if *c < 1 && std::env::var("SHOW").is_ok() {
                *c += 1;
                let p = if std::env::var("SHRINK").is_ok() {
                    let want = key.clone();
                    hx_projgen::shrink::shrink(&p, 3000, |q| {
                        let o = compile_project(q);
                        let k = match &o.result { CompileResult::Panic(m) => format!("panic: {}", &m[..m.len().min(90)]), x => x.summary() };
                        k == want
                    })
                } else { p.clone() };
                println!("=== case {i}: {key}");
                if let CompileResult::Diagnostics(ds) = &out.result { for d in ds.iter().take(2) { println!("{}", d.rendered.clone().unwrap_or(d.message.clone())); } }
                if let CompileResult::Panic(m) = &out.result { println!("{m}"); }
                for (f, b) in hx_projgen::render::render_default(&p) { println!("--- {}\n{}", f.display(), String::from_utf8_lossy(&b)); }
            }
        }
    }
    println!("accepted {ok}/{n}");
    for (k, v) in hist { println!("{v:6} {k}"); }
}
