//! Smoke test / measurement for `hx_projgen`.
//!
//! `projgen_smoke [N]` (default 500; seed from `VERIF_SEED`, default 1):
//!  1. the demo projects of /repo compile in-process and reproduce their checked-in artifacts;
//!  2. N generated projects are compiled in-process by the REAL compiler: acceptance rate (must be
//!     ≥ 70 %), histogram of diagnostic kinds / panic messages, feature distribution;
//!  3. single-fault mutants: rejection rate per fault kind (must be ≥ 90 % each);
//!  4. rearrangements (permute / duplicate-under-alias / extract-client-field): still accepted,
//!     operations (`query_text.ts`, `normalization_ast.ts`) byte-identical;
//!  5. layout knobs and file plans: still accepted;
//!  6. wire round trip Rust → wire → Rust, and Rust → wire → Lean → wire on 1 000 projects;
//!  7. the real CLI in a subprocess on a few projects (skipped with HX_SMOKE_SKIP_CLI=1);
//!  8. nothing is left under /tmp.
//! `projgen_smoke N accept-only` stops after step 2.
//! Debugging aids: `CASE=<i>` runs only project i with the default panic hook and prints it;
//! `SHOW=1` prints one project per failure class, `SHRINK=1` minimises it first.
use hx_projgen::arrange::*;
use hx_projgen::compile::*;
use hx_projgen::gen::*;
use hx_projgen::model::*;
use hx_projgen::mutate::*;
use hx_projgen::render::*;
use hx_projgen::wire::*;
use hx_projgen::Rng;
use std::collections::BTreeMap;
use std::io::Write;

fn class_of(r: &CompileResult) -> String {
    match r {
        CompileResult::Panic(m) => format!("panic: {}", m.chars().take(100).collect::<String>()),
        x => x.summary(),
    }
}

fn operations(a: &BTreeMap<String, Vec<u8>>) -> BTreeMap<String, Vec<u8>> {
    a.iter()
        .filter(|(k, _)| (k.ends_with("/query_text.ts") || k.ends_with("/normalization_ast.ts")) && !k.contains("__refetch__"))
        .map(|(k, v)| (k.clone(), v.clone()))
        .collect()
}

fn print_project(p: &Project) {
    for (f, b) in render_default(p) {
        println!("--- {}\n{}", f.display(), String::from_utf8_lossy(&b));
    }
}

fn rss_mb() -> f64 {
    std::fs::read_to_string("/proc/self/statm")
        .ok()
        .and_then(|s| s.split(' ').nth(1).and_then(|x| x.parse::<f64>().ok()))
        .map_or(0.0, |pages| pages * 4096.0 / 1e6)
}

#[derive(Default)]
struct Rate {
    tried: usize,
    good: usize,
    exact: usize,
}

fn main() {
    let case: Option<u64> = std::env::var("CASE").ok().and_then(|s| s.parse().ok());
    if case.is_none() {
        hx_common::quiet_panics();
    }
    let n: u64 = std::env::args().nth(1).and_then(|s| s.parse().ok()).unwrap_or(500);
    let seed: u64 = std::env::var("VERIF_SEED").ok().and_then(|s| s.parse().ok()).unwrap_or(1);
    let show = std::env::var("SHOW").is_ok();
    let do_shrink = std::env::var("SHRINK").is_ok();
    let mut o = GenOpts::default();
    let envn = |k: &str| std::env::var(k).ok().and_then(|s| s.parse::<usize>().ok());
    if let Some(v) = envn("EXP_POINTER") { o.pct_pointer = v; }
    if let Some(v) = envn("EXP_PVARS") { o.pointer_variables = v != 0; }
    if let Some(v) = envn("EXP_VIO") { o.pct_var_in_object = v; }
    if let Some(v) = envn("EXP_LOADABLE") { o.pct_loadable = v; }
    if let Some(v) = envn("EXP_UPD") { o.pct_updatable = v; }
    let mut failures: Vec<String> = vec![];
    let t0 = std::time::Instant::now();

    // ---- 1. demos -------------------------------------------------------------------------
    if case.is_none() {
        println!("== demos");
        for d in DEMOS {
            let files = load_demo(d).expect("demo files");
            let out = compile_files(&files);
            let same = load_demo_checked_in_artifacts(d).map(|c| c == out.artifacts);
            println!("  {d}: {} source files -> {} ({} artifacts, identical to checked-in: {:?})", files.len(), out.result.summary(), out.artifacts.len(), same);
            // (a `fix:` commit in /repo legitimately changes artifacts that are checked in, so
            // only the compile itself is required to succeed)
            if !out.result.is_ok() {
                failures.push(format!("demo {d} does not compile: {}", class_of(&out.result)));
            }
        }
    }

    // ---- 2. generated projects ------------------------------------------------------------
    println!("== generate + compile {n} projects (seed {seed})");
    let mut hist: BTreeMap<String, usize> = BTreeMap::new();
    let mut shown: BTreeMap<String, usize> = BTreeMap::new();
    let mut feat: BTreeMap<&'static str, usize> = BTreeMap::new();
    let mut accepted: Vec<(u64, Project, Outcome)> = vec![];
    let mut total_artifacts = 0usize;
    for i in 0..n {
        if case.map_or(false, |c| c != i) {
            continue;
        }
        let mut r = Rng::new(seed, i);
        let p = generate(&mut r, &o);
        let out = compile_project(&p);
        let key = class_of(&out.result);
        *hist.entry(key.clone()).or_default() += 1;
        // features
        let mut f = |k: &'static str, b: bool| if b { *feat.entry(k).or_default() += 1 };
        f("interface", p.schema.types.iter().any(|t| matches!(t.kind, TypeKind::Interface { .. })));
        f("union", p.schema.types.iter().any(|t| matches!(t.kind, TypeKind::Union { .. })));
        f("enum", p.schema.types.iter().any(|t| matches!(t.kind, TypeKind::Enum { .. })));
        f("input object", p.schema.types.iter().any(|t| matches!(t.kind, TypeKind::Input { .. })));
        f("mutation type", p.schema.get("Mutation").is_some());
        f("@exposeField", !p.extensions.is_empty());
        f("client pointer", p.client_pointers().next().is_some());
        f("entrypoint", p.entrypoints().next().is_some());
        f(">=2 entrypoints", p.entrypoints().count() >= 2);
        let wire = to_wire(&p);
        f("@loadable", wire.contains(&hx_common::hex(b"loadable")));
        f("@updatable", wire.contains(&hx_common::hex(b"updatable")));
        f("variables", p.decls.iter().any(|(_, d)| !d.vars().is_empty()));
        f("object literal", wire.contains(" vo "));
        {
            use hx_projgen::env::SelKind;
            let env = hx_projgen::env::Env::new(&p);
            let mut kinds: Vec<SelKind> = vec![];
            env.walk(|_, _, _, t| if let Some(t) = t { kinds.push(t.kind) });
            f("asConcreteType", kinds.contains(&SelKind::AsConcrete));
            f("client field selects client field", kinds.contains(&SelKind::ClientField));
            f("exposed field selected", kinds.contains(&SelKind::Exposed));
            f("__refetch / __link / __typename", kinds.iter().any(|k| matches!(k, SelKind::Refetch | SelKind::Link | SelKind::Typename)));
        }
        f("non-default options", p.options != Options::default());
        if out.result.is_ok() {
            total_artifacts += out.artifacts.len();
            accepted.push((i, p.clone(), out.clone()));
        }
        if case.is_some() {
            println!("case {i}: {key}");
            if let CompileResult::Diagnostics(ds) = &out.result {
                for d in ds { println!("{}", d.rendered.clone().unwrap_or(d.message.clone())); }
            }
            print_project(&p);
            println!("wire: {wire}");
        }
        if !out.result.is_ok() && show {
            let c = shown.entry(key.clone()).or_default();
            if *c < 1 {
                *c += 1;
                let q = if do_shrink { hx_projgen::shrink::shrink(&p, 3000, |q| class_of(&compile_project(q).result) == key) } else { p.clone() };
                println!("=== case {i}: {key}");
                if let CompileResult::Diagnostics(ds) = &out.result {
                    for d in ds.iter().take(3) { println!("{}", d.rendered.clone().unwrap_or(d.message.clone())); }
                }
                print_project(&q);
            }
        }
    }
    if case.is_some() {
        return;
    }
    let acc = accepted.len() as f64 / n as f64;
    println!("  accepted (zero diagnostics): {}/{} = {:.1} %   [{} artifacts in total, {:.1} per project]", accepted.len(), n, 100.0 * acc, total_artifacts, total_artifacts as f64 / accepted.len().max(1) as f64);
    println!("  outcome histogram:");
    for (k, v) in &hist {
        println!("  {v:7}  {k}");
    }
    println!("  feature distribution (projects having it):");
    for (k, v) in &feat {
        println!("  {:6.1} %  {k}", 100.0 * *v as f64 / n as f64);
    }
    if acc < 0.70 {
        failures.push(format!("acceptance rate {:.1} % < 70 %", 100.0 * acc));
    }
    if std::env::args().nth(2).as_deref() == Some("accept-only") {
        println!("{}", if failures.is_empty() { "SMOKE OK (accept-only)" } else { "SMOKE FAILED" });
        std::process::exit(if failures.is_empty() { 0 } else { 1 });
    }

    // ---- 3. single-fault mutants ------------------------------------------------------------
    println!("== single-fault mutants (every kind on every third accepted project)");
    let mut kinds: Vec<FaultKind> = FaultKind::ALL.to_vec();
    kinds.push(FaultKind::MissingRequiredArgumentLinked);
    let mut rates: BTreeMap<FaultKind, Rate> = BTreeMap::new();
    let mut no_site: BTreeMap<FaultKind, usize> = BTreeMap::new();
    let mut mutant_hist: BTreeMap<(FaultKind, String), usize> = BTreeMap::new();
    for (i, p, _) in &accepted {
        for (ki, k) in kinds.iter().enumerate() {
            if (*i as usize + ki) % 3 != 0 {
                continue;
            }
            let mut r = Rng::new(seed ^ 0xfa17, *i * 16 + ki as u64);
            match mutate_fault(&mut r, p, *k) {
                None => *no_site.entry(*k).or_default() += 1,
                Some(q) => {
                    let out = compile_project(&q);
                    let e = rates.entry(*k).or_default();
                    e.tried += 1;
                    let ks = out.result.kinds();
                    if matches!(out.result, CompileResult::Diagnostics(_)) {
                        e.good += 1;
                        if ks.iter().all(|x| x == k.expected_diag_kind()) {
                            e.exact += 1;
                        }
                    }
                    *mutant_hist.entry((*k, class_of(&out.result))).or_default() += 1;
                    let inexact = !ks.iter().all(|x| x == k.expected_diag_kind());
                    if show && (inexact || !matches!(out.result, CompileResult::Diagnostics(_))) && *k != FaultKind::MissingRequiredArgumentLinked {
                        let c = shown.entry(format!("mutant {}", k.name())).or_default();
                        if *c < 1 {
                            *c += 1;
                            println!("=== mutant {} of case {i} -> {}", k.name(), class_of(&out.result));
                            print_project(&q);
                        }
                    }
                }
            }
        }
    }
    println!("  {:36} {:>6} {:>9} {:>9}  {:>8}", "fault kind", "tried", "rejected", "only-exp.", "no-site");
    for k in &kinds {
        let e = rates.get(k).map(|r| (r.tried, r.good, r.exact)).unwrap_or((0, 0, 0));
        let rej = if e.0 == 0 { 0.0 } else { 100.0 * e.1 as f64 / e.0 as f64 };
        let ex = if e.0 == 0 { 0.0 } else { 100.0 * e.2 as f64 / e.0 as f64 };
        println!("  {:36} {:>6} {:>8.1}% {:>8.1}%  {:>8}", k.name(), e.0, rej, ex, no_site.get(k).copied().unwrap_or(0));
        if FaultKind::ALL.contains(k) && ((n >= 300 && e.0 < 20) || rej < 90.0) {
            failures.push(format!("mutant kind {}: tried {} rejected {:.1} %", k.name(), e.0, rej));
        }
    }
    println!("  (missing-required-argument-linked is informational: the compiler exempts every selection with a selection set)");
    for ((k, c), v) in &mutant_hist {
        if !c.contains(k.expected_diag_kind()) || c.contains('+') {
            println!("      {v:5}  {} -> {c}", k.name());
        }
    }
    // mutate_single_fault as a whole
    {
        let mut tried = 0;
        let mut rejected = 0;
        for (i, p, _) in accepted.iter().take(200) {
            let mut r = Rng::new(seed ^ 0x51, *i);
            if let Some((q, _k)) = mutate_single_fault(&mut r, p) {
                tried += 1;
                if matches!(compile_project(&q).result, CompileResult::Diagnostics(_)) {
                    rejected += 1;
                }
            }
        }
        println!("  mutate_single_fault: {rejected}/{tried} rejected");
    }

    // ---- 4. rearrangements --------------------------------------------------------------------
    println!("== rearrangements (every second accepted project)");
    let mut arr: BTreeMap<&'static str, (usize, usize, usize, usize)> = BTreeMap::new(); // tried, accepted, same ops, n/a
    for (i, p, base) in accepted.iter().filter(|(i, _, _)| i % 2 == 0) {
        let base_ops = operations(&base.artifacts);
        let mut r = Rng::new(seed ^ 0xa77, *i);
        let variants: Vec<(&'static str, Option<Project>)> = vec![
            ("permute-selections", Some(permute_selections(&mut r, p))),
            ("duplicate-under-alias", duplicate_under_alias(&mut r, p)),
            ("extract-client-field", extract_client_field(&mut r, p)),
        ];
        for (name, q) in variants {
            let e = arr.entry(name).or_default();
            match q {
                None => e.3 += 1,
                Some(q) => {
                    e.0 += 1;
                    let out = compile_project(&q);
                    if out.result.is_ok() {
                        e.1 += 1;
                        if operations(&out.artifacts) == base_ops {
                            e.2 += 1;
                        } else if show {
                            let c = shown.entry(format!("arr-ops {name}")).or_default();
                            if *c < 1 {
                                *c += 1;
                                println!("=== {name} of case {i}: operations differ");
                                let new_ops = operations(&out.artifacts);
                                for (k, v) in &base_ops {
                                    if new_ops.get(k) != Some(v) {
                                        println!("##### {k} before:\n{}\n##### after:\n{}", String::from_utf8_lossy(v), new_ops.get(k).map_or("<missing>".into(), |b| String::from_utf8_lossy(b).to_string()));
                                        break;
                                    }
                                }
                                print_project(p);
                                println!("=== … rearranged:");
                                print_project(&q);
                            }
                        }
                    } else if show {
                        let c = shown.entry(format!("arr {name}")).or_default();
                        if *c < 1 {
                            *c += 1;
                            println!("=== {name} of case {i} -> {}", class_of(&out.result));
                            print_project(&q);
                        }
                    }
                }
            }
        }
    }
    println!("  {:24} {:>6} {:>9} {:>12} {:>6}", "transformation", "tried", "accepted", "same ops", "n/a");
    for (k, (t, a, s, na)) in &arr {
        println!("  {:24} {:>6} {:>8.1}% {:>11.1}% {:>6}", k, t, 100.0 * *a as f64 / (*t).max(1) as f64, 100.0 * *s as f64 / (*t).max(1) as f64, na);
        if (*a as f64) < 0.9 * *t as f64 {
            failures.push(format!("rearrangement {k}: only {a}/{t} accepted"));
        }
    }

    // ---- 5. layouts and file plans ------------------------------------------------------------
    println!("== layout knobs / file plans (every fourth accepted project)");
    {
        let mut tried = 0;
        let mut ok = 0;
        let mut same_ops = 0;
        let mut same_all = 0;
        let mut noise_ok = 0;
        for (i, p, base) in accepted.iter().filter(|(i, _, _)| i % 4 == 0) {
            let mut r = Rng::new(seed ^ 0x1a7, *i);
            let mut ro = RenderOpts::random(&mut r);
            let out = compile_project_with(p, &ro);
            tried += 1;
            if out.result.is_ok() { ok += 1; }
            if out.artifacts == base.artifacts { same_all += 1; }
            ro.file_plan = r.pick(&[FilePlan::OnePerDecl, FilePlan::Single("all.tsx".into()), FilePlan::Rename, FilePlan::Shuffle { seed: *i }]).clone();
            let out2 = compile_project_with(p, &ro);
            if out2.result.is_ok() && operations(&out2.artifacts) == operations(&base.artifacts) { same_ops += 1; }
            let mut q = p.clone();
            for k in HARMLESS_NOISE { add_noise(&mut q, *k); }
            let out3 = compile_project(&q);
            if out3.result.is_ok() && out3.artifacts == base.artifacts { noise_ok += 1; }
        }
        println!("  random layout: {ok}/{tried} accepted, {same_all}/{tried} all artifacts byte-identical");
        println!("  random file plan: {same_ops}/{tried} accepted with identical operations");
        println!("  harmless noise files: {noise_ok}/{tried} accepted with identical artifacts");
        if ok != tried || same_all != tried { failures.push("layout knobs changed the outcome".into()); }
        if same_ops != tried { failures.push("file plans changed the operations".into()); }
        if noise_ok != tried { failures.push("noise files changed the outcome".into()); }
    }

    // ---- 5b. sessions (several compiles in one CompilerState, watch-mode update) ---------------
    println!("== sessions");
    {
        let mut tried = 0;
        let mut agree = 0;
        for (i, p, base) in accepted.iter().filter(|(i, _, _)| i % 10 == 0) {
            let mut r = Rng::new(seed ^ 0x5e55, *i);
            // version B of the project: one more unused variable-free client field in an existing file
            let Some(q) = duplicate_under_alias(&mut r, p) else { continue };
            tried += 1;
            let mut s = Session::from_project(p);
            let first = s.compile();
            // edit the files on disk, tell the compiler which source files changed, recompile
            let files_b = render_default(&q);
            s.write_files(&files_b);
            let events: Vec<SourceFileEvent> = q
                .source_files()
                .into_iter()
                .map(|f| (SourceEventKind::CreateOrModify(s.dir().join(f)), ChangedFileKind::JavaScriptSourceFile))
                .collect();
            let upd = s.update_sources(&events);
            let second = s.compile();
            let fresh = compile_project(&q);
            if first.artifacts == base.artifacts && upd.is_ok() && second.result.is_ok() && second.artifacts == fresh.artifacts {
                agree += 1;
            }
        }
        println!("  edit + update_sources + recompile in one CompilerState equals a fresh compile: {agree}/{tried}");
        if agree != tried { failures.push("session recompile differs from fresh compile".into()); }
    }

    // ---- 6. wire round trips ------------------------------------------------------------------
    println!("== wire format");
    {
        let m = 1000u64;
        let mut lines = Vec::with_capacity(m as usize);
        let mut rust_ok = 0;
        let mut rich = GenOpts::default();
        rich.unparseable_values = true; // exercise Float / Enum / List values on the wire as well
        rich.strings = Alphabet::Risky;
        for i in 0..m {
            let mut r = Rng::new(seed ^ 0x317e, i);
            let mut p = generate(&mut r, if i % 2 == 0 { &o } else { &rich });
            if i % 5 == 0 { add_noise(&mut p, Noise::BinaryNonSource); add_noise(&mut p, Noise::EmptySource); }
            let w = to_wire(&p);
            if from_wire(&w).as_ref() == Some(&p) && !w.contains('\n') { rust_ok += 1; }
            lines.push(w);
        }
        println!("  Rust -> wire -> Rust: {rust_ok}/{m} identical");
        if rust_ok != m { failures.push("Rust wire round trip".into()); }
        if std::env::var("HX_SMOKE_SKIP_LEAN").is_ok() {
            println!("  Lean round trip skipped (HX_SMOKE_SKIP_LEAN)");
        } else {
            let tmp = TempDir::new();
            let inp = tmp.path().join("wire.txt");
            let mut f = std::fs::File::create(&inp).unwrap();
            for l in &lines { writeln!(f, "{l}").unwrap(); }
            drop(f);
            let t = std::time::Instant::now();
            let out = std::process::Command::new("lake")
                .args(["env", "lean", "--run", "Driver/Projgen.lean"])
                .current_dir("/verif/lean")
                .stdin(std::fs::File::open(&inp).unwrap())
                .output();
            match out {
                Err(e) => failures.push(format!("cannot run lake: {e}")),
                Ok(out) => {
                    let text = String::from_utf8_lossy(&out.stdout);
                    let got: Vec<&str> = text.lines().collect();
                    let same = got.len() == lines.len() && got.iter().zip(&lines).all(|(a, b)| a == b);
                    let n_same = got.iter().zip(&lines).filter(|(a, b)| a == b).count();
                    println!("  Rust -> wire -> Lean -> wire: {n_same}/{m} byte-identical ({:.1} s)", t.elapsed().as_secs_f64());
                    if !same {
                        failures.push(format!("Lean wire round trip: {n_same}/{m}; stderr: {}", String::from_utf8_lossy(&out.stderr).chars().take(400).collect::<String>()));
                        if let Some((a, b)) = got.iter().zip(&lines).find(|(a, b)| a != b) {
                            println!("  first difference:\n   rust: {}\n   lean: {}", &b[..b.len().min(300)], &a[..a.len().min(300)]);
                        }
                    }
                }
            }
        }
    }

    // ---- 7. CLI subprocess ---------------------------------------------------------------------
    if std::env::var("HX_SMOKE_SKIP_CLI").is_ok() {
        println!("== CLI subprocess skipped (HX_SMOKE_SKIP_CLI)");
    } else {
        println!("== CLI subprocess (real isograph_cli binary)");
        match cli_binary(false) {
            Err(e) => failures.push(format!("CLI binary: {e}")),
            Ok(bin) => {
                println!("  binary: {}", bin.display());
                let mut agree = 0;
                let mut tried = 0;
                for (_, p, base) in accepted.iter().take(5) {
                    tried += 1;
                    match compile_via_cli_subprocess(p) {
                        Ok(c) if c.class() == "ok" && c.artifacts == base.artifacts => agree += 1,
                        Ok(c) => println!("  CLI disagrees: {} / {} artifacts\n{}", c.class(), c.artifacts.len(), c.stderr.chars().take(300).collect::<String>()),
                        Err(e) => println!("  CLI error: {e}"),
                    }
                }
                println!("  {agree}/{tried} accepted projects: CLI exit 0 and artifacts identical to the in-process compile");
                if agree != tried { failures.push("CLI and in-process compile disagree".into()); }
                // an invalid project: exit code 1
                if let Some((_, p, _)) = accepted.first() {
                    let mut r = Rng::new(seed, 77);
                    if let Some(q) = mutate_fault(&mut r, p, FaultKind::UnusedVariable) {
                        if let Ok(c) = compile_via_cli_subprocess(&q) { println!("  mutant: CLI class {}", c.class()); if c.class() != "diagnostics" { failures.push("CLI accepted a mutant".into()); } }
                    }
                }
                // a cyclic project: the in-process compile cannot be used (stack overflow aborts the process)
                let mut cyc = GenOpts::default();
                cyc.allow_cycles = true;
                let mut classes: BTreeMap<String, usize> = BTreeMap::new();
                for i in 0..6 {
                    let mut r = Rng::new(seed ^ 0xc1c, i);
                    let p = generate(&mut r, &cyc);
                    if let Ok(c) = compile_via_cli_subprocess(&p) { *classes.entry(c.class()).or_default() += 1; }
                }
                println!("  6 projects with a client-field cycle (allow_cycles): {:?}", classes);
            }
        }
    }

    // ---- 8. leftovers, memory -----------------------------------------------------------------
    let prefix = format!("hx_proj_{}_", std::process::id());
    let left: Vec<String> = std::fs::read_dir("/tmp").map(|rd| rd.flatten().map(|e| e.file_name().to_string_lossy().to_string()).filter(|n| n.starts_with(&prefix)).collect()).unwrap_or_default();
    println!("== leftovers under /tmp: {}   resident memory: {:.0} MB   wall: {:.0} s", left.len(), rss_mb(), t0.elapsed().as_secs_f64());
    if !left.is_empty() { failures.push(format!("left behind: {left:?}")); }
    if failures.is_empty() {
        println!("SMOKE OK");
    } else {
        println!("SMOKE FAILED:");
        for f in &failures { println!("  - {f}"); }
        std::process::exit(1);
    }
}
