fn main() {}
