//! The wire format shared with `lean/IsoVerif/Model/Core/Wire.lean`: one line, tokens separated by
//! single spaces, every construct introduced by a tag token, every string hex-encoded (UTF-8
//! bytes, `-` for the empty string), so the encoding is prefix-free and needs no escaping.
//!
//! ```text
//! project  := "P" options list(typedef) list(ext) list(filedecl) list(extra)
//! options  := "O" str opt(str) ("esm"|"cjs") bool opt(str) opt(persisted) bool ("ignore"|"warn"|"error")
//!               -- project_root artifact_directory module include_file_extensions header
//!               -- persisted_documents no_babel_transform on_invalid_id_type
//! persisted:= "pd" opt(str) ("md5"|"sha256") bool          -- file algorithm include_extra_info
//! typedef  := "ty" str opt(str) kind                        -- name description
//! kind     := "obj" list(str) list(fielddef) | "ifc" list(str) list(fielddef) | "uni" list(str)
//!           | "sca" | "enu" list(str) | "inp" list(argdef)
//! fielddef := "fd" str opt(str) list(argdef) typeref        -- name description args type
//! argdef   := "ad" str opt(str) typeref opt(value)          -- name description type default
//! typeref  := "n" str | "l" typeref | "b" typeref           -- named, list, non-null ("bang")
//! value    := "vi" int | "vf" str | "vb" bool | "vn" | "ve" str | "vs" str | "vv" str
//!           | "vo" list(field) | "vl" list(value)
//! field    := "of" str value
//! ext      := "ex" str list(expose)                         -- on_type
//! expose   := "xf" list(str) opt(str) list(map)             -- path as field_map
//! map      := "mp" str str                                  -- from to
//! filedecl := "d" str decl                                  -- source file path
//! decl     := "cf" str str list(vardef) list(dir) opt(str) list(sel)            -- parent name …
//!           | "cp" str str typeref list(vardef) list(dir) opt(str) list(sel)    -- parent name to …
//!           | "ep" str str list(dir)
//! vardef   := "vd" str typeref opt(value)
//! dir      := "di" str list(arg)
//! arg      := "ar" str value
//! sel      := "ss" head | "sl" head list(sel)
//! head     := opt(str) str list(arg) list(dir)              -- alias name args directives
//! extra    := "xx" str bytes                                -- path, content (hex, "-" if empty)
//! list(x)  := "[" x* "]"        opt(x) := "N" | "S" x       bool := "T" | "F"
//! int      := -?[0-9]+          str, bytes := lower-case hex | "-"
//! ```
use crate::model::*;
use hx_common::{hex, unhex};

struct Out(String);

impl Out {
    fn tok(&mut self, t: &str) {
        if !self.0.is_empty() {
            self.0.push(' ');
        }
        self.0.push_str(t);
    }
    fn str(&mut self, s: &str) {
        self.tok(&hex(s.as_bytes()));
    }
    fn bool(&mut self, b: bool) {
        self.tok(if b { "T" } else { "F" });
    }
    fn opt<T>(&mut self, o: &Option<T>, f: impl FnOnce(&mut Out, &T)) {
        match o {
            None => self.tok("N"),
            Some(x) => {
                self.tok("S");
                f(self, x);
            }
        }
    }
    fn list<T>(&mut self, xs: &[T], mut f: impl FnMut(&mut Out, &T)) {
        self.tok("[");
        for x in xs {
            f(self, x);
        }
        self.tok("]");
    }
    fn opt_str(&mut self, o: &Option<String>) {
        self.opt(o, |w, s| w.str(s));
    }
    fn strs(&mut self, xs: &[String]) {
        self.list(xs, |w, s| w.str(s));
    }
    fn typeref(&mut self, t: &TypeRef) {
        match t {
            TypeRef::Named(n) => {
                self.tok("n");
                self.str(n);
            }
            TypeRef::List(i) => {
                self.tok("l");
                self.typeref(i);
            }
            TypeRef::NonNull(i) => {
                self.tok("b");
                self.typeref(i);
            }
        }
    }
    fn value(&mut self, v: &Value) {
        match v {
            Value::Int(i) => {
                self.tok("vi");
                self.tok(&i.to_string());
            }
            Value::Float(s) => {
                self.tok("vf");
                self.str(s);
            }
            Value::Bool(b) => {
                self.tok("vb");
                self.bool(*b);
            }
            Value::Null => self.tok("vn"),
            Value::Enum(s) => {
                self.tok("ve");
                self.str(s);
            }
            Value::Str(s) => {
                self.tok("vs");
                self.str(s);
            }
            Value::Var(s) => {
                self.tok("vv");
                self.str(s);
            }
            Value::Object(fs) => {
                self.tok("vo");
                self.list(fs, |w, (k, v)| {
                    w.tok("of");
                    w.str(k);
                    w.value(v);
                });
            }
            Value::List(vs) => {
                self.tok("vl");
                self.list(vs, |w, v| w.value(v));
            }
        }
    }
    fn argdef(&mut self, a: &ArgDef) {
        self.tok("ad");
        self.str(&a.name);
        self.opt_str(&a.description);
        self.typeref(&a.ty);
        self.opt(&a.default, |w, v| w.value(v));
    }
    fn fielddef(&mut self, f: &FieldDef) {
        self.tok("fd");
        self.str(&f.name);
        self.opt_str(&f.description);
        self.list(&f.args, |w, a| w.argdef(a));
        self.typeref(&f.ty);
    }
    fn typedef(&mut self, t: &TypeDef) {
        self.tok("ty");
        self.str(&t.name);
        self.opt_str(&t.description);
        match &t.kind {
            TypeKind::Object { implements, fields } => {
                self.tok("obj");
                self.strs(implements);
                self.list(fields, |w, f| w.fielddef(f));
            }
            TypeKind::Interface { implements, fields } => {
                self.tok("ifc");
                self.strs(implements);
                self.list(fields, |w, f| w.fielddef(f));
            }
            TypeKind::Union { members } => {
                self.tok("uni");
                self.strs(members);
            }
            TypeKind::Scalar => self.tok("sca"),
            TypeKind::Enum { values } => {
                self.tok("enu");
                self.strs(values);
            }
            TypeKind::Input { fields } => {
                self.tok("inp");
                self.list(fields, |w, a| w.argdef(a));
            }
        }
    }
    fn args(&mut self, a: &[(String, Value)]) {
        self.list(a, |w, (k, v)| {
            w.tok("ar");
            w.str(k);
            w.value(v);
        });
    }
    fn dirs(&mut self, ds: &[Directive]) {
        self.list(ds, |w, d| {
            w.tok("di");
            w.str(&d.name);
            w.args(&d.args);
        });
    }
    fn vardefs(&mut self, vs: &[VarDef]) {
        self.list(vs, |w, v| {
            w.tok("vd");
            w.str(&v.name);
            w.typeref(&v.ty);
            w.opt(&v.default, |w, v| w.value(v));
        });
    }
    fn head(&mut self, h: &SelHead) {
        self.opt_str(&h.alias);
        self.str(&h.name);
        self.args(&h.args);
        self.dirs(&h.directives);
    }
    fn sels(&mut self, ss: &[Selection]) {
        self.list(ss, |w, s| match s {
            Selection::Scalar(h) => {
                w.tok("ss");
                w.head(h);
            }
            Selection::Linked(h, k) => {
                w.tok("sl");
                w.head(h);
                w.sels(k);
            }
        });
    }
    fn decl(&mut self, d: &Decl) {
        match d {
            Decl::ClientField(f) => {
                self.tok("cf");
                self.str(&f.parent);
                self.str(&f.name);
                self.vardefs(&f.vars);
                self.dirs(&f.directives);
                self.opt_str(&f.description);
                self.sels(&f.selections);
            }
            Decl::ClientPointer(f) => {
                self.tok("cp");
                self.str(&f.parent);
                self.str(&f.name);
                self.typeref(&f.to);
                self.vardefs(&f.vars);
                self.dirs(&f.directives);
                self.opt_str(&f.description);
                self.sels(&f.selections);
            }
            Decl::Entrypoint(e) => {
                self.tok("ep");
                self.str(&e.parent);
                self.str(&e.name);
                self.dirs(&e.directives);
            }
        }
    }
    fn options(&mut self, o: &Options) {
        self.tok("O");
        self.str(&o.project_root);
        self.opt_str(&o.artifact_directory);
        self.tok(match o.module {
            ModuleKind::EsModule => "esm",
            ModuleKind::CommonJs => "cjs",
        });
        self.bool(o.include_file_extensions_in_import_statements);
        self.opt_str(&o.generated_file_header);
        self.opt(&o.persisted_documents, |w, p| {
            w.tok("pd");
            w.opt_str(&p.file);
            w.tok(match p.algorithm {
                HashAlgorithm::Md5 => "md5",
                HashAlgorithm::Sha256 => "sha256",
            });
            w.bool(p.include_extra_info);
        });
        self.bool(o.no_babel_transform);
        self.tok(match o.on_invalid_id_type {
            ValidationLevel::Ignore => "ignore",
            ValidationLevel::Warn => "warn",
            ValidationLevel::Error => "error",
        });
    }
}

/// Single-line encoding of a project.
pub fn to_wire(p: &Project) -> String {
    let mut w = Out(String::new());
    w.tok("P");
    w.options(&p.options);
    w.list(&p.schema.types, |w, t| w.typedef(t));
    w.list(&p.extensions, |w, e| {
        w.tok("ex");
        w.str(&e.on_type);
        w.list(&e.expose, |w, x| {
            w.tok("xf");
            w.strs(&x.path);
            w.opt_str(&x.as_name);
            w.list(&x.field_map, |w, (f, t)| {
                w.tok("mp");
                w.str(f);
                w.str(t);
            });
        });
    });
    w.list(&p.decls, |w, (path, d)| {
        w.tok("d");
        w.str(path);
        w.decl(d);
    });
    w.list(&p.extra_files, |w, (path, bytes)| {
        w.tok("xx");
        w.str(path);
        w.tok(&hex(bytes));
    });
    w.0
}

/// Encodings of parts (same grammar), for line protocols that send less than a project.
pub fn value_to_wire(v: &Value) -> String {
    let mut w = Out(String::new());
    w.value(v);
    w.0
}
pub fn typeref_to_wire(t: &TypeRef) -> String {
    let mut w = Out(String::new());
    w.typeref(t);
    w.0
}
pub fn decl_to_wire(d: &Decl) -> String {
    let mut w = Out(String::new());
    w.decl(d);
    w.0
}
pub fn schema_to_wire(s: &Schema) -> String {
    let mut w = Out(String::new());
    w.list(&s.types, |w, t| w.typedef(t));
    w.0
}

// ---------------------------------------------------------------------------------------------
// parser (the mirror image; the Lean side has the same structure)
// ---------------------------------------------------------------------------------------------

struct In<'a> {
    toks: Vec<&'a str>,
    pos: usize,
}

type R<T> = Option<T>;

impl<'a> In<'a> {
    fn next(&mut self) -> R<&'a str> {
        let t = *self.toks.get(self.pos)?;
        self.pos += 1;
        Some(t)
    }
    fn expect(&mut self, t: &str) -> R<()> {
        if self.next()? == t {
            Some(())
        } else {
            None
        }
    }
    fn str(&mut self) -> R<String> {
        String::from_utf8(unhex(self.next()?)?).ok()
    }
    fn bool(&mut self) -> R<bool> {
        match self.next()? {
            "T" => Some(true),
            "F" => Some(false),
            _ => None,
        }
    }
    fn opt<T>(&mut self, f: impl FnOnce(&mut Self) -> R<T>) -> R<Option<T>> {
        match self.next()? {
            "N" => Some(None),
            "S" => Some(Some(f(self)?)),
            _ => None,
        }
    }
    fn list<T>(&mut self, mut f: impl FnMut(&mut Self) -> R<T>) -> R<Vec<T>> {
        self.expect("[")?;
        let mut out = vec![];
        loop {
            if *self.toks.get(self.pos)? == "]" {
                self.pos += 1;
                return Some(out);
            }
            out.push(f(self)?);
        }
    }
    fn opt_str(&mut self) -> R<Option<String>> {
        self.opt(|p| p.str())
    }
    fn strs(&mut self) -> R<Vec<String>> {
        self.list(|p| p.str())
    }
    fn typeref(&mut self) -> R<TypeRef> {
        match self.next()? {
            "n" => Some(TypeRef::Named(self.str()?)),
            "l" => Some(TypeRef::List(Box::new(self.typeref()?))),
            "b" => Some(TypeRef::NonNull(Box::new(self.typeref()?))),
            _ => None,
        }
    }
    fn value(&mut self) -> R<Value> {
        match self.next()? {
            "vi" => {
                let t = self.next()?;
                let digits = t.strip_prefix('-').unwrap_or(t);
                if digits.is_empty() || !digits.bytes().all(|b| b.is_ascii_digit()) {
                    return None;
                }
                Some(Value::Int(t.parse().ok()?))
            }
            "vf" => Some(Value::Float(self.str()?)),
            "vb" => Some(Value::Bool(self.bool()?)),
            "vn" => Some(Value::Null),
            "ve" => Some(Value::Enum(self.str()?)),
            "vs" => Some(Value::Str(self.str()?)),
            "vv" => Some(Value::Var(self.str()?)),
            "vo" => Some(Value::Object(self.list(|p| {
                p.expect("of")?;
                Some((p.str()?, p.value()?))
            })?)),
            "vl" => Some(Value::List(self.list(|p| p.value())?)),
            _ => None,
        }
    }
    fn argdef(&mut self) -> R<ArgDef> {
        self.expect("ad")?;
        Some(ArgDef { name: self.str()?, description: self.opt_str()?, ty: self.typeref()?, default: self.opt(|p| p.value())? })
    }
    fn fielddef(&mut self) -> R<FieldDef> {
        self.expect("fd")?;
        Some(FieldDef { name: self.str()?, description: self.opt_str()?, args: self.list(|p| p.argdef())?, ty: self.typeref()? })
    }
    fn typedef(&mut self) -> R<TypeDef> {
        self.expect("ty")?;
        let name = self.str()?;
        let description = self.opt_str()?;
        let kind = match self.next()? {
            "obj" => TypeKind::Object { implements: self.strs()?, fields: self.list(|p| p.fielddef())? },
            "ifc" => TypeKind::Interface { implements: self.strs()?, fields: self.list(|p| p.fielddef())? },
            "uni" => TypeKind::Union { members: self.strs()? },
            "sca" => TypeKind::Scalar,
            "enu" => TypeKind::Enum { values: self.strs()? },
            "inp" => TypeKind::Input { fields: self.list(|p| p.argdef())? },
            _ => return None,
        };
        Some(TypeDef { name, description, kind })
    }
    fn args(&mut self) -> R<Vec<(String, Value)>> {
        self.list(|p| {
            p.expect("ar")?;
            Some((p.str()?, p.value()?))
        })
    }
    fn dirs(&mut self) -> R<Vec<Directive>> {
        self.list(|p| {
            p.expect("di")?;
            Some(Directive { name: p.str()?, args: p.args()? })
        })
    }
    fn vardefs(&mut self) -> R<Vec<VarDef>> {
        self.list(|p| {
            p.expect("vd")?;
            Some(VarDef { name: p.str()?, ty: p.typeref()?, default: p.opt(|p| p.value())? })
        })
    }
    fn head(&mut self) -> R<SelHead> {
        Some(SelHead { alias: self.opt_str()?, name: self.str()?, args: self.args()?, directives: self.dirs()? })
    }
    fn sels(&mut self) -> R<Vec<Selection>> {
        self.list(|p| match p.next()? {
            "ss" => Some(Selection::Scalar(p.head()?)),
            "sl" => Some(Selection::Linked(p.head()?, p.sels()?)),
            _ => None,
        })
    }
    fn decl(&mut self) -> R<Decl> {
        match self.next()? {
            "cf" => Some(Decl::ClientField(ClientField {
                parent: self.str()?,
                name: self.str()?,
                vars: self.vardefs()?,
                directives: self.dirs()?,
                description: self.opt_str()?,
                selections: self.sels()?,
            })),
            "cp" => Some(Decl::ClientPointer(ClientPointer {
                parent: self.str()?,
                name: self.str()?,
                to: self.typeref()?,
                vars: self.vardefs()?,
                directives: self.dirs()?,
                description: self.opt_str()?,
                selections: self.sels()?,
            })),
            "ep" => Some(Decl::Entrypoint(Entrypoint { parent: self.str()?, name: self.str()?, directives: self.dirs()? })),
            _ => None,
        }
    }
    fn options(&mut self) -> R<Options> {
        self.expect("O")?;
        Some(Options {
            project_root: self.str()?,
            artifact_directory: self.opt_str()?,
            module: match self.next()? {
                "esm" => ModuleKind::EsModule,
                "cjs" => ModuleKind::CommonJs,
                _ => return None,
            },
            include_file_extensions_in_import_statements: self.bool()?,
            generated_file_header: self.opt_str()?,
            persisted_documents: self.opt(|p| {
                p.expect("pd")?;
                Some(PersistedDocuments {
                    file: p.opt_str()?,
                    algorithm: match p.next()? {
                        "md5" => HashAlgorithm::Md5,
                        "sha256" => HashAlgorithm::Sha256,
                        _ => return None,
                    },
                    include_extra_info: p.bool()?,
                })
            })?,
            no_babel_transform: self.bool()?,
            on_invalid_id_type: match self.next()? {
                "ignore" => ValidationLevel::Ignore,
                "warn" => ValidationLevel::Warn,
                "error" => ValidationLevel::Error,
                _ => return None,
            },
        })
    }
}

/// Inverse of `to_wire`; `None` on anything that `to_wire` cannot have produced.
pub fn from_wire(s: &str) -> Option<Project> {
    let mut p = In { toks: s.split(' ').collect(), pos: 0 };
    p.expect("P")?;
    let options = p.options()?;
    let types = p.list(|p| p.typedef())?;
    let extensions = p.list(|p| {
        p.expect("ex")?;
        Some(Extension {
            on_type: p.str()?,
            expose: p.list(|p| {
                p.expect("xf")?;
                Some(ExposeField {
                    path: p.strs()?,
                    as_name: p.opt_str()?,
                    field_map: p.list(|p| {
                        p.expect("mp")?;
                        Some((p.str()?, p.str()?))
                    })?,
                })
            })?,
        })
    })?;
    let decls = p.list(|p| {
        p.expect("d")?;
        Some((p.str()?, p.decl()?))
    })?;
    let extra_files = p.list(|p| {
        p.expect("xx")?;
        Some((p.str()?, unhex(p.next()?)?))
    })?;
    if p.pos != p.toks.len() {
        return None;
    }
    Some(Project { schema: Schema { types }, extensions, decls, options, extra_files })
}
