//! THE table that maps compiler diagnostic messages to short stable kinds.  Message wording is
//! never compared anywhere else; if /repo rewords a message, only this file changes.
//!
//! A rule is `(how, needle, kind)`; rules are tried in order, first hit wins; no hit = `other`.

#[derive(Clone, Copy, Debug, PartialEq, Eq)]
pub enum How {
    Prefix,
    Contains,
}
use How::*;

pub const OTHER: &str = "other";

pub const KIND_TABLE: &[(How, &str, &str)] = &[
    // ---- selection-set validation (validate_selection_sets.rs) ----
    (Contains, "is selected. However, `", "undefined-field"),
    (Contains, "is selected as a scalar. It should be selected as an object", "client-pointer-selected-as-scalar"),
    (Contains, "is selected as an object. It should be selected as a scalar", "client-field-selected-as-object"),
    (Contains, "to be an object. But it was a scalar", "scalar-selected-as-object"),
    (Contains, "to be a scalar. But it was an object", "object-selected-as-scalar"),
    (Prefix, "A field with name or alias `", "duplicate-response-name"),
    (Contains, "@loadable is not supported on selections of server scalar fields", "loadable-on-server-scalar"),
    (Contains, "@loadable is not supported on exposed fields", "loadable-on-exposed-field"),
    (Prefix, "@loadable is not supported on __link fields", "loadable-on-link"),
    (Contains, "@updatable is not supported on selections of client scalar fields", "updatable-on-client-field"),
    (Contains, "@updatable is not supported on client object fields", "updatable-on-client-pointer"),
    // ---- arguments (validate_use_of_arguments.rs, validate_argument_types.rs) ----
    (Contains, "has unused variables:", "unused-variable"),
    (Prefix, "This field has missing arguments:", "missing-argument"),
    (Prefix, "This field has extra arguments:", "undefined-argument"),
    (Prefix, "This variable is not defined:", "undeclared-variable"),
    (Prefix, "Mismatched type. Received $", "variable-type-mismatch"),
    (Prefix, "Mismatched type.", "value-type-mismatch"),
    (Prefix, "Expected input of type ", "value-type-mismatch"),
    (Prefix, "Expected non null input of type ", "null-for-non-null"),
    (Prefix, "Item did not match any union variants", "value-type-mismatch"),
    (Prefix, "This object has missing fields:", "object-missing-fields"),
    (Prefix, "This object has extra fields:", "object-extra-fields"),
    // ---- declarations ----
    (Contains, "` is not a type that has been defined.", "undefined-type"),
    (Prefix, "Invalid parent type.", "client-field-on-scalar"),
    (Prefix, "Invalid client pointer target type.", "pointer-to-scalar"),
    (Contains, "is not supported on client pointers.", "directive-on-pointer"),
    (Prefix, "Multiple definitions of `", "multiple-definitions"),
    (Contains, "` is not defined.", "not-defined"),
    (Contains, "but that type has not been defined", "schema-undefined-type"),
    (Contains, "must have type `ID!`", "invalid-id-type"),
    (Prefix, "Entrypoint declared lazy in one location", "entrypoint-lazy-mismatch"),
    (Contains, "to be client field. But it was", "entrypoint-not-client-field"),
    (Contains, " is not fetchable.", "not-fetchable"),
    // ---- literal extraction / iso parser ----
    (Prefix, "You must call the iso function with parentheses", "iso-without-parens"),
    (Prefix, "Isograph literals must be immediately called", "iso-not-called"),
    (Prefix, "Isograph literals must start with on", "iso-bad-keyword"),
    (Prefix, "Leftover tokens remaining", "iso-leftover-tokens"),
    (Prefix, "Selection sets are required.", "iso-missing-selection-set"),
    (Prefix, "This isograph ", "iso-not-exported"),
    (Prefix, "Unexpectedly found a period", "iso-fragment-spread"),
    (Prefix, "Expected comma or line break", "iso-expected-separator"),
    (Prefix, "Expected a line break", "iso-expected-separator"),
    (Prefix, "Expected the keyword `to`", "iso-expected-to"),
    (Prefix, "Expected null or a boolean value", "iso-bad-identifier-value"),
    (Prefix, "Expected a valid value", "iso-bad-value"),
    (Prefix, "Expected a type (e.g.", "expected-type"),
    (Prefix, "Found a variable, like $foo", "iso-variable-in-default"),
    // directive deserialisation (from_isograph_field_directives / from_graphql_directives)
    (Contains, "unknown field", "bad-directive"),
    (Contains, "unknown variant", "bad-directive"),
    (Contains, "missing field", "bad-directive"),
    (Contains, "invalid type", "bad-directive"),
    (Contains, "duplicate field", "bad-directive"),
    // ---- schema parser ----
    (Prefix, "Expected extend, scalar, type", "schema-syntax"),
    (Prefix, "Expected scalar, type", "schema-syntax"),
    (Prefix, "Expected directive location", "schema-syntax"),
    (Prefix, "Enum values cannot be", "schema-syntax"),
    (Prefix, "Root operation types", "schema-syntax"),
    (Prefix, "Expected schema, mutation or subscription", "schema-syntax"),
    (Prefix, "Invalid integer value", "schema-syntax"),
    (Prefix, "Invalid float value", "schema-syntax"),
    (Prefix, "Unable to parse constant value", "schema-syntax"),
    (Prefix, "Duplicate schema definition", "schema-duplicate-schema-definition"),
    (Prefix, "Mutation field not found", "expose-field-not-found"),
    (Prefix, "Invalid @exposeField directive.", "expose-field-invalid"),
    // generic token errors of both hand-written lexers: "Expected <kind>, found <kind>."
    (Prefix, "Expected identifier, found", "syntax-expected-token"),
    (Prefix, "Expected ", "syntax-expected-token"),
    // ---- I/O ----
    (Prefix, "Unable to ", "io"),
    (Prefix, "Attempted to load the schema", "io"),
    (Prefix, "Schema not found.", "io"),
];

pub fn classify_message(message: &str) -> &'static str {
    for (how, needle, kind) in KIND_TABLE {
        let hit = match how {
            Prefix => message.starts_with(needle),
            Contains => message.contains(needle),
        };
        if hit {
            return kind;
        }
    }
    OTHER
}
