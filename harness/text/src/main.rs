//! Engine `text`: signedsource (C33) and text_with_carats (C31) against the real crates.
use common_lang_types::{text_with_carats, Span};
use hx_common::*;
use std::panic::{catch_unwind, AssertUnwindSafe};

fn floor_boundary(s: &str, mut pos: usize) -> usize {
    if pos > s.len() {
        pos = s.len();
    }
    while !s.is_char_boundary(pos) {
        pos -= 1;
    }
    pos
}

/// Replace the character starting at `pos` by `rep` (same rule as `editAt` in Driver/Text.lean).
fn edit_at(s: &str, pos: usize, rep: &str) -> String {
    let pos = floor_boundary(s, pos);
    let clen = s[pos..].chars().next().map(|c| c.len_utf8()).unwrap_or(0);
    format!("{}{}{}", &s[..pos], rep, &s[pos + clen..])
}

fn gen_signed(r: &mut Rng) -> String {
    let pieces = r.range(1, 4);
    let mut data = String::new();
    for i in 0..pieces {
        data.push_str(&gen_text(r, 12, MIXED_ALPHABET));
        if i + 1 < pieces {
            match r.below(20) {
                0 => data.push_str(signedsource::NEWTOKEN), // bare token without "@generated "
                1 => data.push_str("\x40generated SignedSource<<0123456789abcdef0123456789abcdef>>"),
                2 => data.push_str("\x40generated SignedSource<<0123456789abcdef0123456789abcde"),
                3 => data.push_str("\x40generated "),
                4 => data.push_str("SignedSource<<"),
                _ => data.push_str(signedsource::SIGNING_TOKEN),
            }
        }
    }
    let signed = signedsource::try_sign_file(&data).unwrap_or_default();
    let pos = if signed.is_empty() { 0 } else { floor_boundary(&signed, r.below(signed.len())) };
    let rep = match r.below(6) {
        0 => "",
        1 => "é",
        2 => "0",
        3 => "f",
        _ => *r.pick(MIXED_ALPHABET),
    };
    format!("signed.c33\t{}\t{}\t{}", hex(data.as_bytes()), pos, hex(rep.as_bytes()))
}

fn run_signed(f: &[&str]) -> String {
    let data = String::from_utf8(unhex(f[1]).unwrap()).unwrap();
    let pos: usize = f[2].parse().unwrap();
    let rep = String::from_utf8(unhex(f[3]).unwrap()).unwrap();
    match catch_unwind(AssertUnwindSafe(|| match signedsource::try_sign_file(&data) {
        None => "none".to_string(),
        Some(signed) => {
            let v1 = signedsource::is_valid_signature(&signed);
            let edited = edit_at(&signed, pos, &rep);
            let v2 = signedsource::is_valid_signature(&edited);
            format!("{}\t{}\t{}", hex(signed.as_bytes()), v1, v2)
        }
    })) {
        Ok(s) => s,
        Err(_) => "panic".to_string(),
    }
}

fn gen_carats(r: &mut Rng) -> String {
    let text = if r.chance(1, 8) {
        gen_text(r, 200, &["a", "b", "\n", "\n", " ", "é", "😀"])
    } else {
        gen_text(r, 40, MIXED_ALPHABET)
    };
    let bounds: Vec<usize> = (0..=text.len()).filter(|i| text.is_char_boundary(*i)).collect();
    let (s, e) = match r.below(12) {
        0 => {
            // malformed stream: arbitrary byte offsets, possibly off boundaries / outside the text
            let a = r.below(text.len() + 4);
            let b = r.below(text.len() + 4);
            (a.min(b), a.max(b))
        }
        _ => {
            let a = *r.pick(&bounds);
            let b = *r.pick(&bounds);
            (a.min(b), a.max(b))
        }
    };
    let outer = if r.chance(1, 2) { 0 } else { r.below(s + 1) };
    format!("carats.render\t{}\t{}\t{}\t{}", hex(text.as_bytes()), outer, s - outer, e - outer)
}

fn run_carats(f: &[&str]) -> String {
    let text = String::from_utf8(unhex(f[1]).unwrap()).unwrap();
    let outer: u32 = f[2].parse().unwrap();
    let s: u32 = f[3].parse().unwrap();
    let e: u32 = f[4].parse().unwrap();
    match catch_unwind(AssertUnwindSafe(|| {
        let outer_span = if outer == 0 { None } else { Some(Span::new(outer, outer)) };
        let (out, rc) = text_with_carats(&text, outer_span, Span::new(s, e), false);
        let row = match rc {
            Some((r, _c)) => r.0.get().to_string(),
            None => "none".to_string(),
        };
        format!("ok\t{}\t{}", hex(out.as_bytes()), row)
    })) {
        Ok(s) => s,
        Err(_) => "panic".to_string(),
    }
}

fn main() {
    colored::control::set_override(false);
    let which = std::env::var("HX_ENGINE").unwrap_or_default();
    main_loop(
        &|r, _i| match which.as_str() {
            "signed" => vec![gen_signed(r)],
            "carats" => vec![gen_carats(r)],
            _ => vec![gen_signed(r), gen_carats(r)],
        },
        &mut |f| match f[0] {
            "signed.c33" => run_signed(f),
            "carats.render" => run_carats(f),
            _ => "bad-op".to_string(),
        },
    );
}
