use hx_common::*;
use isograph_lang_parser::IsographLangTokenKind;
use logos::Logos;
use std::panic::{catch_unwind, AssertUnwindSafe};

fn run_lex(f: &[&str]) -> String {
    let text = String::from_utf8(unhex(f[1]).unwrap()).unwrap();
    match catch_unwind(AssertUnwindSafe(|| {
        let mut lx = IsographLangTokenKind::lexer(&text);
        let mut out = vec![];
        while let Some(k) = lx.next() {
            out.push(format!("{:?}:{}:{}", k, lx.span().start, lx.span().end));
        }
        out.push(format!("eof:{}:{}", lx.span().start, lx.span().end));
        out.join(",")
    })) {
        Ok(s) => s,
        Err(_) => "panic".to_string(),
    }
}

fn main() {
    main_loop(&|_r, _i| vec![], &mut |f| match f[0] {
        "iso.lex" => run_lex(f),
        _ => "bad-op".to_string(),
    });
}
