//! Engines for the iso-literal family (C07, C32) against the real crates:
//!   iso.lex      <hex text>            -> the logos token stream (kind:start:end,...,eof:s:e)
//!   iso.parse    <hex text> <0|1> [generator class]  -> ok <tree with every span> <semantic tokens> | diag <kind> <span> | panic
//!   iso.resolve  <hex text>            -> noparse | tree <generic span tree (hook)> <run-compressed chains for EVERY offset>
//! Select the generator with HX_ENGINE = isolex | isoparse | resolve.
use common_lang_types::{Location, Span, TextSource, WithEmbeddedLocation, WithGenericLocation};
use hx_common::*;
use intern::string_key::Intern;
use isograph_lang_parser::{
    parse_iso_literal, verif_dump_tree, verif_resolve_chain, IsoLiteralExtractionResult,
    IsographLangTokenKind, VerifNode,
};
use isograph_lang_types::{
    ConstantValue, IsographFieldDirective, IsographSemanticToken, LineBehavior, NonConstantValue,
    ObjectSelectionDirectiveSet, ScalarSelectionDirectiveSet, Selection, SelectionFieldArgument,
    SelectionSet, SelectionType, TypeAnnotationDeclaration, UnionVariant, VariableDeclaration,
};
use logos::Logos;
use std::panic::{catch_unwind, AssertUnwindSafe};

mod gen;

// ------------------------------------------------------------------------------------------ lex
fn run_lex(f: &[&str]) -> String {
    let text = String::from_utf8(unhex(f[1]).unwrap()).unwrap();
    match catch_unwind(AssertUnwindSafe(|| {
        let mut lx = IsographLangTokenKind::lexer(&text);
        let mut out = vec![];
        while let Some(k) = lx.next() {
            out.push(format!("{:?}:{}:{}", k, lx.span().start, lx.span().end));
        }
        out.push(format!("eof:{}:{}", lx.span().start, lx.span().end));
        out.join(",")
    })) {
        Ok(s) => s,
        Err(_) => "panic".to_string(),
    }
}

// ------------------------------------------------------------------------------------------ dump
fn sp(s: Span) -> String {
    format!("@{}:{}", s.start, s.end)
}
fn at<T>(w: &WithEmbeddedLocation<T>) -> String {
    sp(w.location.span)
}
fn list(items: Vec<String>) -> String {
    format!("[{}]", items.join(";"))
}

fn value(v: &NonConstantValue) -> String {
    match v {
        NonConstantValue::Variable(n) => format!("${}", n),
        NonConstantValue::Integer(i) => format!("i{}", i),
        NonConstantValue::Boolean(b) => format!("b{}", b),
        NonConstantValue::String(s) => format!("s{}", hex(s.to_string().as_bytes())),
        NonConstantValue::Null => "n".to_string(),
        NonConstantValue::Object(o) => format!(
            "{{{}}}",
            o.iter()
                .map(|p| format!("{}{}:{}{}", p.name.item, at(&p.name), value(&p.value.item), at(&p.value)))
                .collect::<Vec<_>>()
                .join(";")
        ),
        NonConstantValue::Float(_) => "?float".to_string(),
        NonConstantValue::Enum(_) => "?enum".to_string(),
        NonConstantValue::List(_) => "?list".to_string(),
    }
}

fn args(a: &[WithEmbeddedLocation<SelectionFieldArgument>]) -> String {
    list(
        a.iter()
            .map(|x| {
                format!(
                    "A({}{},{}{}){}",
                    x.item.name.item,
                    at(&x.item.name),
                    value(&x.item.value.item),
                    at(&x.item.value),
                    at(x)
                )
            })
            .collect(),
    )
}

fn dirs(d: &WithEmbeddedLocation<Vec<WithEmbeddedLocation<IsographFieldDirective>>>) -> String {
    format!(
        "{}{}",
        list(
            d.item
                .iter()
                .map(|x| format!("D({}{},{}){}", x.item.name.item, at(&x.item.name), args(&x.item.arguments), at(x)))
                .collect()
        ),
        at(d)
    )
}

fn ty(t: &TypeAnnotationDeclaration) -> String {
    match t {
        TypeAnnotationDeclaration::Scalar(n) => format!("{}!", n),
        TypeAnnotationDeclaration::Plural(inner) => format!("[{}{}]!", ty(&inner.item), at(inner)),
        TypeAnnotationDeclaration::Union(u) => {
            if u.nullable && u.variants.len() == 1 {
                match u.variants.iter().next().unwrap() {
                    UnionVariant::Scalar(n) => format!("{}", n),
                    UnionVariant::Plural(inner) => format!("[{}{}]", ty(&inner.item), at(inner)),
                }
            } else {
                "?union".to_string()
            }
        }
    }
}

fn vars(v: &[WithEmbeddedLocation<VariableDeclaration>]) -> String {
    list(
        v.iter()
            .map(|x| {
                let def = match &x.item.default_value {
                    None => "-".to_string(),
                    Some(d) => {
                        let c: ConstantValue = d.item.clone();
                        let nc: NonConstantValue = c.into();
                        format!("{}{}", value(&nc), sp(d.location.span))
                    }
                };
                format!(
                    "V({}{},{}{},{}){}",
                    x.item.name.item,
                    sp(x.item.name.location.span),
                    ty(&x.item.type_.item),
                    sp(x.item.type_.location.span),
                    def,
                    at(x)
                )
            })
            .collect(),
    )
}

fn desc<T: std::fmt::Display>(d: &Option<WithEmbeddedLocation<T>>) -> String {
    match d {
        None => "-".to_string(),
        Some(d) => format!("d{}{}", hex(d.item.to_string().as_bytes()), at(d)),
    }
}

fn alias<T: std::fmt::Display>(a: &Option<WithEmbeddedLocation<T>>) -> String {
    match a {
        None => "-".to_string(),
        Some(a) => format!("{}{}", a.item, at(a)),
    }
}

fn selset(s: &WithEmbeddedLocation<SelectionSet>) -> String {
    format!(
        "{{{}}}{}",
        s.item.selections.iter().map(selection).collect::<Vec<_>>().join(";"),
        at(s)
    )
}

fn selection(s: &WithEmbeddedLocation<Selection>) -> String {
    match &s.item {
        SelectionType::Scalar(x) => format!(
            "S({},{}{},{},{}){}",
            alias(&x.reader_alias),
            x.name.item,
            at(&x.name),
            args(&x.arguments),
            match x.scalar_selection_directive_set {
                ScalarSelectionDirectiveSet::None(_) => "none".to_string(),
                ScalarSelectionDirectiveSet::Updatable(_) => "updatable".to_string(),
                ScalarSelectionDirectiveSet::Loadable(l) => format!("loadable:{}", l.loadable.lazy_load_artifact),
            },
            at(s)
        ),
        SelectionType::Object(x) => format!(
            "O({},{}{},{},{},{}){}",
            alias(&x.reader_alias),
            x.name.item,
            at(&x.name),
            args(&x.arguments),
            match x.object_selection_directive_set {
                ObjectSelectionDirectiveSet::None(_) => "none",
                ObjectSelectionDirectiveSet::Updatable(_) => "updatable",
            },
            selset(&x.selection_set),
            at(s)
        ),
    }
}

fn sem_token(t: &IsographSemanticToken) -> String {
    let lb = match t.line_behavior {
        LineBehavior::StartsNewLine(b) => format!("N{}", b.space_after.0 as u8),
        LineBehavior::EndsLine(b) => format!("E{}", b.space_before.0 as u8),
        LineBehavior::Inline(b) => format!("I{}{}", b.space_before.0 as u8, b.space_after.0 as u8),
        LineBehavior::IsOwnLine => "O".to_string(),
        LineBehavior::Remove => "R".to_string(),
    };
    let ind = match t.indent_change {
        isograph_lang_types::semantic_token_legend::IndentChange::Indent => "+",
        isograph_lang_types::semantic_token_legend::IndentChange::Dedent => "-",
        isograph_lang_types::semantic_token_legend::IndentChange::Same => "=",
    };
    format!("{}{}{}", t.lsp_semantic_token.0, lb, ind)
}

fn dump(r: &IsoLiteralExtractionResult) -> String {
    let tree = match r {
        IsoLiteralExtractionResult::ClientFieldDeclaration(d) => {
            let i = &d.item;
            format!(
                "F({}{},{}{},{},{},{},{},{}){}",
                i.parent_type.item,
                at(&i.parent_type),
                i.client_field_name.item,
                at(&i.client_field_name),
                vars(&i.variable_definitions),
                dirs(&i.directive_set),
                desc(&i.description),
                selset(&i.selection_set),
                i.const_export_name,
                at(d)
            )
        }
        IsoLiteralExtractionResult::ClientPointerDeclaration(d) => {
            let i = &d.item;
            format!(
                "P({}{},{}{},{},{}{},{},{},{},{}){}",
                i.parent_type.item,
                at(&i.parent_type),
                i.client_pointer_name.item,
                at(&i.client_pointer_name),
                vars(&i.variable_definitions),
                ty(&i.target_type.item),
                at(&i.target_type),
                dirs(&i.directives),
                desc(&i.description),
                selset(&i.selection_set),
                i.const_export_name,
                at(d)
            )
        }
        IsoLiteralExtractionResult::EntrypointDeclaration(d) => {
            let i = &d.item;
            format!(
                "E({}{},{}{},kw{},dot{},{}){}",
                i.parent_type.item,
                at(&i.parent_type),
                i.client_field_name.item,
                at(&i.client_field_name),
                at(&i.entrypoint_keyword),
                at(&i.dot),
                dirs(&i.directive_set),
                at(d)
            )
        }
    };
    let toks: Vec<String> = r
        .semantic_tokens()
        .iter()
        .map(|t: &WithGenericLocation<IsographSemanticToken, _>| format!("{}{}", sem_token(&t.item), sp(t.location.span)))
        .collect();
    format!("{}\t{}", tree, if toks.is_empty() { "-".to_string() } else { toks.join(";") })
}

/// Diagnostic kinds by message prefix (wording is not compared).
fn diag_kind(m: &str) -> &'static str {
    const TABLE: &[(&str, &str)] = &[
        ("Isograph literals must start", "start"),
        ("Leftover tokens remaining", "leftover"),
        ("Selection sets are required", "selset"),
        ("This isograph", "export"),
        ("Expected the keyword `to`", "to"),
        ("Expected a line break", "linebreak"),
        ("Expected comma or line break", "sep"),
        ("Unexpectedly found a period", "spread"),
        ("Expected a valid integer", "int"),
        ("Expected null or a boolean", "bool"),
        ("Expected a valid value", "value"),
        ("Found a variable", "const"),
        ("Expected a type", "type"),
        ("Error when deserializing", "directive"),
    ];
    for (p, k) in TABLE {
        if m.starts_with(p) {
            return k;
        }
    }
    if m.starts_with("Expected ") && m.contains(", but found ") {
        return "tok";
    }
    "unknown"
}

fn parse(text: &str, export: bool) -> Result<IsoLiteralExtractionResult, common_lang_types::Diagnostic> {
    let ts = TextSource { relative_path_to_source_file: "f.ts".intern().into(), span: None };
    parse_iso_literal(
        text.to_string(),
        "f.ts".intern().into(),
        if export { Some("x".to_string()) } else { None },
        ts,
    )
}

fn run_parse(f: &[&str]) -> String {
    let text = String::from_utf8(unhex(f[1]).unwrap()).unwrap();
    let export = f[2] == "1";
    match catch_unwind(AssertUnwindSafe(|| match parse(&text, export) {
        Ok(r) => format!("ok\t{}", dump(&r)),
        Err(d) => {
            let loc = match d.0.location {
                None => "none".to_string(),
                Some(Location::Generated) => "gen".to_string(),
                Some(Location::Embedded(e)) => format!("{}:{}", e.span.start, e.span.end),
            };
            format!("diag\t{}\t{}", diag_kind(&d.0.message), loc)
        }
    })) {
        Ok(s) => s,
        Err(_) => "panic".to_string(),
    }
}

// ------------------------------------------------------------------------------------------ resolve
fn dump_generic(n: &VerifNode, out: &mut String, index: &mut Vec<(&'static str, usize, Span)>) {
    index.push((n.kind, n.addr, n.span));
    out.push_str(&format!("{}@{}:{}", n.kind, n.span.start, n.span.end));
    if !n.children.is_empty() {
        out.push('(');
        for (i, c) in n.children.iter().enumerate() {
            if i > 0 {
                out.push(',');
            }
            dump_generic(c, out, index);
        }
        out.push(')');
    }
}

fn run_resolve(f: &[&str]) -> String {
    let text = String::from_utf8(unhex(f[1]).unwrap()).unwrap();
    match catch_unwind(AssertUnwindSafe(|| match parse(&text, true) {
        Err(_) => "noparse".to_string(),
        Ok(r) => {
            let tree = verif_dump_tree(&r);
            let mut s = String::new();
            let mut index = vec![];
            dump_generic(&tree, &mut s, &mut index);
            let mut runs: Vec<(usize, usize, String)> = vec![];
            for o in 0..=text.len() {
                let chain = verif_resolve_chain(&r, o as u32)
                    .iter()
                    .map(|(k, a)| match index.iter().find(|(k2, a2, _)| k2 == k && a2 == a) {
                        Some((_, _, span)) => format!("{}@{}:{}", k, span.start, span.end),
                        None => format!("{}@?", k),
                    })
                    .collect::<Vec<_>>()
                    .join(">");
                match runs.last_mut() {
                    Some((_, hi, c)) if *c == chain => *hi = o,
                    _ => runs.push((o, o, chain)),
                }
            }
            let runs: Vec<String> = runs.iter().map(|(a, b, c)| format!("{}-{}={}", a, b, c)).collect();
            format!("tree\t{}\t{}", s, runs.join(";"))
        }
    })) {
        Ok(s) => s,
        Err(_) => "panic".to_string(),
    }
}

fn main() {
    let which = std::env::var("HX_ENGINE").unwrap_or_default();
    main_loop(
        &|r, _i| match which.as_str() {
            "isolex" => vec![format!("iso.lex\t{}", hex(gen::gen_lex_text(r).as_bytes()))],
            "resolve" => vec![format!("iso.resolve\t{}", hex(gen::gen_resolve_text(r).as_bytes()))],
            _ => {
                let (text, export, class) = gen::gen_parse_case(r);
                vec![format!("iso.parse\t{}\t{}\t{}", hex(text.as_bytes()), if export { 1 } else { 0 }, class)]
            }
        },
        &mut |f| match f[0] {
            "iso.lex" => run_lex(f),
            "iso.parse" => run_parse(f),
            "iso.resolve" => run_resolve(f),
            _ => "bad-op".to_string(),
        },
    );
}
