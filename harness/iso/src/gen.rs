//! Generators: grammar-directed iso literals (as token lists, so that token-level mutations are
//! easy), arbitrary strings, and lexer-biased junk.  Every choice comes from the one `Rng`.
use hx_common::*;
use std::cell::Cell;

thread_local! {
    /// loose = the grammar-directed generator may also pick constructs that are diagnostics
    static LOOSE: Cell<bool> = Cell::new(false);
    /// number of tokens of the last generated literal that precede its top-level selection set
    static HEADER: Cell<usize> = Cell::new(usize::MAX);
}
fn loose() -> bool {
    LOOSE.with(|l| l.get())
}

const NAMES: &[&str] = &[
    "a", "b", "id", "name", "user", "Query", "User", "Foo", "foo_bar", "_x", "x1", "true", "false", "null", "to", "field",
    "entrypoint", "pointer", "on", "Int", "String", "ID", "lazyLoadArtifact", "loadable", "updatable", "component", "é",
];

fn name(r: &mut Rng) -> String {
    // mostly plain identifiers; the tail of the list holds keywords / a non-identifier
    if !loose() || r.chance(9, 10) {
        r.pick(&NAMES[..16]).to_string()
    } else {
        r.pick(NAMES).to_string()
    }
}

fn type_name(r: &mut Rng) -> String {
    r.pick(&["Int", "String", "ID", "User", "Boolean", "Foo"]).to_string()
}

/// `\n`-containing or comma separators are what the grammar wants between selections/arguments.
fn sep(r: &mut Rng, out: &mut Vec<String>) {
    let n = if loose() { 20 } else { 18 };
    match r.below(n) {
        0..=7 => out.push("\n".into()),
        8..=12 => out.push(",".into()),
        13..=15 => {
            out.push(",".into());
            out.push("\n".into())
        }
        16 => out.push("\n\n  ".into()),
        17 => out.push("\r\n".into()),
        18 => out.push(" ".into()), // missing separator: diagnostic
        _ => out.push(", ,".into()),
    }
}

fn int_lit(r: &mut Rng) -> String {
    if !loose() {
        return match r.below(8) {
            0 => "0".into(),
            1 => "-0".into(),
            2 => "9223372036854775807".into(),
            3 => "-9223372036854775808".into(),
            _ => (r.below(100000) as i64 - 500).to_string(),
        };
    }
    match r.below(24) {
        0 => "0".into(),
        1 => "-0".into(),
        2 => "9223372036854775807".into(),
        3 => "9223372036854775808".into(),
        4 => "-9223372036854775808".into(),
        5 => "-9223372036854775809".into(),
        6 => "99999999999999999999".into(),
        7 => "1.5".into(),
        8 => "1e5".into(),
        9 => "1.5e+".into(),
        10 => "007".into(),
        11 => ".5".into(),
        12 => "1e+".into(),
        13 => "-1.25e-3".into(),
        14 => "12abc".into(),
        15 => "3.".into(),
        _ => {
            let n = r.below(100000) as i64 - 500;
            n.to_string()
        }
    }
}

fn string_lit(r: &mut Rng) -> String {
    let k = if loose() { r.below(12) } else { *r.pick(&[0usize, 1, 2, 3, 4, 5, 9, 10, 11]) };
    let body = match k {
        0 => "".to_string(),
        1 => "it's".to_string(),
        2 => "a b".to_string(),
        3 => "\\n\\\"q\\\"".to_string(),
        4 => "\\u00e9".to_string(),
        5 => "héllo →".to_string(),
        6 => "😀".to_string(),       // astral: not a StringCharacters char
        7 => "a\nb".to_string(),     // line terminator inside
        8 => "\\q".to_string(),      // bad escape
        9 => "tab\there".to_string(),
        _ => gen_text(r, 6, &["a", "b", " ", "_", "1", "é", "漢"]),
    };
    format!("\"{}\"", body)
}

fn block_string(r: &mut Rng) -> String {
    let k = if loose() { r.below(10) } else { *r.pick(&[0usize, 1, 2, 3, 4, 7, 8, 9]) };
    let body = match k {
        0 => "".to_string(),
        1 => "one line".to_string(),
        2 => "\n    indented\n      more\n    back\n  ".to_string(),
        3 => "say \\\"\"\" quoted".to_string(),
        4 => "uni é 漢 →".to_string(),
        5 => "astral 😀".to_string(),
        6 => "ctl \u{1} x".to_string(),
        7 => "\"q\" \"\"".to_string(),
        8 => "\r\n  crlf\r\n  lines\r\n".to_string(),
        _ => gen_text(r, 10, &["a", " ", "\n", "\t", "é", "b", "  "]),
    };
    format!("\"\"\"{}\"\"\"", body)
}

fn value(r: &mut Rng, depth: usize, out: &mut Vec<String>) {
    let k = if loose() { r.below(16) } else { *r.pick(&[0usize, 1, 2, 3, 4, 5, 6, 7, 8, 9, 10, 11, 14, 15]) };
    match k {
        0..=3 => {
            out.push("$".into());
            out.push(name(r))
        }
        4..=6 => out.push(int_lit(r)),
        7..=8 => out.push(string_lit(r)),
        9 => out.push("true".into()),
        10 => out.push("false".into()),
        11 => out.push("null".into()),
        12 => out.push(name(r)), // an enum-like identifier: diagnostic
        13 if r.chance(1, 3) => out.push("[".into()), // lists are not supported: diagnostic
        _ if depth > 0 => {
            out.push("{".into());
            let n = r.below(4);
            for i in 0..n {
                out.push(name(r));
                out.push(":".into());
                value(r, depth - 1, out);
                if i + 1 < n || r.chance(1, 3) {
                    sep(r, out);
                }
            }
            out.push("}".into());
        }
        _ => out.push("7".into()),
    }
}

/// a value without variables (default values)
fn const_value(r: &mut Rng, depth: usize, out: &mut Vec<String>) {
    let start = out.len();
    value(r, depth, out);
    if !loose() {
        // replace `$ name` pairs by a literal
        let mut i = start;
        while i < out.len() {
            if out[i] == "$" {
                out[i] = "1".into();
                out.remove(i + 1);
            }
            i += 1;
        }
    }
}

fn arguments(r: &mut Rng, out: &mut Vec<String>) {
    out.push("(".into());
    let n = r.below(4);
    for i in 0..n {
        out.push(name(r));
        out.push(":".into());
        value(r, 2, out);
        if i + 1 < n || r.chance(1, 3) {
            sep(r, out);
        }
    }
    out.push(")".into());
}

fn directives(r: &mut Rng, selection: bool, object: bool, out: &mut Vec<String>) {
    if selection && !loose() {
        // what the selection directive sets accept
        match r.below(12) {
            0 if !object => out.extend(["@".to_string(), "loadable".to_string()]),
            1 if !object => {
                out.extend(["@", "loadable", "(", "lazyLoadArtifact", ":"].iter().map(|s| s.to_string()));
                out.push(r.pick(&["true", "false"]).to_string());
                out.push(")".into());
            }
            2 => out.extend(["@".to_string(), "updatable".to_string()]),
            _ => {}
        }
        return;
    }
    let n = match r.below(10) {
        0..=6 => 0,
        7..=8 => 1,
        _ => 2,
    };
    for _ in 0..n {
        out.push("@".into());
        match r.below(12) {
            0..=2 => out.push("loadable".into()),
            3..=4 => {
                out.push("loadable".into());
                out.push("(".into());
                out.push("lazyLoadArtifact".into());
                out.push(":".into());
                out.push(r.pick(&["true", "false", "null", "1", "\"x\"", "$v"]).to_string());
                out.push(")".into());
            }
            5..=6 => out.push("updatable".into()),
            7 => out.push(if selection { "loadable" } else { "component" }.into()),
            8 => {
                out.push("updatable".into());
                arguments(r, out)
            }
            9 => {
                out.push("loadable".into());
                arguments(r, out)
            }
            _ => {
                out.push(name(r));
                if r.chance(1, 2) {
                    arguments(r, out)
                }
            }
        }
    }
}

fn type_annotation(r: &mut Rng, depth: usize, out: &mut Vec<String>) {
    if depth > 0 && r.chance(1, 3) {
        out.push("[".into());
        type_annotation(r, depth - 1, out);
        if !(loose() && r.chance(1, 25)) {
            out.push("]".into());
        }
    } else {
        out.push(type_name(r));
    }
    if r.chance(1, 2) {
        out.push("!".into());
    }
}

fn variable_definitions(r: &mut Rng, out: &mut Vec<String>) {
    out.push("(".into());
    let n = r.below(4);
    for i in 0..n {
        out.push("$".into());
        out.push(name(r));
        out.push(":".into());
        type_annotation(r, 3, out);
        if r.chance(1, 3) {
            out.push("=".into());
            if loose() && r.chance(1, 10) {
                out.push("$".into());
                out.push("v".into());
            } else {
                const_value(r, 2, out);
            }
        }
        if i + 1 < n || r.chance(1, 3) {
            sep(r, out);
        }
    }
    out.push(")".into());
}

fn selection_set(r: &mut Rng, depth: usize, out: &mut Vec<String>) {
    out.push("{".into());
    if r.chance(2, 3) {
        out.push("\n".into());
    }
    let n = match r.below(8) {
        0 => 0,
        1..=3 => 1,
        4..=5 => 2,
        6 => 3,
        _ => 5,
    };
    for _ in 0..n {
        if loose() && r.chance(1, 40) {
            out.push("...".into()); // fragment spread: diagnostic
        }
        if r.chance(1, 6) {
            out.push(name(r));
            out.push(":".into());
        }
        out.push(name(r));
        if r.chance(1, 4) {
            arguments(r, out);
        }
        let object = depth > 0 && r.chance(1, 3);
        directives(r, true, object, out);
        if object {
            selection_set(r, depth - 1, out);
        }
        sep(r, out);
    }
    out.push("}".into());
}

fn description(r: &mut Rng, out: &mut Vec<String>) {
    if r.chance(1, 5) {
        out.push(if r.chance(1, 2) { string_lit(r) } else { block_string(r) });
    }
}

pub fn literal_tokens(r: &mut Rng) -> Vec<String> {
    let loose = r.chance(1, 4);
    literal_tokens_mode(r, loose)
}

/// `loose = false`: a valid declaration (field/pointer/entrypoint) in every respect
pub fn literal_tokens_mode(r: &mut Rng, loose_mode: bool) -> Vec<String> {
    LOOSE.with(|l| l.set(loose_mode));
    HEADER.with(|h| h.set(usize::MAX));
    let mut out = vec![];
    let depth = *r.pick(&[0usize, 1, 1, 2, 2, 3, 4, 6]);
    match r.below(10) {
        0..=5 => {
            out.push("field".into());
            out.push(type_name(r));
            out.push(".".into());
            out.push(name(r));
            if r.chance(1, 3) {
                variable_definitions(r, &mut out);
            }
            directives(r, false, false, &mut out);
            description(r, &mut out);
            if !(loose() && r.chance(1, 30)) {
                HEADER.with(|h| h.set(out.len()));
                selection_set(r, depth, &mut out);
            }
        }
        6..=7 => {
            out.push("pointer".into());
            out.push(type_name(r));
            out.push(".".into());
            out.push(name(r));
            if r.chance(1, 3) {
                variable_definitions(r, &mut out);
            }
            out.push(if !loose() || r.chance(19, 20) { "to".into() } else { name(r) });
            type_annotation(r, 3, &mut out);
            directives(r, false, false, &mut out);
            description(r, &mut out);
            if !(loose() && r.chance(1, 30)) {
                HEADER.with(|h| h.set(out.len()));
                selection_set(r, depth, &mut out);
            }
        }
        _ => {
            out.push("entrypoint".into());
            out.push(type_name(r));
            out.push(".".into());
            out.push(name(r));
            directives(r, false, false, &mut out);
            if loose() && r.chance(1, 12) {
                selection_set(r, 1, &mut out);
            }
        }
    }
    out
}

fn wordy(c: Option<char>) -> bool {
    match c {
        Some(c) => c.is_alphanumeric() || c == '_' || c == '.' || c == '-' || c == '"',
        None => false,
    }
}

/// Join tokens with random whitespace; wordy neighbours always get at least one blank.
pub fn join(r: &mut Rng, toks: &[String]) -> String {
    let mut s = String::new();
    for t in toks {
        let need = wordy(s.chars().last()) && wordy(t.chars().next());
        let ws = match r.below(12) {
            0..=5 => " ",
            6..=8 => "",
            9 => "  ",
            10 => "\t",
            _ => " \u{feff}",
        };
        if need && ws.is_empty() {
            s.push(' ');
        } else if !s.is_empty() && !t.starts_with('\n') && !s.ends_with('\n') {
            s.push_str(ws);
        }
        s.push_str(t);
    }
    s
}

const JUNK: &[&str] = &[
    "#", "# comment", "😀", "\u{1}", "é", "→", "-", "1.5", "1e5", "0x1F", "..", "...", "\"", "\"\"\"", "\\", "[", "]", "=", "!", "$",
    "@", ":", ",", "{", "}", "(", ")", "99999999999999999999", "\u{feff}", "\u{b}", "漢", "\u{a0}", "\u{3000}", "\u{2028}", "\u{85}",
    "｛", "｝", "（", "：", "“", "”", "’", "\u{301}", "👍🏽", "\u{200a}", "\u{c}",
];

/// ASCII white space (all of it is lexer white space)
const ASCII_WS: &[&str] = &[" ", " ", "\n", "\n", "\t", "\r\n", "\r", "  ", "\n\n"];

/// Unicode `White_Space` characters (what `str::trim_end` strips) that the iso lexer does NOT skip
/// (they are Error tokens), except U+000C which it does skip
const UNI_WS: &[&str] = &[
    "\u{b}", "\u{c}", "\u{85}", "\u{a0}", "\u{1680}", "\u{2000}", "\u{2001}", "\u{2002}", "\u{2003}", "\u{2004}", "\u{2005}",
    "\u{2006}", "\u{2007}", "\u{2008}", "\u{2009}", "\u{200a}", "\u{2028}", "\u{2029}", "\u{202f}", "\u{205f}", "\u{3000}",
];

/// multi-byte characters that are not tokens: full-width punctuation, emoji, curly quotes, combining marks
const MULTIBYTE: &[&str] = &[
    "｛", "｝", "（", "）", "：", "，", "．", "＠", "＄", "！", "［", "“", "”", "‘", "’", "«", "😀", "👍🏽", "🇩🇪", "\u{301}", "\u{20dd}",
    "é", "漢", "→", "\u{feff}", "\u{a0}", "\u{3000}",
];

const STRAY: &[&str] = &["}", "{", ")", "x", "field", "@", ",", "1", "\"s\"", ".", "#", "$v", ":", "!"];

fn pieces(r: &mut Rng, pool: &[&str], lo: usize, hi: usize) -> String {
    let n = r.range(lo, hi);
    (0..n).map(|_| r.pick(pool).to_string()).collect()
}

/// (1) a complete valid declaration followed by trailing junk
fn gen_trailing(r: &mut Rng) -> (String, &'static str) {
    let t = literal_tokens_mode(r, false);
    let mut s = join(r, &t);
    match r.below(10) {
        // ASCII white space, then ONLY white space in the sense of `str::trim_end` (Unicode ± ASCII)
        0..=3 => {
            s.push_str(&pieces(r, ASCII_WS, 1, 2));
            let n = r.range(1, 3);
            for _ in 0..n {
                s.push_str(*r.pick(UNI_WS));
                if r.chance(1, 2) {
                    s.push_str(&pieces(r, ASCII_WS, 0, 2));
                }
            }
            (s, "trail-ascii-then-uniws")
        }
        // Unicode white space glued to the declaration
        4 => {
            s.push_str(&pieces(r, UNI_WS, 1, 3));
            s.push_str(&pieces(r, ASCII_WS, 0, 2));
            (s, "trail-uniws")
        }
        5 => {
            s.push_str(&pieces(r, ASCII_WS, 1, 4));
            (s, "trail-ascii-ws")
        }
        6 => {
            s.push_str(&pieces(r, ASCII_WS, 0, 2));
            s.push_str(&pieces(r, &["\u{feff}"], 1, 2));
            s.push_str(&pieces(r, ASCII_WS, 0, 1));
            (s, "trail-bom")
        }
        7 => {
            s.push_str(&pieces(r, ASCII_WS, 0, 2));
            s.push_str(&pieces(r, STRAY, 1, 3));
            s.push_str(&pieces(r, ASCII_WS, 0, 1));
            (s, "trail-stray")
        }
        8 => {
            s.push_str(&pieces(r, ASCII_WS, 0, 1));
            s.push_str(&pieces(r, MULTIBYTE, 1, 2));
            s.push_str(&pieces(r, UNI_WS, 0, 2));
            (s, "trail-multibyte")
        }
        _ => {
            let n = r.range(1, 5);
            for _ in 0..n {
                let pool: &[&str] = match r.below(5) {
                    0 => ASCII_WS,
                    1 => UNI_WS,
                    2 => STRAY,
                    3 => MULTIBYTE,
                    _ => &["\u{feff}"],
                };
                s.push_str(*r.pick(pool));
            }
            (s, "trail-mix")
        }
    }
}

/// multi-byte characters, with or without white space in front / behind
fn multibyte_insert(r: &mut Rng) -> (String, bool) {
    let glued = r.chance(1, 2);
    let mut x = String::new();
    if !glued {
        x.push_str(*r.pick(ASCII_WS));
    }
    x.push_str(&pieces(r, MULTIBYTE, 1, 2));
    if r.chance(1, 3) {
        x.push_str(*r.pick(ASCII_WS));
    }
    (x, glued)
}

/// (2) a valid literal cut at a token boundary, immediately followed by multi-byte characters
fn gen_truncated(r: &mut Rng) -> (String, &'static str) {
    let t = literal_tokens_mode(r, false);
    let header = HEADER.with(|h| h.get());
    // half of the cuts are right before the top-level selection set (when there is one)
    let (cut, at_header) = if header != usize::MAX && r.chance(1, 2) { (header, true) } else { (r.range(1, t.len()), false) };
    let mut s = join(r, &t[..cut]);
    let (ins, glued) = multibyte_insert(r);
    s.push_str(&ins);
    // sometimes the rest of the literal follows in full-width disguise or as it was
    if r.chance(1, 4) {
        s.push_str(&join(r, &t[cut..]));
    }
    let tag = match (at_header || cut == header, glued) {
        (true, true) => "trunc-header-glued-multibyte",
        (true, false) => "trunc-header-ws-multibyte",
        (false, true) => "trunc-glued-multibyte",
        (false, false) => "trunc-ws-multibyte",
    };
    (s, tag)
}

/// (3) the same insertions at a token boundary inside an otherwise valid literal
fn gen_inserted(r: &mut Rng) -> (String, &'static str) {
    let t = literal_tokens_mode(r, false);
    let cut = r.range(0, t.len());
    let mut s = join(r, &t[..cut]);
    let tag = match r.below(4) {
        0 => {
            s.push_str(&pieces(r, UNI_WS, 1, 2));
            "insert-uniws"
        }
        1 => {
            s.push_str(*r.pick(ASCII_WS));
            s.push_str(&pieces(r, UNI_WS, 1, 2));
            s.push_str(*r.pick(ASCII_WS));
            "insert-ws-uniws-ws"
        }
        _ => {
            let (ins, glued) = multibyte_insert(r);
            s.push_str(&ins);
            if glued { "insert-glued-multibyte" } else { "insert-ws-multibyte" }
        }
    };
    let rest = join(r, &t[cut..]);
    if !rest.is_empty() && !s.ends_with(|c: char| c.is_whitespace()) && wordy(rest.chars().next()) && wordy(s.chars().last()) {
        s.push(' ');
    }
    s.push_str(&rest);
    (s, tag)
}

fn mutate_tokens(r: &mut Rng, toks: &mut Vec<String>) {
    let n = r.range(1, 3);
    for _ in 0..n {
        if toks.is_empty() {
            return;
        }
        let i = r.below(toks.len());
        match r.below(6) {
            0 => {
                toks.remove(i);
            }
            1 => {
                let t = toks[i].clone();
                toks.insert(i, t);
            }
            2 => {
                let j = r.below(toks.len());
                toks.swap(i, j);
            }
            3 => toks.insert(i, r.pick(JUNK).to_string()),
            4 => toks[i] = r.pick(JUNK).to_string(),
            _ => toks.truncate(i),
        }
    }
}

/// Replace / insert / delete one character (so the result stays valid UTF-8).
fn mutate_chars(r: &mut Rng, s: &str) -> String {
    let mut cs: Vec<char> = s.chars().collect();
    if cs.is_empty() {
        return s.to_string();
    }
    let i = r.below(cs.len());
    let pool: Vec<char> =
        "{}()[]:,.$@!=\"\\#-0123456789aZ_ \n\t\u{1}\u{7f}é→😀\u{feff}\r\u{a0}\u{3000}\u{2028}\u{85}\u{b}\u{c}｛｝：“’\u{301}".chars().collect();
    match r.below(3) {
        0 => cs[i] = *r.pick(&pool),
        1 => cs.insert(i, *r.pick(&pool)),
        _ => {
            cs.remove(i);
        }
    }
    cs.into_iter().collect()
}

pub fn gen_lex_text(r: &mut Rng) -> String {
    match r.below(4) {
        0 => gen_text(
            r,
            14,
            &["-", "0", "1", "9", ".", "e", "E", "+", "a", "_", "\"", " ", "x", "5", "\n", "\\", "u", "é", "😀"],
        ),
        1 => gen_text(r, 20, MIXED_ALPHABET),
        2 => {
            let t = literal_tokens(r);
            let s = join(r, &t);
            if r.chance(1, 2) { mutate_chars(r, &s) } else { s }
        }
        _ => gen_text(r, 12, JUNK),
    }
}

pub fn gen_parse_case(r: &mut Rng) -> (String, bool, &'static str) {
    let export = !r.chance(1, 12);
    match r.below(32) {
        0 => (gen_text(r, 30, MIXED_ALPHABET), export, "arbitrary"),
        1 => (gen_text(r, 10, JUNK), export, "junk"),
        2..=4 => {
            let mut t = literal_tokens(r);
            mutate_tokens(r, &mut t);
            (join(r, &t), export, "mutated-tokens")
        }
        5..=6 => {
            let t = literal_tokens(r);
            let s = join(r, &t);
            (mutate_chars(r, &s), export, "mutated-chars")
        }
        7..=10 => {
            let (s, tag) = gen_trailing(r);
            (s, true, tag)
        }
        11..=13 => {
            let (s, tag) = gen_truncated(r);
            (s, true, tag)
        }
        14..=15 => {
            let (s, tag) = gen_inserted(r);
            (s, true, tag)
        }
        _ => {
            let loose_mode = r.chance(1, 6);
            let t = literal_tokens_mode(r, loose_mode);
            (join(r, &t), export, "grammar")
        }
    }
}

pub fn gen_resolve_text(r: &mut Rng) -> String {
    // mostly valid literals (a literal that does not parse is answered `noparse`)
    let t = literal_tokens(r);
    let s = join(r, &t);
    if r.chance(1, 10) { mutate_chars(r, &s) } else { s }
}
