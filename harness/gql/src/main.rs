use common::SourceLocationKey;
use common_lang_types::TextSource;
use intern::string_key::Intern;
fn main() {
    let args: Vec<String> = std::env::args().collect();
    let doc = &args[2];
    let r = std::panic::catch_unwind(|| match args[1].as_str() {
        "exec" => format!("{:?}", graphql_syntax::parse_executable(doc, SourceLocationKey::generated()).map_err(|e| e.len())),
        "sdl" => format!("{:?}", graphql_syntax::parse_schema_document(doc, SourceLocationKey::generated()).map_err(|e| e.len())),
        "schema" => format!("{:?}", graphql_schema_parser::parse_schema(doc, TextSource { relative_path_to_source_file: "dummy".intern().into(), span: None }).map_err(|e| e.0.message.clone())),
        "ext" => format!("{:?}", graphql_schema_parser::parse_schema_extensions(doc, TextSource { relative_path_to_source_file: "dummy".intern().into(), span: None }).map_err(|e| e.0.message.clone())),
        _ => "?".into(),
    });
    println!("{:?}", r.map_err(|_| "PANIC"));
}
