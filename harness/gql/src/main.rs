//! hx_gql — correspondence harness for C29 (relay's graphql-syntax crate) and C30 (the compiler's
//! schema parser).
//!
//! Request:  op \t hex(document)        op = exec | sdl (HX_ENGINE=relay)   schema | ext (HX_ENGINE=schema)
//! Answer:   accept \t TREE [\t RT] | reject | panic
//!   TREE = canonical location-free S-expression (same format as lean/IsoVerif/Model/GqlAst.lean);
//!   RT (sdl only) = result of printing the parsed schema with relay's own printer and parsing the
//!   text again: `same`, `reject`, `panic`, or the differing tree.
mod gen;
mod sexp;

use common::SourceLocationKey;
use common_lang_types::TextSource;
use hx_common::{main_loop, unhex, Rng};
use intern::string_key::Intern;
use std::panic::{catch_unwind, AssertUnwindSafe};
use std::sync::{Mutex, Once};

static LAST_PANIC: Mutex<String> = Mutex::new(String::new());
static HOOK: Once = Once::new();

/// `common::Span::new` carries `debug_assert!(start <= end)`.  relay's error recovery builds
/// spans from "start of the next token" to "end of the previous token" without having consumed a
/// token, so in builds with debug assertions (this harness) some *invalid* documents die on that
/// assertion (`{ a ( ( x : 1 ) }`), while release builds — the compiler is shipped as one — carry on
/// and reject.  Exactly this assertion is mapped to the release-build answer; every other panic is
/// reported as `panic`.
fn debug_only_span_assert() -> bool {
    let m = LAST_PANIC.lock().unwrap();
    m.contains("relay_span.rs") && m.contains("start <= end")
}

fn install_hook() {
    HOOK.call_once(|| {
        std::panic::set_hook(Box::new(|info| {
            *LAST_PANIC.lock().unwrap() = info.to_string();
        }));
    });
}

fn panic_answer() -> String {
    if std::env::var("HX_GQL_DEBUG").is_ok() {
        eprintln!("panic: {}", LAST_PANIC.lock().unwrap());
    }
    if debug_only_span_assert() {
        "reject".into()
    } else {
        "panic".into()
    }
}

fn run_exec(doc: &str) -> String {
    match catch_unwind(AssertUnwindSafe(|| {
        graphql_syntax::parse_executable(doc, SourceLocationKey::generated())
            .ok()
            .map(|d| sexp::relay_exec_doc(&d))
    })) {
        Err(_) => panic_answer(),
        Ok(None) => "reject".into(),
        Ok(Some(t)) => format!("accept\t{}", t),
    }
}

fn parse_sdl(doc: &str) -> Result<Option<(String, String)>, ()> {
    catch_unwind(AssertUnwindSafe(|| {
        graphql_syntax::parse_schema_document(doc, SourceLocationKey::generated())
            .ok()
            .map(|d| (sexp::relay_schema_doc(&d), format!("{}", d)))
    }))
    .map_err(|_| ())
}

fn run_sdl(doc: &str) -> String {
    match parse_sdl(doc) {
        Err(_) => panic_answer(),
        Ok(None) => "reject".into(),
        Ok(Some((tree, printed))) => {
            let rt = match parse_sdl(&printed) {
                Err(_) => "panic".to_string(),
                Ok(None) => "reject".to_string(),
                Ok(Some((t2, _))) => {
                    if t2 == tree {
                        "same".to_string()
                    } else {
                        t2
                    }
                }
            };
            format!("accept\t{}\t{}", tree, rt)
        }
    }
}

fn run_schema(doc: &str, ext: bool) -> String {
    let ts = TextSource { relative_path_to_source_file: "dummy".intern().into(), span: None };
    match catch_unwind(AssertUnwindSafe(|| {
        if ext {
            graphql_schema_parser::parse_schema_extensions(doc, ts).ok().map(|d| sexp::iso_ext_doc(&d, doc))
        } else {
            graphql_schema_parser::parse_schema(doc, ts).ok().map(|d| sexp::iso_doc(&d, doc))
        }
    })) {
        Err(_) => "panic".into(),
        Ok(None) => "reject".into(),
        Ok(Some(t)) => format!("accept\t{}", t),
    }
}

fn main() {
    let engine = std::env::var("HX_ENGINE").unwrap_or_else(|_| "relay".into());
    let gen_fn = move |r: &mut Rng, i: u64| -> Vec<String> { gen::gen_case(&engine, r, i) };
    let mut run_fn = |f: &[&str]| -> String {
        install_hook();
        LAST_PANIC.lock().unwrap().clear();
        if f.len() != 2 {
            return "bad-op".into();
        }
        let bytes = match unhex(f[1]) {
            Some(b) => b,
            None => return "bad-op".into(),
        };
        let doc = match String::from_utf8(bytes) {
            Ok(s) => s,
            Err(_) => return "bad-op".into(),
        };
        match f[0] {
            "exec" => run_exec(&doc),
            "sdl" => run_sdl(&doc),
            "schema" => run_schema(&doc, false),
            "ext" => run_schema(&doc, true),
            _ => "bad-op".into(),
        }
    };
    main_loop(&gen_fn, &mut run_fn);
}
