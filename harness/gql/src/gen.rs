//! Generators: grammar-directed executable and type-system documents as token lists, rendered with
//! random ignored tokens (spaces, newlines, CRLF, commas, comments, BOM) — plus token-level
//! mutants, lexical edge cases (numbers, strings, block strings) and characters outside the
//! June-2018 source character set.  Every random choice comes from the one `Rng`.
use hx_common::{hex, Rng};

const NAMES: &[&str] = &[
    "a", "b", "id", "name", "user", "User", "Query", "T", "Node", "x1", "_y", "__typename", "E", "VALUE_A", "type", "query",
    "fragment", "input", "extend", "schema", "first", "after", "if", "implements", "enum", "mutation", "on2", "Float",
];
const TYPE_NAMES: &[&str] = &["Int", "String", "ID", "Boolean", "User", "T", "Node", "E", "In", "Float", "type", "query"];
const DIR_NAMES: &[&str] = &["include", "skip", "deprecated", "d", "source", "exposeField", "x"];
const EXEC_LOCS: &[&str] = &["QUERY", "MUTATION", "SUBSCRIPTION", "FIELD", "FRAGMENT_DEFINITION", "FRAGMENT_SPREAD", "INLINE_FRAGMENT"];
const TS_LOCS: &[&str] = &[
    "SCALAR", "OBJECT", "FIELD_DEFINITION", "ARGUMENT_DEFINITION", "INTERFACE", "UNION", "ENUM", "ENUM_VALUE", "INPUT_OBJECT",
    "INPUT_FIELD_DEFINITION",
];

/// knobs: how often the constructs on which an implementation is known to deviate are produced
#[derive(Clone, Copy)]
pub struct Knobs {
    pub post2018: usize,     // per-mille: interface implements, repeatable, variable directives, VARIABLE_DEFINITION, schema description
    pub odd: usize,          // per-mille: hack_source, description on extend, empty extension, reserved enum value, fragment on, big ints
    pub block_value: usize,  // per-mille: a string value written as block string
    pub union_bare: usize,   // per-mille: union without members
    pub schema_loc: usize,   // per-mille: SCHEMA among the locations
    pub other_ext: usize,    // per-mille of extensions that are not `extend type`
    pub ext: usize,          // per-mille of definitions that are extensions
    pub escapes: usize,      // per-mille of strings containing an escape sequence
}

pub const RELAY: Knobs = Knobs { post2018: 40, odd: 25, block_value: 250, union_bare: 150, schema_loc: 150, other_ext: 600, ext: 250, escapes: 200 };
pub const ISO_SCHEMA: Knobs = Knobs { post2018: 40, odd: 15, block_value: 25, union_bare: 30, schema_loc: 25, other_ext: 600, ext: 20, escapes: 120 };
pub const ISO_EXT: Knobs = Knobs { post2018: 40, odd: 15, block_value: 25, union_bare: 30, schema_loc: 25, other_ext: 60, ext: 450, escapes: 120 };

pub struct G<'a> {
    pub r: &'a mut Rng,
    pub k: Knobs,
    pub out: Vec<String>,
}

impl<'a> G<'a> {
    fn p(&mut self, permille: usize) -> bool {
        self.r.below(1000) < permille
    }
    fn t(&mut self, s: &str) {
        self.out.push(s.to_string());
    }
    fn name(&mut self) -> String {
        self.r.pick(NAMES).to_string()
    }
    fn tname(&mut self) {
        let n = *self.r.pick(TYPE_NAMES);
        self.t(n);
    }

    fn ty(&mut self, depth: usize) {
        if depth > 0 && self.p(250) {
            self.t("[");
            self.ty(depth - 1);
            self.t("]");
        } else {
            self.tname();
        }
        if self.p(350) {
            self.t("!");
        }
    }

    fn string_body(&mut self) -> String {
        const PLAIN: &[&str] = &["a", "b", "Z", "0", " ", " ", "é", "漢", "#", ",", "'", "{", "}", "x", ".", "\t", "-", "ö", "\u{ffff}", "\u{feff}"];
        const ESC: &[&str] = &["\\n", "\\\"", "\\\\", "\\/", "\\t", "\\u00e9", "\\u0041", "\\b", "\\f", "\\r", "\\uD83D", "\\uffFF"];
        let n = self.r.below(7);
        let mut s = String::new();
        let with_esc = self.p(self.k.escapes);
        for _ in 0..n {
            if with_esc && self.p(400) {
                s.push_str(*self.r.pick(ESC));
            } else {
                s.push_str(*self.r.pick(PLAIN));
            }
        }
        s
    }

    fn quoted(&mut self) -> String {
        format!("\"{}\"", self.string_body())
    }

    fn block(&mut self) -> String {
        const PIECES: &[&str] = &[
            "a", "b", "word", " ", "  ", "    ", "\t", "\n", "\n", "\n  ", "\n    ", "\r\n", "\r\n  ", "\"", "\"\"", "\\", "\\n", "é", "漢", "#", "\\\"",
            "x y", ".",
        ];
        let n = self.r.below(9);
        let mut s = String::new();
        for _ in 0..n {
            if self.p(25) {
                s.push_str("\\\"\"\"");
            } else if self.p(25) {
                s.push('\r');
            } else {
                s.push_str(*self.r.pick(PIECES));
            }
        }
        // the body must not contain an unescaped `"""`, nor end with a quote or a backslash
        let mut body = String::new();
        let mut quotes = 0usize; // length of the current run of quotes
        let mut escaped_run = false; // the run started right after a backslash (`\"""`)
        let mut prev_backslash = false;
        for c in s.chars() {
            if c == '"' {
                if quotes == 0 {
                    escaped_run = prev_backslash;
                }
                let limit = if escaped_run { 3 } else { 2 };
                if quotes >= limit {
                    body.push(' ');
                    quotes = 0;
                    escaped_run = false;
                }
                body.push('"');
                quotes += 1;
            } else {
                quotes = 0;
                body.push(c);
            }
            prev_backslash = c == '\\';
        }
        while body.ends_with('"') || body.ends_with('\\') {
            body.push(' ');
        }
        format!("\"\"\"{}\"\"\"", body)
    }

    fn string_value(&mut self) -> String {
        if self.p(self.k.block_value) {
            self.block()
        } else {
            self.quoted()
        }
    }

    fn int(&mut self) -> String {
        const INTS: &[&str] = &["0", "1", "7", "42", "-1", "-0", "10", "123456", "9223372036854775807", "-9223372036854775808", "2147483648"];
        if self.p(self.k.odd) {
            return self.r.pick(&["9223372036854775808", "-9223372036854775809", "99999999999999999999"]).to_string();
        }
        self.r.pick(INTS).to_string()
    }

    fn float(&mut self) -> String {
        const FLOATS: &[&str] = &["1.5", "-0.25", "1e3", "1E-2", "2.5e+10", "0.0", "-0.0e0", "3.14159", "10.0E5", "1e400", "0e0", "123.456e-7"];
        self.r.pick(FLOATS).to_string()
    }

    fn value(&mut self, constant: bool, depth: usize) {
        let c = self.r.below(if depth == 0 { 8 } else { 11 });
        match c {
            0 => {
                let s = self.int();
                self.t(&s)
            }
            1 => {
                let s = self.float();
                self.t(&s)
            }
            2 | 3 => {
                let s = self.string_value();
                self.t(&s)
            }
            4 => {
                let b = *self.r.pick(&["true", "false"]);
                self.t(b)
            }
            5 => self.t("null"),
            6 => {
                let n = *self.r.pick(&["RED", "ASC", "a", "on", "type", "E1"]);
                self.t(n)
            }
            7 => {
                if constant {
                    let s = self.int();
                    self.t(&s)
                } else {
                    self.t("$");
                    let n = self.name();
                    self.t(&n)
                }
            }
            8 | 9 => {
                self.t("[");
                for _ in 0..self.r.below(4) {
                    self.value(constant, depth - 1);
                }
                self.t("]");
            }
            _ => {
                self.t("{");
                for _ in 0..self.r.below(3) {
                    let n = self.name();
                    self.t(&n);
                    self.t(":");
                    self.value(constant, depth - 1);
                }
                self.t("}");
            }
        }
    }

    fn args(&mut self, constant: bool) {
        if self.p(400) {
            self.t("(");
            for _ in 0..self.r.range(1, 3) {
                let n = self.name();
                self.t(&n);
                self.t(":");
                self.value(constant, 2);
            }
            self.t(")");
        }
    }

    fn dirs(&mut self, constant: bool, permille: usize) {
        if self.p(permille) {
            for _ in 0..self.r.range(1, 2) {
                self.t("@");
                let n = *self.r.pick(DIR_NAMES);
                self.t(n);
                self.args(constant);
            }
        }
    }

    // ------------------------------------------------------------------ executable documents
    fn selection_set(&mut self, depth: usize) {
        self.t("{");
        for _ in 0..self.r.range(1, 3) {
            self.selection(depth);
        }
        self.t("}");
    }

    fn selection(&mut self, depth: usize) {
        let c = self.r.below(10);
        if c < 7 || depth == 0 {
            if self.p(250) {
                let a = self.name();
                self.t(&a);
                self.t(":");
            }
            let n = self.name();
            self.t(&n);
            self.args(false);
            self.dirs(false, 200);
            if depth > 0 && self.p(350) {
                self.selection_set(depth - 1);
            }
        } else if c < 8 {
            self.t("...");
            let n = *self.r.pick(&["F", "UserFields", "a", "type", "onX"]);
            self.t(n);
            self.dirs(false, 200);
        } else {
            self.t("...");
            if self.p(650) {
                self.t("on");
                self.tname();
            }
            self.dirs(false, 200);
            self.selection_set(depth - 1);
        }
    }

    fn var_defs(&mut self) {
        self.t("(");
        for _ in 0..self.r.range(1, 3) {
            self.t("$");
            let n = self.name();
            self.t(&n);
            self.t(":");
            self.ty(2);
            if self.p(400) {
                self.t("=");
                self.value(true, 2);
            }
            if self.p(self.k.post2018) {
                self.dirs(true, 1000);
            }
        }
        self.t(")");
    }

    pub fn exec_doc(&mut self) {
        if self.p(8) {
            return; // empty document
        }
        for _ in 0..self.r.range(1, 3) {
            let c = self.r.below(10);
            if c < 2 {
                self.selection_set(2);
            } else if c < 7 {
                let k = *self.r.pick(&["query", "query", "mutation", "subscription"]);
                self.t(k);
                if self.p(700) {
                    let n = self.name();
                    self.t(&n);
                }
                if self.p(400) {
                    self.var_defs();
                }
                self.dirs(false, 200);
                self.selection_set(2);
            } else {
                self.t("fragment");
                if self.p(self.k.odd) {
                    self.t("on");
                } else {
                    let n = self.name();
                    self.t(&n);
                }
                self.t("on");
                self.tname();
                self.dirs(false, 200);
                self.selection_set(2);
            }
        }
    }

    // ------------------------------------------------------------------ type-system documents
    fn description(&mut self, permille: usize) {
        if self.p(permille) {
            let s = if self.p(450) { self.block() } else { self.quoted() };
            self.t(&s);
            if self.p(self.k.odd) {
                let s2 = self.quoted();
                self.t(&s2);
            }
        }
    }

    fn input_value(&mut self) {
        self.description(150);
        let n = self.name();
        self.t(&n);
        self.t(":");
        self.ty(2);
        if self.p(350) {
            self.t("=");
            self.value(true, 2);
        }
        self.dirs(true, 150);
    }

    fn arg_defs(&mut self, permille: usize) {
        if self.p(permille) {
            self.t("(");
            for _ in 0..self.r.range(1, 3) {
                self.input_value();
            }
            self.t(")");
        }
    }

    fn fields(&mut self, permille: usize) {
        if self.p(permille) {
            self.t("{");
            for _ in 0..self.r.range(1, 3) {
                self.description(250);
                let n = self.name();
                self.t(&n);
                self.arg_defs(350);
                self.t(":");
                self.ty(2);
                self.dirs(true, 200);
            }
            self.t("}");
        }
    }

    fn implements(&mut self, permille: usize) {
        if self.p(permille) {
            self.t("implements");
            if self.p(150) {
                self.t("&");
            }
            self.tname();
            for _ in 0..self.r.below(3) {
                self.t("&");
                self.tname();
            }
        }
    }

    fn enum_values(&mut self, permille: usize) {
        if self.p(permille) {
            self.t("{");
            for _ in 0..self.r.range(1, 3) {
                self.description(200);
                if self.p(self.k.odd) {
                    let n = *self.r.pick(&["true", "false", "null"]);
                    self.t(n);
                } else {
                    let n = *self.r.pick(&["RED", "GREEN", "a", "on", "type", "E1", "ASC"]);
                    self.t(n);
                }
                self.dirs(true, 200);
            }
            self.t("}");
        }
    }

    fn op_types(&mut self) {
        self.t("{");
        let mut kinds = vec!["query", "mutation", "subscription"];
        let n = self.r.range(1, 3);
        for _ in 0..n {
            let i = self.r.below(kinds.len());
            let k = if self.p(30) { *self.r.pick(&["query", "mutation"]) } else { kinds.remove(i) };
            self.t(k);
            self.t(":");
            self.tname();
            if kinds.is_empty() {
                break;
            }
        }
        self.t("}");
    }

    fn pipe_list(&mut self, items: &[&str]) {
        if self.p(150) {
            self.t("|");
        }
        for i in 0..self.r.range(1, 3) {
            if i > 0 {
                self.t("|");
            }
            let n = *self.r.pick(items);
            self.t(n);
        }
    }

    fn ts_definition(&mut self) {
        let is_ext = self.p(self.k.ext);
        if is_ext {
            if self.p(self.k.odd) {
                let s = self.quoted();
                self.t(&s);
            }
            self.t("extend");
            let kind = if self.p(self.k.other_ext) { self.r.below(7) } else { 2 };
            let bare = self.p(self.k.odd * 2);
            match kind {
                0 => {
                    self.t("schema");
                    if bare {
                        return;
                    }
                    if self.p(500) {
                        self.dirs(true, 1000);
                        if self.p(500) {
                            self.op_types();
                        }
                    } else {
                        self.op_types();
                    }
                }
                1 => {
                    self.t("scalar");
                    self.tname();
                    if !bare {
                        self.dirs(true, 1000);
                    }
                }
                2 | 3 => {
                    self.t(if kind == 2 { "type" } else { "interface" });
                    self.tname();
                    if bare {
                        return;
                    }
                    let before = self.out.len();
                    if kind == 2 || self.p(self.k.post2018) {
                        self.implements(300);
                    }
                    self.dirs(true, 400);
                    self.fields(700);
                    if self.out.len() == before {
                        self.dirs(true, 1000);
                    }
                }
                4 => {
                    self.t("union");
                    self.tname();
                    if bare {
                        return;
                    }
                    if self.p(500) {
                        self.dirs(true, 1000);
                        if self.p(500) {
                            self.t("=");
                            self.pipe_list(TYPE_NAMES);
                        }
                    } else {
                        self.t("=");
                        self.pipe_list(TYPE_NAMES);
                    }
                }
                5 => {
                    self.t("enum");
                    self.tname();
                    if bare {
                        return;
                    }
                    if self.p(500) {
                        self.dirs(true, 1000);
                        self.enum_values(500);
                    } else {
                        self.enum_values(1000);
                    }
                }
                _ => {
                    self.t("input");
                    self.tname();
                    if bare {
                        return;
                    }
                    if self.p(500) {
                        self.dirs(true, 1000);
                    } else {
                        self.t("{");
                        for _ in 0..self.r.range(1, 3) {
                            self.input_value();
                        }
                        self.t("}");
                    }
                }
            }
            return;
        }
        let kind = self.r.below(100);
        if kind < 6 {
            // schema definition: no description in June 2018
            if self.p(self.k.post2018) {
                self.description(1000);
            }
            self.t("schema");
            self.dirs(true, 200);
            self.op_types();
            return;
        }
        self.description(350);
        if kind < 16 {
            self.t("scalar");
            self.tname();
            self.dirs(true, 300);
        } else if kind < 46 {
            self.t("type");
            self.tname();
            self.implements(300);
            self.dirs(true, 200);
            self.fields(900);
        } else if kind < 58 {
            self.t("interface");
            self.tname();
            if self.p(self.k.post2018) {
                self.implements(1000);
            }
            self.dirs(true, 200);
            self.fields(900);
        } else if kind < 68 {
            self.t("union");
            self.tname();
            self.dirs(true, 200);
            if !self.p(self.k.union_bare) {
                self.t("=");
                self.pipe_list(TYPE_NAMES);
            }
        } else if kind < 78 {
            self.t("enum");
            self.tname();
            self.dirs(true, 200);
            self.enum_values(900);
        } else if kind < 90 {
            self.t("input");
            self.tname();
            self.dirs(true, 200);
            if self.p(900) {
                self.t("{");
                for _ in 0..self.r.range(1, 3) {
                    self.input_value();
                }
                self.t("}");
            }
        } else {
            self.t("directive");
            if !self.p(self.k.odd) {
                self.t("@");
            }
            let n = *self.r.pick(DIR_NAMES);
            self.t(n);
            self.arg_defs(400);
            if self.p(self.k.post2018) {
                self.t("repeatable");
            }
            self.t("on");
            let mut locs: Vec<&str> = vec![];
            locs.extend_from_slice(EXEC_LOCS);
            locs.extend_from_slice(TS_LOCS);
            if self.p(self.k.schema_loc) {
                self.pipe_list(&["SCHEMA", "OBJECT"]);
            } else if self.p(self.k.post2018) {
                self.pipe_list(&["VARIABLE_DEFINITION", "FIELD"]);
            } else if self.p(10) {
                self.pipe_list(&["NOWHERE", "field"]);
            } else {
                self.pipe_list(&locs);
            }
        }
    }

    pub fn ts_doc(&mut self) {
        if self.p(8) {
            return;
        }
        for _ in 0..self.r.range(1, 3) {
            self.ts_definition();
        }
        if self.p(self.k.odd / 2) {
            let s = self.quoted();
            self.t(&s); // dangling description
        }
    }
}

// ------------------------------------------------------------------------------------ rendering

fn is_punct(t: &str) -> bool {
    matches!(t, "!" | "$" | "&" | "(" | ")" | ":" | "=" | "@" | "[" | "]" | "{" | "|" | "}" | "...")
}

fn comment(r: &mut Rng, exotic: bool) -> String {
    const C: &[&str] = &["a", " ", "#", "\"", "é", "漢", "{", "\t", ",", "x", "\"\"\""];
    let mut s = String::from("#");
    for _ in 0..r.below(6) {
        s.push_str(*r.pick(C));
    }
    if exotic {
        s.push_str(*r.pick(&["\u{1}", "😀", "\u{7f}", "\u{b}"]));
    }
    s.push_str(*r.pick(&["\n", "\n", "\r\n", "\r"]));
    s
}

/// Join tokens with random Ignored tokens.  `tight`: allow no separator at all where that cannot
/// merge two tokens.
pub fn render(r: &mut Rng, toks: &[String], exotic_ws: bool) -> String {
    let mut s = String::new();
    if r.chance(1, 25) {
        s.push('\u{feff}');
    }
    if r.chance(1, 12) {
        s.push_str(&comment(r, false));
    }
    let style = r.below(4); // 0: spaces, 1: newlines, 2: mixed, 3: tight
    for (i, t) in toks.iter().enumerate() {
        if i > 0 {
            let prev = &toks[i - 1];
            let can_be_empty = (is_punct(prev) || is_punct(t))
                && !(t == "..." && prev.chars().last().map(|c| c.is_ascii_digit() || c == '.').unwrap_or(false))
                && !(prev == "..." && t.starts_with('.'));
            let c = r.below(100);
            let sep: String = if style == 3 && can_be_empty && c < 85 {
                String::new()
            } else if c < 3 {
                comment(r, false)
            } else if c < 6 {
                ", ".to_string()
            } else if c < 8 {
                "\r\n".to_string()
            } else if c < 9 {
                "\t".to_string()
            } else if c < 10 {
                "\r".to_string()
            } else if c < 11 {
                "\u{feff} ".to_string()
            } else if exotic_ws && c < 30 {
                "\u{c}".to_string()
            } else if style == 1 || (style == 2 && c < 50) {
                "\n  ".to_string()
            } else if can_be_empty && c < 30 {
                String::new()
            } else {
                " ".to_string()
            };
            s.push_str(&sep);
        }
        s.push_str(t);
    }
    if r.chance(1, 6) {
        s.push_str(*r.pick(&["\n", " ", "\r\n", ",", " # end"]));
    }
    s
}

const RANDOM_TOKENS: &[&str] = &[
    "{", "}", "(", ")", "[", "]", ":", "=", "@", "!", "$", "|", "&", "...", "a", "on", "type", "query", "1", "1.5", "\"s\"", "\"\"\"b\"\"\"",
    "null", "true", "extend", "implements", "fragment", "schema", "directive", "Int", ".", "..", "%", "-", "+", "\\", "'", "?", "*", "~", "<",
];

fn mutate(r: &mut Rng, toks: &mut Vec<String>) {
    for _ in 0..r.range(1, 2) {
        if toks.is_empty() {
            toks.push(r.pick(RANDOM_TOKENS).to_string());
            continue;
        }
        let i = r.below(toks.len());
        match r.below(5) {
            0 => {
                toks.remove(i);
            }
            1 => {
                let t = toks[i].clone();
                toks.insert(i, t);
            }
            2 => {
                if i + 1 < toks.len() {
                    toks.swap(i, i + 1);
                }
            }
            3 => {
                toks.insert(i, r.pick(RANDOM_TOKENS).to_string());
            }
            _ => {
                toks[i] = r.pick(RANDOM_TOKENS).to_string();
            }
        }
    }
}

const NUMBER_EDGE: &[&str] = &[
    "1a", "01", "1.", "1.e3", "1e", "-", ".5", "-.5", "1.5.3", "0x1F", "1_000", "-a", "+1", "1e+", "00", "-01", "1.0e", "1.2e3.4", "0.0.", "1ea",
    "12ab", "1.5x", "-0", "9223372036854775808", "1e400", "0e", "1E5a", "-0.0", "007", "1.e", "0.5e-", "1..2", "1...2", "2e10", "-1e-1", "0_",
    "1__typename", "0a", "-0a", "1.0a", "1.0e1a", "0 1", "1 a", "- 1", "0.1", "10", "1e0", "0.0e+0",
];

const STRING_EDGE: &[&str] = &[
    "\"\\z\"", "\"\\u12\"", "\"\\u00zz\"", "\"a\nb\"", "\"abc", "\"\"\"\"", "\"\"\"\"\"", "\"\"\"a\"\"\"\"", "\"\\\"\"", "\"\\\\\"", "\"\\/\"",
    "\"a\tb\"", "\"a\rb\"", "\"\"", "\"\" \"\"", "\"\"\"\"\"\"", "\"\"\"\"\"\"\"\"", "\"\"\"a", "\"\"\" \"\" \"\"\"", "\"\\u0000\"", "\"\\uD800\"",
    "\"\\u00e9\\n\"", "\"é\"", "\"\\\"", "\"\"\"\\\"\"\"\"\"\"", "\"\"\"a\\\"\"\"b\"\"\"", "\"\"\"\\\"\"\"", "\"\"\"\\\\\"\"\"", "\"#\"", "\"\\a\"",
];

const BLOCK_EDGE: &[&str] = &[
    "\"\"\"a\r  b\r  c\"\"\"", "\"\"\"\n  a\n   b\n  c\n\"\"\"", "\"\"\"a\n  b\r\"\"\"", "\"\"\"  a\r\n   b\r\n  c\r\n\"\"\"", "\"\"\"\r\"\"\"",
    "\"\"\"\r\n\"\"\"", "\"\"\"\n\"\"\"", "\"\"\" \"\"\"", "\"\"\"\t\n\t a\n\t  b\"\"\"", "\"\"\"a\n\n\n  b\n \n\"\"\"", "\"\"\"\n\n  a\"\"\"",
    "\"\"\"a\r\r\n  b\"\"\"", "\"\"\"  a\n b\"\"\"", "\"\"\"\n    é\n  漢\"\"\"", "\"\"\"a\\\"\"\"\"\"\"", "\"\"\"\\\"\"\"\n  x\"\"\"", "\"\"\"a\n  b\n c \"\"\"",
    "\"\"\"\n  a\r  b\n\"\"\"", "\"\"\"a\"\"b\"\"\"", "\"\"\"   \n   \n\"\"\"", "\"\"\"x\n\ty\n\t\tz\"\"\"", "\"\"\"\n a\n\n  b\r\n\r\n\"\"\"",
];

/// replace one value-looking token of a valid document by a lexical edge case
fn inject_edge(r: &mut Rng, toks: &mut Vec<String>, pool: &[&str]) {
    let cands: Vec<usize> = toks
        .iter()
        .enumerate()
        .filter(|(_, t)| t.starts_with('"') || t.chars().next().map(|c| c.is_ascii_digit() || c == '-').unwrap_or(false))
        .map(|(i, _)| i)
        .collect();
    let e = r.pick(pool).to_string();
    if cands.is_empty() {
        let i = r.below(toks.len() + 1);
        toks.insert(i, e);
    } else {
        let i = *r.pick(&cands);
        toks[i] = e;
    }
}

fn base_doc(engine_op: &str, r: &mut Rng, k: Knobs) -> Vec<String> {
    let mut g = G { r, k, out: vec![] };
    if engine_op == "exec" {
        g.exec_doc();
    } else {
        g.ts_doc();
    }
    g.out
}

/// a document whose values are edge cases: `{f(a: [X])}` / `type T { f(a: T = [X]): T }`
fn edge_doc(op: &str, r: &mut Rng, pool: &[&str]) -> String {
    let e = r.pick(pool).to_string();
    let shape = r.below(4);
    if op == "exec" {
        match shape {
            0 => format!("{{f(a:{})}}", e),
            1 => format!("{{f(a:[{}])}}", e),
            2 => format!("query($v:T={}){{f}}", e),
            _ => format!("{{f(a:{{k:{} j:2}}) @d(x:[1 {}])}}", e, e),
        }
    } else {
        match shape {
            0 => format!("type T {{f(a:T={}):T}}", e),
            1 => format!("type T {{f(a:T=[{}]):T}}", e),
            2 => format!("{} scalar S", e),
            _ => format!("input I @d(x:{{k:{}}}) {{a:T=[1 {}]}}", e, e),
        }
    }
}

pub fn gen_case(engine: &str, r: &mut Rng, i: u64) -> Vec<String> {
    let (op, knobs) = if engine == "schema" {
        if r.below(10) < 7 {
            ("schema", ISO_SCHEMA)
        } else {
            ("ext", ISO_EXT)
        }
    } else if i % 2 == 0 {
        ("exec", RELAY)
    } else {
        ("sdl", RELAY)
    };
    let class = r.below(100);
    let doc: String = if class < 58 {
        let toks = base_doc(op, r, knobs);
        render(r, &toks, false)
    } else if class < 76 {
        let mut toks = base_doc(op, r, knobs);
        mutate(r, &mut toks);
        render(r, &toks, false)
    } else if class < 84 {
        let pool: &[&str] = match r.below(3) {
            0 => NUMBER_EDGE,
            1 => STRING_EDGE,
            _ => BLOCK_EDGE,
        };
        edge_doc(op, r, pool)
    } else if class < 94 {
        let mut toks = base_doc(op, r, knobs);
        if toks.is_empty() {
            toks.push("{".into());
        }
        let pool: &[&str] = match r.below(3) {
            0 => NUMBER_EDGE,
            1 => STRING_EDGE,
            _ => BLOCK_EDGE,
        };
        inject_edge(r, &mut toks, pool);
        render(r, &toks, false)
    } else {
        // characters outside the June-2018 SourceCharacter set
        let toks = base_doc(op, r, knobs);
        match r.below(5) {
            0 => render(r, &toks, true), // form feed as white space
            1 => {
                let mut s = render(r, &toks, false);
                s.push(' ');
                s.push_str(&comment(r, true));
                s
            }
            2 => {
                // astral / control character inside a quoted string
                let bad = *r.pick(&["😀", "\u{1}", "\u{0}", "\u{7f}"]);
                if op == "exec" {
                    format!("{{f(a:\"x{}\")}}", bad)
                } else {
                    format!("type T {{f(a:T=\"x{}\"):T}}", bad)
                }
            }
            3 => {
                // …inside a block string of an otherwise valid document (relay's lexer: unreachable!())
                let bad = *r.pick(&["😀", "\u{1}", "\u{8}", "🎉"]);
                if op == "exec" {
                    format!("{{f(a:\"\"\"x{}\"\"\")}}", bad)
                } else {
                    format!("\"\"\"x {}\"\"\" type T {{f:T}}", bad)
                }
            }
            _ => {
                let mut s = render(r, &toks, false);
                s.push_str(*r.pick(&["\u{1}", "😀", "\u{c}"]));
                s
            }
        }
    };
    vec![format!("{}\t{}", op, hex(doc.as_bytes()))]
}
