//! Canonical location-free S-expressions of relay's AST nodes and of graphql_lang_types' type-system
//! AST — the same format as `IsoVerif.Gql.*.sexp` (lean/IsoVerif/Model/GqlAst.lean).
use graphql_lang_types as gl;
use graphql_syntax as rs;

fn sx(head: &str, items: &[String]) -> String {
    let mut s = String::from("(");
    s.push_str(head);
    for i in items {
        s.push(',');
        s.push_str(i);
    }
    s.push(')');
    s
}

fn hex_of(s: &str) -> String {
    hx_common::hex(s.as_bytes())
}

fn dash() -> String {
    "-".to_string()
}

// ------------------------------------------------------------------------------------------ relay

fn r_type(t: &rs::TypeAnnotation) -> String {
    match t {
        rs::TypeAnnotation::Named(n) => n.name.value.to_string(),
        rs::TypeAnnotation::List(l) => sx("list", &[r_type(&l.type_)]),
        rs::TypeAnnotation::NonNull(n) => sx("nn", &[r_type(&n.type_)]),
    }
}

fn r_const(v: &rs::ConstantValue) -> String {
    match v {
        rs::ConstantValue::Int(n) => sx("int", &[n.value.to_string()]),
        rs::ConstantValue::Float(n) => sx("float", &[n.source_value.to_string()]),
        rs::ConstantValue::String(n) => sx("str", &[hex_of(&n.value.to_string())]),
        rs::ConstantValue::Boolean(n) => sx("bool", &[if n.value { "true" } else { "false" }.to_string()]),
        rs::ConstantValue::Null(_) => "null".to_string(),
        rs::ConstantValue::Enum(n) => sx("enum", &[n.value.to_string()]),
        rs::ConstantValue::List(l) => sx("list", &l.items.iter().map(r_const).collect::<Vec<_>>()),
        rs::ConstantValue::Object(l) => sx(
            "obj",
            &l.items.iter().map(|a| sx("arg", &[a.name.value.to_string(), r_const(&a.value)])).collect::<Vec<_>>(),
        ),
    }
}

fn r_value(v: &rs::Value) -> String {
    match v {
        rs::Value::Constant(c) => r_const(c),
        rs::Value::Variable(v) => sx("var", &[v.name.to_string()]),
        rs::Value::List(l) => sx("list", &l.items.iter().map(r_value).collect::<Vec<_>>()),
        rs::Value::Object(l) => sx("obj", &l.items.iter().map(r_arg).collect::<Vec<_>>()),
    }
}

fn r_arg(a: &rs::Argument) -> String {
    sx("arg", &[a.name.value.to_string(), r_value(&a.value)])
}

fn r_args(a: &Option<rs::List<rs::Argument>>) -> String {
    sx("args", &a.as_ref().map(|l| l.items.iter().map(r_arg).collect::<Vec<_>>()).unwrap_or_default())
}

fn r_dirs(ds: &[rs::Directive]) -> String {
    sx("dirs", &ds.iter().map(|d| sx("dir", &[d.name.value.to_string(), r_args(&d.arguments)])).collect::<Vec<_>>())
}

fn r_cargs(a: &Option<rs::List<rs::ConstantArgument>>) -> String {
    sx(
        "args",
        &a.as_ref()
            .map(|l| l.items.iter().map(|a| sx("arg", &[a.name.value.to_string(), r_const(&a.value)])).collect::<Vec<_>>())
            .unwrap_or_default(),
    )
}

fn r_cdirs(ds: &[rs::ConstantDirective]) -> String {
    sx("dirs", &ds.iter().map(|d| sx("dir", &[d.name.value.to_string(), r_cargs(&d.arguments)])).collect::<Vec<_>>())
}

fn r_sels(l: &rs::List<rs::Selection>) -> String {
    sx("sel", &l.items.iter().map(r_sel).collect::<Vec<_>>())
}

fn r_alias(a: &Option<rs::Alias>) -> String {
    a.as_ref().map(|a| a.alias.value.to_string()).unwrap_or_else(dash)
}

fn r_sel(s: &rs::Selection) -> String {
    match s {
        rs::Selection::ScalarField(f) => sx(
            "field",
            &[r_alias(&f.alias), f.name.value.to_string(), r_args(&f.arguments), r_dirs(&f.directives), dash()],
        ),
        rs::Selection::LinkedField(f) => sx(
            "field",
            &[r_alias(&f.alias), f.name.value.to_string(), r_args(&f.arguments), r_dirs(&f.directives), r_sels(&f.selections)],
        ),
        rs::Selection::FragmentSpread(f) => sx("spread", &[f.name.value.to_string(), r_dirs(&f.directives)]),
        rs::Selection::InlineFragment(f) => sx(
            "inline",
            &[
                f.type_condition.as_ref().map(|t| t.type_.value.to_string()).unwrap_or_else(dash),
                r_dirs(&f.directives),
                r_sels(&f.selections),
            ],
        ),
    }
}

pub fn relay_exec_doc(d: &rs::ExecutableDocument) -> String {
    let defs: Vec<String> = d
        .definitions
        .iter()
        .map(|def| match def {
            rs::ExecutableDefinition::Operation(o) => {
                let kind = match o.operation.as_ref().map(|x| x.1) {
                    None | Some(rs::OperationKind::Query) => "query",
                    Some(rs::OperationKind::Mutation) => "mutation",
                    Some(rs::OperationKind::Subscription) => "subscription",
                };
                let vars: Vec<String> = o
                    .variable_definitions
                    .as_ref()
                    .map(|l| {
                        l.items
                            .iter()
                            .map(|v| {
                                sx(
                                    "var",
                                    &[
                                        v.name.name.to_string(),
                                        r_type(&v.type_),
                                        v.default_value.as_ref().map(|d| r_const(&d.value)).unwrap_or_else(dash),
                                        r_dirs(&v.directives),
                                    ],
                                )
                            })
                            .collect()
                    })
                    .unwrap_or_default();
                sx(
                    "op",
                    &[
                        kind.to_string(),
                        o.name.as_ref().map(|n| n.value.to_string()).unwrap_or_else(dash),
                        sx("vars", &vars),
                        r_dirs(&o.directives),
                        r_sels(&o.selections),
                    ],
                )
            }
            rs::ExecutableDefinition::Fragment(f) => sx(
                "frag",
                &[f.name.value.to_string(), f.type_condition.type_.value.to_string(), r_dirs(&f.directives), r_sels(&f.selections)],
            ),
        })
        .collect();
    sx("doc", &defs)
}

fn r_desc(d: &Option<rs::StringNode>, h: &Option<rs::StringNode>) -> String {
    match (d, h) {
        (None, _) => dash(),
        (Some(d), None) => sx("desc", &[hex_of(&d.value.to_string())]),
        (Some(d), Some(h)) => sx("desc", &[hex_of(&d.value.to_string()), hex_of(&h.value.to_string())]),
    }
}

fn r_inputval(v: &rs::InputValueDefinition) -> String {
    sx(
        "inputval",
        &[
            dash(),
            v.name.value.to_string(),
            r_type(&v.type_),
            v.default_value.as_ref().map(r_const).unwrap_or_else(dash),
            r_cdirs(&v.directives),
        ],
    )
}

fn r_inputvals(head: &str, l: &Option<rs::List<rs::InputValueDefinition>>) -> String {
    sx(head, &l.as_ref().map(|l| l.items.iter().map(r_inputval).collect::<Vec<_>>()).unwrap_or_default())
}

fn r_fields(l: &Option<rs::List<rs::FieldDefinition>>) -> String {
    sx(
        "fields",
        &l.as_ref()
            .map(|l| {
                l.items
                    .iter()
                    .map(|f| {
                        sx(
                            "fielddef",
                            &[
                                r_desc(&f.description, &f.hack_source),
                                f.name.value.to_string(),
                                r_inputvals("args", &f.arguments),
                                r_type(&f.type_),
                                r_cdirs(&f.directives),
                            ],
                        )
                    })
                    .collect::<Vec<_>>()
            })
            .unwrap_or_default(),
    )
}

fn r_names(head: &str, ns: &[rs::Identifier]) -> String {
    sx(head, &ns.iter().map(|n| n.value.to_string()).collect::<Vec<_>>())
}

fn r_ops(items: &[rs::OperationTypeDefinition]) -> String {
    sx(
        "ops",
        &items
            .iter()
            .map(|o| {
                let k = match o.operation {
                    rs::OperationType::Query => "query",
                    rs::OperationType::Mutation => "mutation",
                    rs::OperationType::Subscription => "subscription",
                };
                format!("({},{})", k, o.type_.value)
            })
            .collect::<Vec<_>>(),
    )
}

fn r_enum_values(l: &Option<rs::List<rs::EnumValueDefinition>>) -> String {
    sx(
        "values",
        &l.as_ref()
            .map(|l| l.items.iter().map(|v| sx("value", &[dash(), v.name.value.to_string(), r_cdirs(&v.directives)])).collect::<Vec<_>>())
            .unwrap_or_default(),
    )
}

pub fn relay_schema_doc(d: &rs::SchemaDocument) -> String {
    use rs::TypeSystemDefinition as T;
    let defs: Vec<String> = d
        .definitions
        .iter()
        .map(|def| match def {
            T::SchemaDefinition(s) => sx("schema", &[dash(), r_cdirs(&s.directives), r_ops(&s.operation_types.items)]),
            T::SchemaExtension(s) => sx(
                "extend-schema",
                &[r_cdirs(&s.directives), r_ops(s.operation_types.as_ref().map(|l| &l.items[..]).unwrap_or(&[]))],
            ),
            T::ScalarTypeDefinition(s) => sx("scalar", &[dash(), s.name.value.to_string(), r_cdirs(&s.directives)]),
            T::ScalarTypeExtension(s) => sx("extend-scalar", &[s.name.value.to_string(), r_cdirs(&s.directives)]),
            T::ObjectTypeDefinition(o) => sx(
                "type",
                &[dash(), o.name.value.to_string(), r_names("impl", &o.interfaces), r_cdirs(&o.directives), r_fields(&o.fields)],
            ),
            T::ObjectTypeExtension(o) => sx(
                "extend-type",
                &[o.name.value.to_string(), r_names("impl", &o.interfaces), r_cdirs(&o.directives), r_fields(&o.fields)],
            ),
            T::InterfaceTypeDefinition(o) => sx(
                "interface",
                &[dash(), o.name.value.to_string(), r_names("impl", &o.interfaces), r_cdirs(&o.directives), r_fields(&o.fields)],
            ),
            T::InterfaceTypeExtension(o) => sx(
                "extend-interface",
                &[o.name.value.to_string(), r_names("impl", &o.interfaces), r_cdirs(&o.directives), r_fields(&o.fields)],
            ),
            T::UnionTypeDefinition(u) => {
                sx("union", &[dash(), u.name.value.to_string(), r_cdirs(&u.directives), r_names("members", &u.members)])
            }
            T::UnionTypeExtension(u) => {
                sx("extend-union", &[u.name.value.to_string(), r_cdirs(&u.directives), r_names("members", &u.members)])
            }
            T::EnumTypeDefinition(e) => {
                sx("enum", &[dash(), e.name.value.to_string(), r_cdirs(&e.directives), r_enum_values(&e.values)])
            }
            T::EnumTypeExtension(e) => {
                sx("extend-enum", &[e.name.value.to_string(), r_cdirs(&e.directives), r_enum_values(&e.values)])
            }
            T::InputObjectTypeDefinition(i) => {
                sx("input", &[dash(), i.name.value.to_string(), r_cdirs(&i.directives), r_inputvals("fields", &i.fields)])
            }
            T::InputObjectTypeExtension(i) => {
                sx("extend-input", &[i.name.value.to_string(), r_cdirs(&i.directives), r_inputvals("fields", &i.fields)])
            }
            T::DirectiveDefinition(dd) => sx(
                "directive",
                &[
                    r_desc(&dd.description, &dd.hack_source),
                    dd.name.value.to_string(),
                    r_inputvals("args", &dd.arguments),
                    if dd.repeatable { "repeatable".to_string() } else { dash() },
                    sx("locs", &dd.locations.iter().map(|l| l.to_string()).collect::<Vec<_>>()),
                ],
            ),
        })
        .collect();
    sx("doc", &defs)
}

// ------------------------------------------------------------------------- graphql_lang_types

struct Iso<'a> {
    src: &'a str,
}

impl<'a> Iso<'a> {
    fn ty(&self, t: &gl::GraphQLTypeAnnotation) -> String {
        match t {
            gl::GraphQLTypeAnnotation::Named(n) => n.0.to_string(),
            gl::GraphQLTypeAnnotation::List(l) => sx("list", &[self.ty(&l.0.item)]),
            gl::GraphQLTypeAnnotation::NonNull(nn) => match &**nn {
                gl::GraphQLNonNullTypeAnnotation::Named(n) => sx("nn", &[n.0.to_string()]),
                gl::GraphQLNonNullTypeAnnotation::List(l) => sx("nn", &[sx("list", &[self.ty(&l.0.item)])]),
            },
        }
    }

    fn value(&self, v: &gl::GraphQLConstantValue, span: common_lang_types::Span) -> String {
        match v {
            gl::GraphQLConstantValue::Int(i) => sx("int", &[i.to_string()]),
            gl::GraphQLConstantValue::Float(f) => {
                // the tree holds the f64; the canonical form is the source text of the literal,
                // accepted only if it denotes exactly that f64
                let text = self.src.get(span.start as usize..span.end as usize).unwrap_or("");
                match text.parse::<f64>() {
                    Ok(x) if x.to_bits() == f.as_float().to_bits() => sx("float", &[text.to_string()]),
                    _ => sx("float", &[format!("?{}", f.as_float())]),
                }
            }
            gl::GraphQLConstantValue::String(s) => sx("str", &[hex_of(&s.to_string())]),
            gl::GraphQLConstantValue::Boolean(b) => sx("bool", &[if *b { "true" } else { "false" }.to_string()]),
            gl::GraphQLConstantValue::Null => "null".to_string(),
            gl::GraphQLConstantValue::Enum(e) => sx("enum", &[e.to_string()]),
            gl::GraphQLConstantValue::List(l) => {
                sx("list", &l.iter().map(|x| self.value(&x.item, x.location.span)).collect::<Vec<_>>())
            }
            gl::GraphQLConstantValue::Object(o) => sx(
                "obj",
                &o.iter()
                    .map(|p| sx("arg", &[p.name.item.to_string(), self.value(&p.value.item, p.value.location.span)]))
                    .collect::<Vec<_>>(),
            ),
        }
    }

    fn dirs(&self, ds: &[gl::GraphQLDirective<gl::GraphQLConstantValue>]) -> String {
        sx(
            "dirs",
            &ds.iter()
                .map(|d| {
                    sx(
                        "dir",
                        &[
                            d.name.item.to_string(),
                            sx(
                                "args",
                                &d.arguments
                                    .iter()
                                    .map(|p| {
                                        sx("arg", &[p.name.item.to_string(), self.value(&p.value.item, p.value.location.span)])
                                    })
                                    .collect::<Vec<_>>(),
                            ),
                        ],
                    )
                })
                .collect::<Vec<_>>(),
        )
    }

    fn desc(&self, d: &Option<common_lang_types::WithEmbeddedLocation<common_lang_types::DescriptionValue>>) -> String {
        match d {
            None => dash(),
            Some(d) => sx("desc", &[hex_of(&d.item.to_string())]),
        }
    }

    fn inputval(&self, v: &gl::GraphQLInputValueDefinition) -> String {
        sx(
            "inputval",
            &[
                self.desc(&v.description),
                v.name.item.to_string(),
                self.ty(&v.type_.item),
                v.default_value.as_ref().map(|d| self.value(&d.item, d.location.span)).unwrap_or_else(dash),
                self.dirs(&v.directives),
            ],
        )
    }

    fn fields(&self, fs: &[common_lang_types::WithEmbeddedLocation<gl::GraphQLFieldDefinition>]) -> String {
        sx(
            "fields",
            &fs.iter()
                .map(|f| {
                    let f = &f.item;
                    sx(
                        "fielddef",
                        &[
                            self.desc(&f.description),
                            f.name.item.to_string(),
                            sx("args", &f.arguments.iter().map(|a| self.inputval(&a.item)).collect::<Vec<_>>()),
                            self.ty(&f.type_.item),
                            self.dirs(&f.directives),
                        ],
                    )
                })
                .collect::<Vec<_>>(),
        )
    }

    fn names<T: std::fmt::Display>(&self, head: &str, ns: &[common_lang_types::WithEmbeddedLocation<T>]) -> String {
        sx(head, &ns.iter().map(|n| n.item.to_string()).collect::<Vec<_>>())
    }

    fn def(&self, d: &gl::GraphQLTypeSystemDefinition) -> String {
        use gl::GraphQLTypeSystemDefinition as T;
        match d {
            T::ObjectTypeDefinition(o) => sx(
                "type",
                &[self.desc(&o.description), o.name.item.to_string(), self.names("impl", &o.interfaces), self.dirs(&o.directives), self.fields(&o.fields)],
            ),
            T::InterfaceTypeDefinition(o) => sx(
                "interface",
                &[self.desc(&o.description), o.name.item.to_string(), self.names("impl", &o.interfaces), self.dirs(&o.directives), self.fields(&o.fields)],
            ),
            T::ScalarTypeDefinition(s) => sx("scalar", &[self.desc(&s.description), s.name.item.to_string(), self.dirs(&s.directives)]),
            T::InputObjectTypeDefinition(i) => sx(
                "input",
                &[
                    self.desc(&i.description),
                    i.name.item.to_string(),
                    self.dirs(&i.directives),
                    sx("fields", &i.fields.iter().map(|a| self.inputval(&a.item)).collect::<Vec<_>>()),
                ],
            ),
            T::DirectiveDefinition(dd) => sx(
                "directive",
                &[
                    self.desc(&dd.description),
                    dd.name.item.to_string(),
                    sx("args", &dd.arguments.iter().map(|a| self.inputval(&a.item)).collect::<Vec<_>>()),
                    if dd.repeatable.is_some() { "repeatable".to_string() } else { dash() },
                    sx("locs", &dd.locations.iter().map(|l| loc_name(l.item)).collect::<Vec<_>>()),
                ],
            ),
            T::EnumDefinition(e) => sx(
                "enum",
                &[
                    self.desc(&e.description),
                    e.name.item.to_string(),
                    self.dirs(&e.directives),
                    sx(
                        "values",
                        &e.enum_value_definitions
                            .iter()
                            .map(|v| sx("value", &[self.desc(&v.item.description), v.item.value.item.to_string(), self.dirs(&v.item.directives)]))
                            .collect::<Vec<_>>(),
                    ),
                ],
            ),
            T::UnionTypeDefinition(u) => sx(
                "union",
                &[self.desc(&u.description), u.name.item.to_string(), self.dirs(&u.directives), self.names("members", &u.union_member_types)],
            ),
            T::SchemaDefinition(s) => {
                let mut ops = vec![];
                if let Some(q) = &s.query {
                    ops.push(format!("(query,{})", q.item));
                }
                if let Some(m) = &s.mutation {
                    ops.push(format!("(mutation,{})", m.item));
                }
                if let Some(x) = &s.subscription {
                    ops.push(format!("(subscription,{})", x.item));
                }
                sx("schema", &[self.desc(&s.description), self.dirs(&s.directives), sx("ops", &ops)])
            }
        }
    }

    fn ext(&self, e: &gl::GraphQLTypeSystemExtension) -> String {
        match e {
            gl::GraphQLTypeSystemExtension::ObjectTypeExtension(o) => sx(
                "extend-type",
                &[o.name.item.to_string(), self.names("impl", &o.interfaces), self.dirs(&o.directives), self.fields(&o.fields)],
            ),
        }
    }
}

fn loc_name(l: gl::DirectiveLocation) -> String {
    // SCREAMING_SNAKE_CASE of the variant name (what `from_str` accepted)
    let dbg = format!("{:?}", l);
    let mut out = String::new();
    for (i, c) in dbg.chars().enumerate() {
        if c.is_ascii_uppercase() && i > 0 {
            out.push('_');
        }
        out.push(c.to_ascii_uppercase());
    }
    out
}

pub fn iso_doc(d: &gl::GraphQLTypeSystemDocument, src: &str) -> String {
    let iso = Iso { src };
    sx("doc", &d.0.iter().map(|x| iso.def(&x.item)).collect::<Vec<_>>())
}

pub fn iso_ext_doc(d: &gl::GraphQLTypeSystemExtensionDocument, src: &str) -> String {
    let iso = Iso { src };
    sx(
        "doc",
        &d.0.iter()
            .map(|x| match &x.item {
                gl::GraphQLTypeSystemExtensionOrDefinition::Definition(d) => iso.def(d),
                gl::GraphQLTypeSystemExtensionOrDefinition::Extension(e) => iso.ext(e),
            })
            .collect::<Vec<_>>(),
    )
}
