//! Correspondence harness for M-PICO (properties C01, C02, C03).
//!
//! A case is a `case` line (LRU capacity, engine tag), a `prog` line (a program of the model's
//! expression language) and a history of operations.  `run` replays the history on the real
//! `pico` crate: the program is interpreted by a fixed family of `#[memo]` functions (one per
//! parameter shape) that read it from a thread-local (not a pico source, so reading it registers no
//! dependency) and bump per-function run counters.
//!
//! Request lines (tab separated):
//!   case <id> <cap> <engine>     prog <nfn> <kind:expr>…      set k v | rem k | sset i v | srem i
//!   tins m k | trem m k | call f a | look f a | retain f a | unretain f a | nevergc f a | gc | where v
//! Answers:  ok | noref | dead | val <v> <runs> | panic:<class> [<runs>] | in <f> <a> | none
//! Function kinds: 0 = owned u64 parameter, 1 = SourceId parameter, 2 = no parameter, 3 = u64 parameter and the
//! body (which must be a call `c<g> e`) is followed by `intern_ref(&callee_value)`; `where v` says into which node's
//! current value the interned reference for the value v points (pointer identity, nothing is dereferenced).
//! Expressions, prefix notation, space separated: l<n> p s g<i> t<m> c<f> + = ? h
use std::cell::RefCell;
use std::collections::{BTreeSet, HashMap};
use std::panic::{catch_unwind, AssertUnwindSafe};
use std::rc::Rc;

use hx_common::Rng;
use pico::{clear_retain, retain, Database, Key, MemoRef, RetainedQuery, SourceId, Storage};
use pico_macros::{memo, Db, Singleton, Source};

// ------------------------------------------------------------------------------------------ programs

#[derive(Clone, Debug)]
enum Expr {
    Lit(u64),
    Param,
    Src(Box<Expr>),
    Sing(u32),
    Trk(u32),
    Call(u32, Box<Expr>),
    Add(Box<Expr>, Box<Expr>),
    Eq(Box<Expr>, Box<Expr>),
    Ite(Box<Expr>, Box<Expr>, Box<Expr>),
    Half(Box<Expr>),
}

#[derive(Clone, Debug)]
struct FnDef {
    kind: u32,
    body: Expr,
}

fn show(e: &Expr, out: &mut Vec<String>) {
    match e {
        Expr::Lit(n) => out.push(format!("l{}", n)),
        Expr::Param => out.push("p".into()),
        Expr::Src(k) => {
            out.push("s".into());
            show(k, out)
        }
        Expr::Sing(i) => out.push(format!("g{}", i)),
        Expr::Trk(m) => out.push(format!("t{}", m)),
        Expr::Call(f, a) => {
            out.push(format!("c{}", f));
            show(a, out)
        }
        Expr::Add(a, b) => {
            out.push("+".into());
            show(a, out);
            show(b, out)
        }
        Expr::Eq(a, b) => {
            out.push("=".into());
            show(a, out);
            show(b, out)
        }
        Expr::Ite(c, t, e) => {
            out.push("?".into());
            show(c, out);
            show(t, out);
            show(e, out)
        }
        Expr::Half(a) => {
            out.push("h".into());
            show(a, out)
        }
    }
}

fn parse_expr(toks: &[&str], pos: &mut usize) -> Option<Expr> {
    let t = *toks.get(*pos)?;
    *pos += 1;
    let num = |s: &str| s.parse::<u64>().ok();
    Some(match t.as_bytes()[0] {
        b'l' => Expr::Lit(num(&t[1..])?),
        b'p' => Expr::Param,
        b's' => Expr::Src(Box::new(parse_expr(toks, pos)?)),
        b'g' => Expr::Sing(num(&t[1..])? as u32),
        b't' => Expr::Trk(num(&t[1..])? as u32),
        b'c' => Expr::Call(num(&t[1..])? as u32, Box::new(parse_expr(toks, pos)?)),
        b'+' => Expr::Add(Box::new(parse_expr(toks, pos)?), Box::new(parse_expr(toks, pos)?)),
        b'=' => Expr::Eq(Box::new(parse_expr(toks, pos)?), Box::new(parse_expr(toks, pos)?)),
        b'?' => Expr::Ite(
            Box::new(parse_expr(toks, pos)?),
            Box::new(parse_expr(toks, pos)?),
            Box::new(parse_expr(toks, pos)?),
        ),
        b'h' => Expr::Half(Box::new(parse_expr(toks, pos)?)),
        _ => return None,
    })
}

fn parse_fn(field: &str) -> Option<FnDef> {
    let (k, e) = field.split_once(':')?;
    let toks: Vec<&str> = e.split(' ').filter(|s| !s.is_empty()).collect();
    let mut pos = 0;
    let body = parse_expr(&toks, &mut pos)?;
    if pos != toks.len() {
        return None;
    }
    Some(FnDef { kind: k.parse().ok()?, body })
}

// ------------------------------------------------------------------------------------------ database

#[derive(Db)]
struct TestDatabase {
    storage: Storage<Self>,
    #[tracked]
    map0: BTreeSet<u64>,
    #[tracked]
    map1: BTreeSet<u64>,
}

impl TestDatabase {
    fn new(cap: usize) -> Self {
        Self {
            storage: Storage::new_with_capacity(cap.max(1).try_into().unwrap()),
            map0: BTreeSet::new(),
            map1: BTreeSet::new(),
        }
    }
}

#[derive(Debug, Clone, PartialEq, Eq, Source)]
struct Input {
    #[key]
    key: u64,
    value: u64,
}

#[derive(Debug, Clone, PartialEq, Eq, Singleton)]
struct S0(u64);

#[derive(Debug, Clone, PartialEq, Eq, Singleton)]
struct S1(u64);

thread_local! {
    static PROG: RefCell<Rc<Vec<FnDef>>> = RefCell::new(Rc::new(vec![]));
    static RUNS: RefCell<Vec<u64>> = RefCell::new(vec![]);
    static KEYS: RefCell<HashMap<Key, u64>> = RefCell::new(HashMap::new());
    /// every MemoRef ever returned by an interpreter function, by normalised (f, a)
    static ALLREFS: RefCell<HashMap<(u32, u64), MemoRef<u64>>> = RefCell::new(HashMap::new());
    /// value -> the MemoRef returned by intern_ref for that value (its identity is the value)
    static INTERNED: RefCell<HashMap<u64, MemoRef<u64>>> = RefCell::new(HashMap::new());
}

fn sid(k: u64) -> SourceId<Input> {
    let id = SourceId::<Input>::new(&Input { key: k, value: 0 });
    KEYS.with(|m| m.borrow_mut().insert(id.key, k));
    id
}

fn key_of(id: SourceId<Input>) -> u64 {
    KEYS.with(|m| *m.borrow().get(&id.key).expect("harness: unknown source id"))
}

fn fn_def(prog: &Rc<Vec<FnDef>>, f: u32) -> FnDef {
    prog.get(f as usize).cloned().unwrap_or(FnDef { kind: 0, body: Expr::Lit(0) })
}

/// The body shared by the three interpreter functions: bump the counter, interpret.
fn body(db: &TestDatabase, f: u32, a: u64) -> u64 {
    RUNS.with(|r| {
        if let Some(c) = r.borrow_mut().get_mut(f as usize) {
            *c += 1
        }
    });
    let prog = PROG.with(|p| p.borrow().clone());
    let def = fn_def(&prog, f);
    eval(db, &prog, &def.body, a)
}

#[memo(raw)]
fn interp_u(db: &TestDatabase, f: u32, a: u64) -> u64 {
    body(db, f, a)
}

#[memo(raw)]
fn interp_s(db: &TestDatabase, f: u32, id: SourceId<Input>) -> u64 {
    body(db, f, key_of(id))
}

#[memo(raw)]
fn interp_0(db: &TestDatabase, f: u32) -> u64 {
    body(db, f, 0)
}

/// kind 3: run the body (a call of an owner), then intern a reference to the owner's stored value
#[memo(raw)]
fn interp_r(db: &TestDatabase, f: u32, a: u64) -> u64 {
    RUNS.with(|r| {
        if let Some(c) = r.borrow_mut().get_mut(f as usize) {
            *c += 1
        }
    });
    let prog = PROG.with(|p| p.borrow().clone());
    let def = fn_def(&prog, f);
    match &def.body {
        Expr::Call(g, arg) => {
            let av = eval(db, &prog, arg, a);
            let owner = call_raw(db, &prog, *g, av);
            let r: &u64 = owner.lookup(db);
            let m = pico::intern_ref(db, r);
            INTERNED.with(|t| t.borrow_mut().insert(*r, m));
            *r
        }
        other => eval(db, &prog, other, a),
    }
}

fn call_raw(db: &TestDatabase, prog: &Rc<Vec<FnDef>>, f: u32, a: u64) -> MemoRef<u64> {
    let kind = fn_def(prog, f).kind;
    let m = match kind {
        2 => interp_0(db, f),
        1 => interp_s(db, f, sid(a)),
        3 => interp_r(db, f, a),
        _ => interp_u(db, f, a),
    };
    ALLREFS.with(|t| t.borrow_mut().insert(if kind == 2 { (f, 0) } else { (f, a) }, m));
    m
}

fn eval(db: &TestDatabase, prog: &Rc<Vec<FnDef>>, e: &Expr, a: u64) -> u64 {
    match e {
        Expr::Lit(n) => *n,
        Expr::Param => a,
        Expr::Src(k) => {
            let kv = eval(db, prog, k, a);
            db.get(sid(kv)).value
        }
        Expr::Sing(i) => {
            if i % 2 == 0 {
                db.get_singleton::<S0>().map_or(0, |s| s.0 + 1)
            } else {
                db.get_singleton::<S1>().map_or(0, |s| s.0 + 1)
            }
        }
        Expr::Trk(m) => {
            if m % 2 == 0 {
                let view = db.get_map0();
                view.tracked().len() as u64
            } else {
                let view = db.get_map1();
                view.tracked().len() as u64
            }
        }
        Expr::Call(f, arg) => {
            let av = eval(db, prog, arg, a);
            *call_raw(db, prog, *f, av).lookup(db)
        }
        Expr::Add(x, y) => {
            let xv = eval(db, prog, x, a);
            let yv = eval(db, prog, y, a);
            xv.wrapping_add(yv)
        }
        Expr::Eq(x, y) => {
            let xv = eval(db, prog, x, a);
            let yv = eval(db, prog, y, a);
            (xv == yv) as u64
        }
        Expr::Ite(c, t, f) => {
            let cv = eval(db, prog, c, a);
            if cv != 0 {
                eval(db, prog, t, a)
            } else {
                eval(db, prog, f, a)
            }
        }
        Expr::Half(x) => eval(db, prog, x, a) / 2,
    }
}

fn panic_class(p: &Box<dyn std::any::Any + Send>) -> &'static str {
    let msg: &str = if let Some(s) = p.downcast_ref::<&str>() {
        s
    } else if let Some(s) = p.downcast_ref::<String>() {
        s.as_str()
    } else {
        ""
    };
    if msg.contains("Source node not found") {
        "absent"
    } else if msg.contains("Cyclic dependency") {
        "cyclic"
    } else if msg.contains("Derived node not found") {
        "missing"
    } else if msg.contains("Expected revision to be present") {
        "gcmissing"
    } else {
        "other"
    }
}

fn runs_str() -> String {
    RUNS.with(|r| {
        let r = r.borrow();
        if r.is_empty() {
            "-".to_string()
        } else {
            r.iter().map(|c| c.to_string()).collect::<Vec<_>>().join(",")
        }
    })
}

struct Session {
    db: TestDatabase,
    refs: HashMap<(u32, u64), MemoRef<u64>>,
    guards: HashMap<(u32, u64), Vec<RetainedQuery>>,
    dead: bool,
}

impl Session {
    fn new(cap: usize) -> Self {
        Session { db: TestDatabase::new(cap), refs: HashMap::new(), guards: HashMap::new(), dead: false }
    }
    fn defuse(&mut self) {
        for (_, v) in self.guards.drain() {
            for g in v {
                g.never_garbage_collect();
            }
        }
    }
}

fn norm(prog: &Rc<Vec<FnDef>>, f: u32, a: u64) -> (u32, u64) {
    if fn_def(prog, f).kind == 2 {
        (f, 0)
    } else {
        (f, a)
    }
}

fn run_line(sess: &mut Session, fs: &[&str]) -> String {
    let n = |i: usize| -> Option<u64> { fs.get(i).and_then(|s| s.parse::<u64>().ok()) };
    match fs[0] {
        "case" => {
            sess.defuse();
            let cap = n(2).unwrap_or(10) as usize;
            *sess = Session::new(cap);
            PROG.with(|p| *p.borrow_mut() = Rc::new(vec![]));
            RUNS.with(|r| r.borrow_mut().clear());
            ALLREFS.with(|t| t.borrow_mut().clear());
            INTERNED.with(|t| t.borrow_mut().clear());
            return "ok".into();
        }
        "prog" => {
            let mut v = vec![];
            for f in &fs[2..] {
                match parse_fn(f) {
                    Some(d) => v.push(d),
                    None => return "bad-op".into(),
                }
            }
            RUNS.with(|r| *r.borrow_mut() = vec![0; v.len()]);
            PROG.with(|p| *p.borrow_mut() = Rc::new(v));
            return "ok".into();
        }
        _ => {}
    }
    if sess.dead {
        return "dead".into();
    }
    let prog = PROG.with(|p| p.borrow().clone());
    match (fs[0], n(1), n(2)) {
        ("set", Some(k), Some(v)) => {
            sess.db.set(Input { key: k, value: v });
            "ok".into()
        }
        ("rem", Some(k), _) => {
            sess.db.remove(sid(k));
            "ok".into()
        }
        ("sset", Some(i), Some(v)) => {
            if i % 2 == 0 {
                sess.db.set(S0(v));
            } else {
                sess.db.set(S1(v));
            }
            "ok".into()
        }
        ("srem", Some(i), _) => {
            if i % 2 == 0 {
                sess.db.remove_singleton::<S0>();
            } else {
                sess.db.remove_singleton::<S1>();
            }
            "ok".into()
        }
        ("tins", Some(m), Some(k)) => {
            if m % 2 == 0 {
                sess.db.get_map0_mut().tracked().insert(k);
            } else {
                sess.db.get_map1_mut().tracked().insert(k);
            }
            "ok".into()
        }
        ("trem", Some(m), Some(k)) => {
            if m % 2 == 0 {
                sess.db.get_map0_mut().tracked().remove(&k);
            } else {
                sess.db.get_map1_mut().tracked().remove(&k);
            }
            "ok".into()
        }
        ("call", Some(f), Some(a)) => {
            let f = f as u32;
            let db = &sess.db;
            let r = catch_unwind(AssertUnwindSafe(|| {
                let m = call_raw(db, &prog, f, a);
                (m, *m.lookup(db))
            }));
            match r {
                Ok((m, v)) => {
                    sess.refs.insert(norm(&prog, f, a), m);
                    format!("val\t{}\t{}", v, runs_str())
                }
                Err(p) => format!("panic:{}\t{}", panic_class(&p), runs_str()),
            }
        }
        ("look", Some(f), Some(a)) => match sess.refs.get(&norm(&prog, f as u32, a)) {
            None => "noref".into(),
            Some(m) => {
                let db = &sess.db;
                let m = *m;
                match catch_unwind(AssertUnwindSafe(|| *m.lookup(db))) {
                    Ok(v) => format!("val\t{}", v),
                    Err(p) => format!("panic:{}", panic_class(&p)),
                }
            }
        },
        ("retain", Some(f), Some(a)) => {
            let id = norm(&prog, f as u32, a);
            match sess.refs.get(&id) {
                None => "noref".into(),
                Some(m) => {
                    let g = retain(&sess.db, *m);
                    sess.guards.entry(id).or_default().push(g);
                    "ok".into()
                }
            }
        }
        ("unretain", Some(f), Some(a)) => {
            let id = norm(&prog, f as u32, a);
            match sess.guards.get_mut(&id).and_then(|v| v.pop()) {
                None => "noref".into(),
                Some(g) => {
                    clear_retain(&sess.db, g);
                    "ok".into()
                }
            }
        }
        ("nevergc", Some(f), Some(a)) => {
            let id = norm(&prog, f as u32, a);
            match sess.guards.get_mut(&id).and_then(|v| v.pop()) {
                None => "noref".into(),
                Some(g) => {
                    g.never_garbage_collect();
                    "ok".into()
                }
            }
        }
        ("where", Some(v), _) => {
            let m = INTERNED.with(|t| t.borrow().get(&v).copied());
            match m {
                None => "noref".into(),
                Some(m) => {
                    let db = &sess.db;
                    // pointer identity only: the reference is never read
                    match catch_unwind(AssertUnwindSafe(|| m.lookup(db) as *const u64 as usize)) {
                        Err(p) => format!("panic:{}", panic_class(&p)),
                        Ok(addr) => {
                            let mut all: Vec<((u32, u64), MemoRef<u64>)> =
                                ALLREFS.with(|t| t.borrow().iter().map(|(k, v)| (*k, *v)).collect());
                            all.sort_by_key(|(k, _)| *k);
                            let mut ans = "none".to_string();
                            for (k, r) in all {
                                if let Ok(a2) = catch_unwind(AssertUnwindSafe(|| r.lookup(db) as *const u64 as usize)) {
                                    if a2 == addr {
                                        ans = format!("in\t{}\t{}", k.0, k.1);
                                        break;
                                    }
                                }
                            }
                            ans
                        }
                    }
                }
            }
        }
        ("gc", _, _) => {
            let db = &mut sess.db;
            match catch_unwind(AssertUnwindSafe(|| db.run_garbage_collection())) {
                Ok(()) => "ok".into(),
                Err(p) => {
                    sess.dead = true;
                    format!("panic:{}", panic_class(&p))
                }
            }
        }
        _ => "bad-op".into(),
    }
}

// ------------------------------------------------------------------------------------------ generator

struct G<'a> {
    r: &'a mut Rng,
    nfn: usize,
    cyclic: bool,
}

impl<'a> G<'a> {
    fn key(&mut self) -> Expr {
        match self.r.below(10) {
            0..=4 => Expr::Param,
            5..=8 => Expr::Lit(self.r.below(3) as u64),
            _ => Expr::Lit(self.r.below(5) as u64),
        }
    }
    /// a callee for function `i`: a later function (acyclic by rank) unless the program is cyclic
    fn callee(&mut self, i: usize) -> Option<u32> {
        if self.cyclic && self.r.chance(1, 3) {
            return Some(self.r.below(self.nfn) as u32);
        }
        if i + 1 >= self.nfn {
            None
        } else {
            Some(self.r.range(i + 1, self.nfn - 1) as u32)
        }
    }
    fn call(&mut self, i: usize) -> Expr {
        match self.callee(i) {
            Some(f) => {
                let a = self.key();
                Expr::Call(f, Box::new(a))
            }
            None => self.leaf(),
        }
    }
    fn leaf(&mut self) -> Expr {
        match self.r.below(12) {
            0..=3 => Expr::Src(Box::new(self.key())),
            4..=6 => Expr::Sing(self.r.below(2) as u32),
            7..=8 => Expr::Trk(self.r.below(2) as u32),
            9 => Expr::Param,
            _ => Expr::Lit(self.r.below(4) as u64),
        }
    }
    fn expr(&mut self, i: usize, depth: usize) -> Expr {
        if depth == 0 {
            return if self.r.chance(1, 2) { self.call(i) } else { self.leaf() };
        }
        match self.r.below(12) {
            0..=2 => self.call(i),
            3..=4 => self.leaf(),
            5..=6 => Expr::Add(Box::new(self.expr(i, depth - 1)), Box::new(self.expr(i, depth - 1))),
            7 => Expr::Eq(Box::new(self.expr(i, depth - 1)), Box::new(Expr::Lit(self.r.below(4) as u64))),
            8..=9 => Expr::Ite(
                Box::new(self.expr(i, depth - 1)),
                Box::new(self.expr(i, depth - 1)),
                Box::new(self.expr(i, depth - 1)),
            ),
            10 => Expr::Half(Box::new(self.expr(i, depth - 1))),
            _ => Expr::Src(Box::new(self.expr(i, depth - 1))),
        }
    }
    /// bodies shaped after the patterns the properties point at
    fn body(&mut self, i: usize) -> Expr {
        let last = i + 1 >= self.nfn;
        match self.r.below(20) {
            // chain link / value-preserving middle
            0..=3 if !last => self.call(i),
            4..=5 if !last => Expr::Half(Box::new(self.call(i))),
            6 if !last => Expr::Eq(Box::new(self.call(i)), Box::new(Expr::Lit(self.r.below(3) as u64))),
            7 if !last => Expr::Ite(Box::new(self.call(i)), Box::new(Expr::Lit(1)), Box::new(Expr::Lit(0))),
            // diamond
            8..=9 if !last => Expr::Add(Box::new(self.call(i)), Box::new(self.call(i))),
            // singleton readers
            10 => Expr::Sing(self.r.below(2) as u32),
            11 => Expr::Ite(
                Box::new(Expr::Sing(self.r.below(2) as u32)),
                Box::new(self.leaf()),
                Box::new(Expr::Lit(7)),
            ),
            12 => Expr::Trk(self.r.below(2) as u32),
            // plain source readers
            13..=14 => Expr::Src(Box::new(Expr::Param)),
            15 => Expr::Add(Box::new(Expr::Src(Box::new(Expr::Lit(0)))), Box::new(Expr::Src(Box::new(Expr::Lit(1))))),
            // reads nothing
            16 => Expr::Lit(self.r.below(4) as u64),
            _ => {
                let d = self.r.range(1, 3);
                self.expr(i, d)
            }
        }
    }
}

fn gen_case(r: &mut Rng, idx: u64) -> Vec<String> {
    let engine = std::env::var("HX_ENGINE").unwrap_or_else(|_| "c01".into());
    let mut out = vec![];
    let cap = match r.below(10) {
        0..=3 => 1,
        4..=6 => 2,
        7..=8 => 3,
        _ => 10,
    };
    out.push(format!("case\t{}\t{}\t{}", idx, cap, engine));
    // one case in five is a scripted pattern (the ones the properties point at) followed by random operations
    let scripted = if r.chance(1, 5) { Some(r.below(9)) } else { None };
    let mut keyed: HashMap<u64, u64> = HashMap::new();
    let mut sing: HashMap<u64, u64> = HashMap::new();
    let nfn;
    let hot: Vec<(u64, u64)>;
    if let Some(which) = scripted {
        let a = r.below(3) as u64; // the key / argument the pattern works on
        let b = (a + 1) % 3;
        let v = r.below(3) as u64;
        let kind = |r: &mut Rng| if r.chance(2, 3) { 0 } else { 1 };
        let (progs, ops, hots): (Vec<String>, Vec<String>, Vec<(u64, u64)>) = match which {
            // absent singleton, then first write (F1); through a chain half of the time
            0 => {
                let i = r.below(2);
                let chain = r.chance(1, 2);
                let p = if chain { vec![format!("{}:c1 p", kind(r)), format!("2:+ g{} l1", i)] } else { vec![format!("2:+ g{} l1", i)] };
                (p, vec![format!("call\t0\t{}", a), format!("sset\t{}\t{}", i, v), format!("call\t0\t{}", a)], vec![(0, a)])
            }
            // absent tracked counter, then first insert (F1 on tracked fields)
            1 => {
                let m = r.below(2);
                (vec![format!("2:t{}", m)], vec![format!("call\t0\t0"), format!("tins\t{}\t{}", m, v), format!("call\t0\t0")], vec![(0, 0)])
            }
            // remove a singleton, re-run the inner reader alone, then the outer (F2)
            2 => {
                let i = r.below(2);
                (vec![format!("{}:c1 p", kind(r)), format!("2:+ g{} l2", i)],
                 vec![format!("sset\t{}\t{}", i, v), format!("call\t0\t{}", a), format!("srem\t{}", i), format!("call\t1\t0"), format!("call\t0\t{}", a)],
                 vec![(0, a), (1, 0)])
            }
            // equal-value write around an unrelated change (F3)
            3 => {
                let mut o = vec![format!("set\t{}\t{}", a, v), format!("set\t{}\t0", b), format!("call\t0\t{}", a)];
                if r.chance(1, 2) {
                    o.push(format!("set\t{}\t1", b));
                    o.push(format!("set\t{}\t{}", a, v));
                } else {
                    o.push(format!("set\t{}\t{}", a, v));
                    o.push(format!("set\t{}\t1", b));
                }
                o.push(format!("call\t0\t{}", a));
                keyed.insert(a, v);
                keyed.insert(b, 1);
                (vec![format!("{}:s p", kind(r))], o, vec![(0, a)])
            }
            // nodes verified on the way become dependencies of the caller (F22)
            4 => {
                let p = vec![format!("{}:c1 p", kind(r)), format!("{}:= + c2 p c3 p l9", kind(r)), format!("{}:s p", kind(r)), "2:s l2".to_string()];
                let a = r.below(2) as u64;
                let o = vec![format!("set\t{}\t{}", a, v), "set\t2\t1".to_string(), "set\t3\t0".to_string(), format!("call\t1\t{}", a), "set\t3\t1".to_string(),
                             format!("call\t0\t{}", a), format!("set\t{}\t{}", a, v + 1), format!("call\t0\t{}", a)];
                keyed.insert(a, v + 1);
                keyed.insert(2, 1);
                (p, o, vec![(0, a), (1, a)])
            }
            // a re-verified top-level query is pushed out of the LRU by its own dependencies
            5 => {
                let depth = r.range(1, 3);
                let mut p = vec![];
                for d in 0..depth {
                    p.push(format!("{}:c{} p", kind(r), d + 1));
                }
                p.push(format!("{}:s p", kind(r)));
                let o = vec![format!("set\t{}\t{}", a, v), format!("set\t{}\t0", b), format!("call\t0\t{}", a), format!("set\t{}\t{}", b, v + 1), format!("call\t0\t{}", a),
                             "gc".to_string(), format!("call\t0\t{}", a)];
                keyed.insert(a, v);
                keyed.insert(b, v + 1);
                (p, o, vec![(0, a)])
            }
            // two ref functions intern equal values from different owners in one epoch; only the second is kept (F19)
            6 => {
                let p = vec!["3:c1 p".to_string(), format!("{}:s p", kind(r))];
                let w = 5 + v;
                let mut o = vec![format!("set\t{}\t{}", a, w), format!("set\t{}\t{}", b, w), format!("call\t0\t{}", a), format!("where\t{}", w),
                                 format!("call\t0\t{}", b), format!("where\t{}", w)];
                if r.chance(2, 3) {
                    o.push(format!("retain\t0\t{}", b));
                }
                o.push("gc".to_string());
                o.push(format!("where\t{}", w));
                keyed.insert(a, w);
                keyed.insert(b, w);
                (p, o, vec![(0, a), (0, b)])
            }
            // a stale node registered during verification (F22) is re-executed although it is no longer reached
            7 => {
                let p = vec![format!("{}:c1 p", kind(r)), "0:? s l5 c2 p l0".to_string(), "0:s p".to_string()];
                let a = r.below(3) as u64;
                let mut o = vec!["set\t5\t1".to_string(), format!("set\t{}\t{}", a, v), "set\t9\t0".to_string(), format!("call\t1\t{}", a),
                                 "set\t9\t1".to_string(), format!("call\t0\t{}", a), "set\t5\t0".to_string()];
                if r.chance(2, 3) {
                    o.push(format!("rem\t{}", a));
                    keyed.remove(&a);
                } else {
                    o.push(format!("set\t{}\t{}", a, v + 1));
                    keyed.insert(a, v + 1);
                }
                o.push(format!("call\t0\t{}", a));
                keyed.insert(5, 0);
                keyed.insert(9, 1);
                (p, o, vec![(0, a), (1, a)])
            }
            // chain of depth 3 with a value-preserving middle (backdating)
            _ => {
                let p = vec![format!("{}:+ c1 p l1", kind(r)), format!("{}:h c2 p", kind(r)), format!("{}:s p", kind(r))];
                let o = vec![format!("set\t{}\t4", a), format!("call\t0\t{}", a), format!("set\t{}\t5", a), format!("call\t0\t{}", a),
                             format!("set\t{}\t{}", a, 6 + v), format!("call\t0\t{}", a)];
                keyed.insert(a, 6 + v);
                (p, o, vec![(0, a)])
            }
        };
        nfn = progs.len();
        out.push(format!("prog\t{}\t{}", nfn, progs.join("\t")));
        out.extend(ops);
        hot = hots;
    } else {
    nfn = r.range(1, 6);
    let cyclic = r.chance(1, 25);
    let mut g = G { r: &mut *r, nfn, cyclic };
    let mut prog = vec![];
    for i in 0..nfn {
        let body = g.body(i);
        let kind = match g.r.below(10) {
            0..=5 => 0,
            6..=7 => 1,
            _ => 2,
        };
        prog.push(FnDef { kind, body });
    }
    // ref functions (kind 3): `intern_ref` of the value of a callee that is not itself a ref function
    for i in (0..nfn.saturating_sub(1)).rev() {
        if g.r.chance(1, 7) {
            let j = g.r.range(i + 1, nfn - 1);
            if prog[j].kind != 3 {
                let a = g.key();
                prog[i] = FnDef { kind: 3, body: Expr::Call(j as u32, Box::new(a)) };
            }
        }
    }
    let mut line = format!("prog\t{}", nfn);
    for d in &prog {
        let mut toks = vec![];
        show(&d.body, &mut toks);
        line.push_str(&format!("\t{}:{}", d.kind, toks.join(" ")));
    }
    out.push(line);
    if r.chance(7, 10) {
        for k in 0..3u64 {
            let v = r.below(3) as u64;
            keyed.insert(k, v);
            out.push(format!("set\t{}\t{}", k, v));
        }
    }
    if r.chance(3, 10) {
        for i in 0..2u64 {
            let v = r.below(3) as u64;
            sing.insert(i, v);
            out.push(format!("sset\t{}\t{}", i, v));
        }
    }
    // a few hot (f, a) pairs: most calls repeat them
    let nhot = r.range(1, 3);
    hot = (0..nhot).map(|_| (r.below(nfn.min(3)) as u64, r.below(3) as u64)).collect();
    }
    let (w_eq, w_gc, w_ret) = match engine.as_str() {
        "c02" => (50, 4, 2),
        "c03" => (25, 16, 8),
        _ => (30, 7, 3),
    };
    let len = if scripted.is_some() { r.range(0, 10) } else { r.range(3, 36) };
    for _ in 0..len {
        let pick = |r: &mut Rng| -> (u64, u64) {
            if r.chance(4, 5) {
                *r.pick(&hot)
            } else {
                (r.below(nfn) as u64, r.below(4) as u64)
            }
        };
        let w = r.below(100 + w_gc + 3 * w_ret);
        if w < 20 {
            let k = r.below(3) as u64 + if r.chance(1, 12) { 1 } else { 0 };
            let v = match keyed.get(&k) {
                Some(old) if r.chance(w_eq, 100) => *old,
                _ => r.below(4) as u64,
            };
            keyed.insert(k, v);
            out.push(format!("set\t{}\t{}", k, v));
        } else if w < 25 {
            let k = r.below(3) as u64;
            keyed.remove(&k);
            out.push(format!("rem\t{}", k));
            if r.chance(2, 3) {
                // remove-then-set
                let v = r.below(3) as u64;
                keyed.insert(k, v);
                out.push(format!("set\t{}\t{}", k, v));
            }
        } else if w < 34 {
            let i = r.below(2) as u64;
            let v = match sing.get(&i) {
                Some(old) if r.chance(w_eq, 100) => *old,
                _ => r.below(3) as u64,
            };
            sing.insert(i, v);
            out.push(format!("sset\t{}\t{}", i, v));
        } else if w < 39 {
            let i = r.below(2) as u64;
            sing.remove(&i);
            out.push(format!("srem\t{}", i));
        } else if w < 45 {
            out.push(format!("tins\t{}\t{}", r.below(2), r.below(3)));
        } else if w < 48 {
            out.push(format!("trem\t{}\t{}", r.below(2), r.below(3)));
        } else if w < 97 {
            let (f, a) = pick(r);
            out.push(format!("call\t{}\t{}", f, a));
        } else if w < 99 {
            let (f, a) = pick(r);
            out.push(format!("look\t{}\t{}", f, a));
        } else if w < 100 {
            out.push(format!("where\t{}", r.below(8)));
        } else if w < 100 + w_gc {
            out.push("gc".into());
            if r.chance(2, 3) {
                let (f, a) = pick(r);
                out.push(format!("call\t{}\t{}", f, a));
            }
        } else {
            let (f, a) = pick(r);
            match r.below(6) {
                0..=2 => out.push(format!("retain\t{}\t{}", f, a)),
                3..=4 => out.push(format!("unretain\t{}\t{}", f, a)),
                _ => out.push(format!("nevergc\t{}\t{}", f, a)),
            }
        }
    }
    out
}

fn main() {
    let sess = RefCell::new(Session::new(10));
    let mut run = |fs: &[&str]| -> String { run_line(&mut sess.borrow_mut(), fs) };
    hx_common::main_loop(&gen_case, &mut run);
    sess.borrow_mut().defuse();
}
