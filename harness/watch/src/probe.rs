//! `hx_watch probe`: replays the rows of the event table (`tree.rs`) against a REAL debounced
//! inotify watcher (`notify_debouncer_full::new_debouncer`, 100 ms, watches set up the way
//! `create_debounced_file_watcher` does) and prints what arrives.  Run by hand; not part of a check.
use notify::RecursiveMode;
use notify_debouncer_full::{new_debouncer, DebounceEventResult};
use std::fs;
use std::path::Path;
use std::sync::mpsc::channel;
use std::time::Duration;

fn show(root: &Path, what: &str, rx: &std::sync::mpsc::Receiver<DebounceEventResult>) {
    std::thread::sleep(Duration::from_millis(450));
    println!("## {what}");
    while let Ok(res) = rx.try_recv() {
        match res {
            Ok(events) => {
                for e in events {
                    let paths: Vec<String> =
                        e.paths.iter().map(|p| p.strip_prefix(root).map(|x| x.display().to_string()).unwrap_or(p.display().to_string())).collect();
                    println!("   {:?} {:?}", e.kind, paths);
                }
            }
            Err(errs) => println!("   errors: {errs:?}"),
        }
    }
}

pub fn main() {
    let base = std::env::temp_dir().join(format!("hx_watch_probe_{}", std::process::id()));
    let _ = fs::remove_dir_all(&base);
    let root = base.join("proj");
    let outside = base.join("outside");
    fs::create_dir_all(root.join("src/a")).unwrap();
    fs::create_dir_all(root.join("src/ab")).unwrap();
    fs::create_dir_all(&outside).unwrap();
    fs::write(root.join("schema.graphql"), "type Query { a: String }").unwrap();
    fs::write(root.join("src/a/x.ts"), "1").unwrap();
    fs::write(root.join("src/a/y.ts"), "1").unwrap();
    fs::write(root.join("src/ab/x.ts"), "1").unwrap();
    let root = root.canonicalize().unwrap();
    let (tx, rx) = channel();
    let mut w = new_debouncer(Duration::from_millis(100), None, tx).expect("debouncer");
    w.watch(root.join("src"), RecursiveMode::Recursive).expect("watch src");
    w.watch(root.join("schema.graphql"), RecursiveMode::NonRecursive).expect("watch schema");
    show(&root, "(start)", &rx);

    fs::write(root.join("src/a/new.ts"), "2").unwrap();
    show(&root, "write NEW file src/a/new.ts", &rx);
    fs::write(root.join("src/a/x.ts"), "3").unwrap();
    show(&root, "overwrite EXISTING file src/a/x.ts", &rx);
    fs::write(root.join("src/a/.tmp1"), "4").unwrap();
    fs::rename(root.join("src/a/.tmp1"), root.join("src/a/x.ts")).unwrap();
    show(&root, "write temp file + rename onto src/a/x.ts (one window)", &rx);
    fs::write(root.join("src/a/.tmp2"), "5").unwrap();
    show(&root, "write temp file src/a/.tmp2", &rx);
    fs::rename(root.join("src/a/.tmp2"), root.join("src/a/x.ts")).unwrap();
    show(&root, "… rename it onto src/a/x.ts in a LATER window", &rx);
    fs::remove_file(root.join("src/a/new.ts")).unwrap();
    show(&root, "remove file src/a/new.ts", &rx);
    fs::create_dir(root.join("src/n")).unwrap();
    show(&root, "mkdir src/n", &rx);
    fs::write(root.join("src/n/f.ts"), "6").unwrap();
    show(&root, "write NEW file src/n/f.ts (folder created in an earlier window)", &rx);
    fs::create_dir(root.join("src/q")).unwrap();
    fs::write(root.join("src/q/f.ts"), "6").unwrap();
    show(&root, "mkdir src/q + write src/q/f.ts at once (watch-installation race)", &rx);
    fs::rename(root.join("src/a/y.ts"), root.join("src/a/z.ts")).unwrap();
    show(&root, "rename file src/a/y.ts -> src/a/z.ts", &rx);
    fs::rename(root.join("src/a"), root.join("src/abc")).unwrap();
    show(&root, "rename folder src/a -> src/abc", &rx);
    fs::rename(root.join("src/abc/z.ts"), outside.join("z.ts")).unwrap();
    show(&root, "move file src/abc/z.ts OUT", &rx);
    fs::rename(outside.join("z.ts"), root.join("src/ab/in.ts")).unwrap();
    show(&root, "move file IN to src/ab/in.ts", &rx);
    fs::rename(root.join("src/abc"), outside.join("abc")).unwrap();
    show(&root, "move folder src/abc OUT", &rx);
    fs::rename(outside.join("abc"), root.join("src/back")).unwrap();
    show(&root, "move folder IN to src/back (holds x.ts)", &rx);
    fs::remove_dir_all(root.join("src/back")).unwrap();
    show(&root, "remove folder src/back recursively", &rx);
    fs::write(root.join("schema.graphql"), "type Query { b: String }").unwrap();
    show(&root, "overwrite schema.graphql", &rx);
    drop(w);
    let _ = fs::remove_dir_all(&base);
}
