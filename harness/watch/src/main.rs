//! hx_watch — correspondence harness for watch mode (property C20) and the compile-level half of
//! C17.  Engines (env `HX_ENGINE`):
//!
//! * `watch` (default): request
//!     `watch.run  <projseed>  <initial tree>  <step> <step> …`
//!   (see `tree.rs` for trees / steps / THE EVENT TABLE, `pool.rs` for content ids).  The project
//!   is materialised in an `hx_projgen` session directory and compiled; then for every step the
//!   edits are made on disk, the given debounced events go through the REAL
//!   `categorize_and_filter_events` + `update_sources` + `compile` of the SAME `CompilerState`
//!   (optionally a pico garbage collection in between), and the result is compared with a FRESH
//!   `CompilerState` compiling a copy of the resulting tree.  Answer, per step:
//!     `fs:<tree on disk>  ev:<categorised events>|ev:none  us:ok|us:none|us:err:<classes>
//!      db:<iso literal map>|<schema content>|<extension map>
//!      fr:<the same three of the fresh state>|fr:init-error:<class>   A:same | A:diff:<result|diags|artifacts>`
//!   (the first `fs:` / `db:` pair belongs to the initial batch compile),
//!   and `end` after a fatal `update_sources` error (the real watch loop exits there).
//! * `failkeeps`: request `failkeeps.run <projseed> <batch|watch>`, see `failkeeps.rs`.
//!
//! `hx_watch probe` runs a real debounced inotify watcher over the rows of the event table.
mod failkeeps;
mod pool;
mod probe;
mod tree;

use hx_common::Rng;
use hx_projgen::compile::{read_tree, CompileResult, Files, Outcome, Session, State};
use isograph_compiler::verif::categorize_and_filter_events;
use isograph_compiler::watch::{ChangedFileKind, SourceEventKind, SourceFileEvent};
use notify::event::{AccessKind, AccessMode, CreateKind, DataChange, MetadataKind, ModifyKind, RemoveKind, RenameMode};
use notify::{Event, EventKind};
use notify_debouncer_full::DebouncedEvent;
use pico::Database;
use pool::Pool;
use std::collections::BTreeMap;
use std::panic::{catch_unwind, AssertUnwindSafe};
use std::path::{Path, PathBuf};
use std::time::Instant;
use tree::*;

// ------------------------------------------------------------------------------------------ gen

const DIRS: &[&str] = &["src/a", "src/ab", "src/a/b", "src/abc", "src/lib", "src/a/__isograph_bak"];
const SOURCE_NAMES: &[&str] = &["x.ts", "x.tsx", "y.js", "z.jsx"];
const OTHER_NAMES: &[&str] = &["x.ts.md", "n.md", "logo.png", "k__isograph.ts", ".ts", "noext", "w.TS"];

fn is_source_name(p: &str) -> bool {
    let name = p.rsplit('/').next().unwrap();
    SOURCE_NAMES.contains(&name)
}

fn dirs_of(t: &Tree) -> Vec<String> {
    t.iter().filter(|(k, v)| **v == Node::Dir && k.starts_with("src")).map(|(k, _)| k.clone()).collect()
}

fn files_of(t: &Tree) -> Vec<String> {
    t.iter().filter(|(k, v)| matches!(v, Node::File(_)) && k.starts_with("src/")).map(|(k, _)| k.clone()).collect()
}

fn literal_cid(r: &mut Rng, t: &Tree, n_decls: usize) -> String {
    // prefer a declaration that no source file currently holds
    let present: Vec<&String> = t.values().filter_map(|v| if let Node::File(c) = v { Some(c) } else { None }).collect();
    let missing: Vec<String> = (0..n_decls).map(|i| format!("u{i}")).filter(|c| !present.contains(&c)).collect();
    if !missing.is_empty() && r.chance(2, 3) {
        return r.pick(&missing).clone();
    }
    match r.below(10) {
        0 => "u100".into(),
        1 => "u101".into(),
        2 => "u102".into(),
        3 => "u103".into(),
        4 => "b1".into(),
        _ => format!("u{}", r.below(n_decls.max(1))),
    }
}

fn content_for(r: &mut Rng, t: &Tree, p: &str, n_decls: usize) -> String {
    if is_source_name(p) || r.chance(1, 3) {
        literal_cid(r, t, n_decls)
    } else {
        r.pick(&["u0", "u102", "b0", "u101", "b1"]).to_string()
    }
}

fn new_path(r: &mut Rng, t: &Tree) -> String {
    let ds = dirs_of(t);
    let d = r.pick(&ds).clone();
    let name = if r.chance(3, 5) { *r.pick(SOURCE_NAMES) } else { *r.pick(OTHER_NAMES) };
    format!("{d}/{name}")
}

fn pick_opt(r: &mut Rng, xs: &[String]) -> Option<String> {
    if xs.is_empty() {
        r.next();
        None
    } else {
        Some(r.pick(xs).clone())
    }
}

fn gen_edit(r: &mut Rng, t: &Tree, n_decls: usize) -> Option<Edit> {
    let files = files_of(t);
    let dirs: Vec<String> = dirs_of(t).into_iter().filter(|d| d != "src").collect();
    Some(match r.below(22) {
        0..=3 => {
            let p = new_path(r, t);
            let c = content_for(r, t, &p, n_decls);
            Edit::Write(p, c)
        }
        4..=5 => {
            let p = pick_opt(r, &files)?;
            let c = content_for(r, t, &p, n_decls);
            Edit::Write(p, c)
        }
        6..=7 => Edit::Rm(pick_opt(r, &files)?),
        8..=9 => Edit::RmR(pick_opt(r, &dirs)?),
        10..=11 => {
            let s = pick_opt(r, &files)?;
            Edit::Mv(s, new_path(r, t))
        }
        12..=13 => Edit::Mv(pick_opt(r, &dirs)?, r.pick(DIRS).to_string()),
        14 => Edit::Mkdir(r.pick(DIRS).to_string()),
        15 => {
            if r.chance(1, 2) {
                Edit::MvOut(pick_opt(r, &files)?)
            } else {
                Edit::MvOut(pick_opt(r, &dirs)?)
            }
        }
        16 => {
            let p = new_path(r, t);
            let c = content_for(r, t, &p, n_decls);
            Edit::MvInFile(p, c)
        }
        17 => {
            let n = r.range(1, 3);
            let cs = (0..n).map(|_| literal_cid(r, t, n_decls)).collect();
            Edit::MvInDir(r.pick(DIRS).to_string(), cs)
        }
        18..=19 => Edit::Write(pool::SCHEMA.into(), r.pick(&["u200", "u201", "u201", "u202"]).to_string()),
        20 => Edit::Write(pool::SCHEMA_EXT.into(), r.pick(&["u300", "u301"]).to_string()),
        _ => {
            let p = if !files.is_empty() && r.chance(1, 2) { r.pick(&files).clone() } else { new_path(r, t) };
            Edit::Write(p, r.pick(&["b0", "b1"]).to_string())
        }
    })
}

fn gen_initial(r: &mut Rng, n_decls: usize) -> Tree {
    let mut t = Tree::new();
    t.insert("src".into(), Node::Dir);
    t.insert(pool::SCHEMA.into(), Node::File("u200".into()));
    t.insert(pool::SCHEMA_EXT.into(), Node::File("u300".into()));
    for d in DIRS {
        if r.chance(1, 2) && parent(d).map_or(true, |p| is_dir(&t, p)) {
            t.insert(d.to_string(), Node::Dir);
        }
    }
    for i in 0..n_decls {
        for _ in 0..20 {
            let ds = dirs_of(&t);
            let p = format!("{}/{}", r.pick(&ds), r.pick(SOURCE_NAMES));
            if !t.contains_key(&p) && !p.contains("__isograph") {
                t.insert(p, Node::File(format!("u{i}")));
                break;
            }
        }
    }
    for _ in 0..r.below(4) {
        let ds = dirs_of(&t);
        let d = r.pick(&ds).clone();
        let (name, c) = *r.pick(&[("n.md", "u0"), ("logo.png", "b0"), ("k__isograph.ts", "u102"), ("x.ts.md", "u102"), ("noext", "u101")]);
        let p = format!("{d}/{name}");
        if !t.contains_key(&p) {
            t.insert(p, Node::File(c.to_string()));
        }
    }
    if is_dir(&t, "src/a/__isograph_bak") && r.chance(1, 2) {
        t.insert("src/a/__isograph_bak/x.ts".into(), Node::File("u102".into()));
    }
    t
}

fn gen_case(r: &mut Rng, _i: u64) -> Vec<String> {
    if std::env::var("HX_ENGINE").as_deref() == Ok("failkeeps") {
        return failkeeps::gen_case(r);
    }
    let projseed = r.below(48) as u64 + 1;
    let pool = Pool::new(projseed);
    let mut t = gen_initial(r, pool.n_decls);
    let mut line = format!("watch.run\t{projseed}\t{}", enc_tree(&t));
    for _ in 0..r.range(1, 6) {
        let n_edits = if r.chance(7, 10) { 1 } else { r.range(2, 3) };
        let mut edits: Vec<Edit> = vec![];
        let mut events: Vec<Ev> = vec![];
        let mut tries = 0;
        if r.chance(1, 12) {
            // a folder created together with its files: only Create(Folder) is delivered
            let d = r.pick(DIRS).to_string();
            if applicable(&t, &Edit::Mkdir(d.clone())) {
                edits.push(Edit::Mkdir(d.clone()));
                for name in [*r.pick(SOURCE_NAMES), *r.pick(OTHER_NAMES)].iter().take(r.range(1, 2)) {
                    let p = format!("{d}/{name}");
                    let c = content_for(r, &t, &p, pool.n_decls);
                    edits.push(Edit::Write(p, c));
                }
                for e in &edits {
                    apply(&mut t, e);
                }
                events.push(Ev::CreateFolder(d.clone()));
                events.push(Ev::Access(d));
                tries = 1000;
            }
        }
        while edits.len() < n_edits && tries < 40 {
            tries += 1;
            let Some(e) = gen_edit(r, &t, pool.n_decls) else { continue };
            if !applicable(&t, &e) {
                continue;
            }
            let paths = edit_paths(&e);
            if edits.iter().any(|o| edit_paths(o).iter().any(|a| paths.iter().any(|b| related(a, b)))) {
                continue;
            }
            let style = if r.chance(1, 5) { 1 } else { 0 };
            events.extend(events_of(&t, &e, style));
            if r.chance(1, 12) {
                events.push(Ev::Metadata(paths[0].clone()));
            }
            apply(&mut t, &e);
            edits.push(e);
        }
        line.push('\t');
        line.push_str(&enc_step(&Step { edits, events, gc: r.chance(1, 3) }));
    }
    vec![line]
}

fn edit_paths(e: &Edit) -> Vec<String> {
    match e {
        Edit::Write(p, _) | Edit::Mkdir(p) | Edit::Rm(p) | Edit::RmR(p) | Edit::MvOut(p) | Edit::MvInFile(p, _) | Edit::MvInDir(p, _) => vec![p.clone()],
        Edit::Mv(s, d) => vec![s.clone(), d.clone()],
    }
}

// ------------------------------------------------------------------------------------------ run

fn to_notify(root: &Path, e: &Ev) -> DebouncedEvent {
    let abs = |p: &String| root.join(p);
    let (kind, paths): (EventKind, Vec<PathBuf>) = match e {
        Ev::CreateFile(p) => (EventKind::Create(CreateKind::File), vec![abs(p)]),
        Ev::CreateFolder(p) => (EventKind::Create(CreateKind::Folder), vec![abs(p)]),
        Ev::Data(p) => (EventKind::Modify(ModifyKind::Data(DataChange::Any)), vec![abs(p)]),
        Ev::RemoveFile(p) => (EventKind::Remove(RemoveKind::File), vec![abs(p)]),
        Ev::RemoveFolder(p) => (EventKind::Remove(RemoveKind::Folder), vec![abs(p)]),
        Ev::Both(s, d) => (EventKind::Modify(ModifyKind::Name(RenameMode::Both)), vec![abs(s), abs(d)]),
        Ev::From(p) => (EventKind::Modify(ModifyKind::Name(RenameMode::From)), vec![abs(p)]),
        Ev::To(p) => (EventKind::Modify(ModifyKind::Name(RenameMode::To)), vec![abs(p)]),
        Ev::Any(p) => (EventKind::Modify(ModifyKind::Name(RenameMode::Any)), vec![abs(p)]),
        Ev::Access(p) => (EventKind::Access(AccessKind::Close(AccessMode::Write)), vec![abs(p)]),
        Ev::Metadata(p) => (EventKind::Modify(ModifyKind::Metadata(MetadataKind::Any)), vec![abs(p)]),
    };
    let mut ev = Event::new(kind);
    for p in paths {
        ev = ev.add_path(p);
    }
    DebouncedEvent::new(ev, Instant::now())
}

fn rel(root: &Path, p: &Path) -> String {
    p.strip_prefix(root).map(|x| x.to_string_lossy().to_string()).unwrap_or_else(|_| format!("!{}", p.display()))
}

fn enc_categorised(root: &Path, evs: &Option<Vec<SourceFileEvent>>) -> String {
    let Some(evs) = evs else { return "ev:none".into() };
    let items: Vec<String> = evs
        .iter()
        .map(|(k, c)| {
            let c = match c {
                ChangedFileKind::Config => 'C',
                ChangedFileKind::Schema => 'S',
                ChangedFileKind::SchemaExtension => 'X',
                ChangedFileKind::JavaScriptSourceFile => 'F',
                ChangedFileKind::JavaScriptSourceFolder => 'D',
            };
            match k {
                SourceEventKind::CreateOrModify(p) => format!("{c}+:{}", rel(root, p)),
                SourceEventKind::Remove(p) => format!("{c}-:{}", rel(root, p)),
                SourceEventKind::Rename((s, d)) => format!("{c}>:{}:{}", rel(root, s), rel(root, d)),
            }
        })
        .collect();
    format!("ev:{}", items.join(";"))
}

fn enc_map(m: &BTreeMap<String, String>) -> String {
    if m.is_empty() {
        "-".into()
    } else {
        m.iter().map(|(k, v)| format!("{k}={v}")).collect::<Vec<_>>().join(",")
    }
}

/// `<iso literal map>  <schema content>  <extension map>` of a live state, contents as ids.
fn dump_state(state: &State, pool: &Pool) -> (String, String, String) {
    let db = &state.db;
    let mut iso = BTreeMap::new();
    let iso_view = db.get_iso_literal_map();
    for (path, id) in &iso_view.untracked().0 {
        iso.insert(path.to_string(), pool.cid(db.get(*id).content.as_bytes()));
    }
    let std_view = db.get_standard_sources();
    let std_sources = std_view.untracked();
    let sc = catch_unwind(AssertUnwindSafe(|| pool.cid(db.get(std_sources.schema_source_id).content.as_bytes()))).unwrap_or_else(|_| "none".into());
    let mut ex = BTreeMap::new();
    for (path, id) in &std_sources.schema_extension_sources {
        ex.insert(path.to_string(), pool.cid(db.get(*id).content.as_bytes()));
    }
    (enc_map(&iso), sc, enc_map(&ex))
}

fn error_class(msg: &str) -> &'static str {
    if msg.contains("convert file to utf8") || msg.contains("convert to string") {
        "utf8"
    } else if msg.contains("traverse directory") {
        "traverse"
    } else if msg.contains("read file") {
        "read"
    } else if msg.contains("canonicalize") {
        "canonicalize"
    } else if msg.contains("Schema not found") {
        "schema-not-found"
    } else if msg.contains("is not a file") {
        "not-a-file"
    } else if msg.starts_with("panic") {
        "panic"
    } else {
        "other"
    }
}

fn canon_result(o: &Outcome) -> String {
    match &o.result {
        CompileResult::Ok(s) => format!("ok:{}:{}:{}", s.client_field_count, s.client_pointer_count, s.entrypoint_count),
        CompileResult::Panic(m) => format!("panic:{m}"),
        CompileResult::Diagnostics(ds) => {
            // Diagnostics are compared as the multiset of (kind, message).  The location is left out:
            // when two files hold the same declaration, which of them a `multiple-definitions` or a
            // per-declaration diagnostic points at follows the iteration order of the `HashMap` of iso
            // literal sources (random per state), in batch mode as well.
            let mut v: Vec<String> = ds.iter().map(|d| format!("{}|{}", d.kind, d.message)).collect();
            v.sort();
            format!("diag:{}", v.join("\n"))
        }
    }
}

fn compare(watch: &Outcome, fresh: &Outcome) -> String {
    let (a, b) = (canon_result(watch), canon_result(fresh));
    if a != b {
        if std::env::var_os("HX_WATCH_DEBUG").is_some() {
            eprintln!("--- watch:\n{a}\n--- fresh:\n{b}\n");
        }
        if a.split(':').next() != b.split(':').next() {
            return format!("A:diff:result:{}-vs-{}", a.split(':').next().unwrap(), b.split(':').next().unwrap());
        }
        return "A:diff:diags".into();
    }
    if watch.result.is_ok() && watch.artifacts != fresh.artifacts {
        return "A:diff:artifacts".into();
    }
    "A:same".into()
}

const OUTSIDE: &str = "outside";

fn real_edit(root: &Path, pool: &Pool, e: &Edit, counter: &mut usize) -> std::io::Result<()> {
    use std::fs;
    let outside = root.join(OUTSIDE);
    fs::create_dir_all(&outside)?;
    *counter += 1;
    let bytes = |c: &String| pool.bytes(c).map(|b| b.to_vec()).ok_or_else(|| std::io::Error::new(std::io::ErrorKind::Other, format!("unknown content id {c}")));
    match e {
        Edit::Write(p, c) => fs::write(root.join(p), bytes(c)?),
        Edit::Mkdir(p) => fs::create_dir(root.join(p)),
        Edit::Rm(p) => fs::remove_file(root.join(p)),
        Edit::RmR(p) => fs::remove_dir_all(root.join(p)),
        Edit::Mv(s, d) => fs::rename(root.join(s), root.join(d)),
        Edit::MvOut(p) => fs::rename(root.join(p), outside.join(format!("out{counter}"))),
        Edit::MvInFile(p, c) => {
            let tmp = outside.join(format!("in{counter}"));
            fs::write(&tmp, bytes(c)?)?;
            fs::rename(tmp, root.join(p))
        }
        Edit::MvInDir(p, cs) => {
            let tmp = outside.join(format!("in{counter}"));
            fs::create_dir(&tmp)?;
            for (i, c) in cs.iter().enumerate() {
                fs::write(tmp.join(MOVED_IN_NAMES[i % MOVED_IN_NAMES.len()]), bytes(c)?)?;
            }
            fs::rename(tmp, root.join(p))
        }
    }
}

/// The project directory as a tree of content ids (config, `outside` and the artifact directory
/// left out).
fn disk_tree(root: &Path, pool: &Pool) -> Tree {
    fn go(root: &Path, dir: &Path, pool: &Pool, out: &mut Tree) {
        let Ok(rd) = std::fs::read_dir(dir) else { return };
        for e in rd.flatten() {
            let p = e.path();
            let r = rel(root, &p);
            if r == pool::CONFIG || r == OUTSIDE || r == "src/__isograph" {
                continue;
            }
            if p.is_dir() {
                out.insert(r, Node::Dir);
                go(root, &p, pool, out);
            } else if let Ok(b) = std::fs::read(&p) {
                out.insert(r, Node::File(pool.cid(&b)));
            }
        }
    }
    let mut t = Tree::new();
    go(root, root, pool, &mut t);
    t
}

fn source_files_on_disk(root: &Path) -> Files {
    let mut files = Files::new();
    for (k, v) in read_tree(root) {
        if k.starts_with("src/__isograph/") || k.starts_with("outside/") {
            continue;
        }
        files.insert(PathBuf::from(k), v);
    }
    files
}

fn fresh_compile(root: &Path, pool: &Pool) -> (Outcome, String) {
    let mut fresh = Session::new(&source_files_on_disk(root));
    let out = fresh.compile();
    let dump = match fresh.state() {
        Some(s) => {
            let (iso, sc, ex) = dump_state(s, pool);
            format!("fr:{iso}|{sc}|{ex}")
        }
        None => match &out.result {
            CompileResult::Diagnostics(ds) => format!("fr:init-error:{}", error_class(&ds[0].message)),
            _ => "fr:init-error:panic".into(),
        },
    };
    (out, dump)
}

fn run_watch(f: &[&str]) -> String {
    if f.len() < 3 {
        return "malformed".into();
    }
    let Ok(projseed) = f[1].parse::<u64>() else { return "malformed".into() };
    let Some(mut t) = dec_tree(f[2]) else { return "malformed".into() };
    let Some(steps) = f[3..].iter().map(|s| dec_step(s)).collect::<Option<Vec<_>>>() else { return "malformed".into() };
    if std::env::var_os("HX_WATCH_DEBUG").is_some() {
        std::panic::set_hook(Box::new(|i| eprintln!("PANIC {i}\n{}", std::backtrace::Backtrace::force_capture())));
    }
    let pool = Pool::new(projseed);
    let mut files = Files::new();
    files.insert(PathBuf::from(pool::CONFIG), pool.config_bytes());
    for (k, v) in &t {
        if let Node::File(c) = v {
            let Some(b) = pool.bytes(c) else { return "malformed".into() };
            files.insert(PathBuf::from(k), b.to_vec());
        }
    }
    let mut session = Session::new(&files);
    let root = session.dir().to_path_buf();
    for (k, v) in &t {
        if *v == Node::Dir {
            std::fs::create_dir_all(root.join(k)).expect("mkdir");
        }
    }
    let mut out: Vec<String> = vec![];
    // step 0: the initial batch compile
    let mut last = session.compile();
    out.push(format!("fs:{}", enc_tree(&disk_tree(&root, &pool))));
    match session.state() {
        None => {
            let class = match &last.result {
                CompileResult::Diagnostics(ds) => error_class(&ds[0].message),
                _ => "panic",
            };
            out.push(format!("init-error:{class}"));
            return out.join("\t");
        }
        Some(s) => {
            let (iso, sc, ex) = dump_state(s, &pool);
            out.push(format!("db:{iso}|{sc}|{ex}"));
        }
    }
    let mut counter = 0usize;
    for step in &steps {
        for e in &step.edits {
            if !applicable(&t, e) {
                out.push("inapplicable".into());
                return out.join("\t");
            }
            if let Err(err) = real_edit(&root, &pool, e, &mut counter) {
                out.push(format!("edit-failed:{}", err.kind()));
                return out.join("\t");
            }
            apply(&mut t, e);
        }
        out.push(format!("fs:{}", enc_tree(&disk_tree(&root, &pool))));
        let raw: Vec<DebouncedEvent> = step.events.iter().map(|e| to_notify(&root, e)).collect();
        let config = session.state().unwrap().db.get_isograph_config().clone();
        let categorised = match catch_unwind(AssertUnwindSafe(|| categorize_and_filter_events(&raw, &config))) {
            Ok(c) => c,
            Err(_) => {
                out.push("ev:panic".into());
                out.push("end".into());
                return out.join("\t");
            }
        };
        out.push(enc_categorised(&root, &categorised));
        if let Some(events) = &categorised {
            match session.update_sources(events) {
                Ok(()) => out.push("us:ok".into()),
                Err(msgs) => {
                    let mut cs: Vec<&str> = msgs.iter().map(|m| error_class(m)).collect();
                    cs.sort();
                    cs.dedup();
                    out.push(format!("us:err:{}", cs.join("+")));
                    out.push("end".into());
                    return out.join("\t");
                }
            }
            if step.gc {
                if let Some(s) = session.state_mut() {
                    s.db.run_garbage_collection();
                }
            }
            last = session.compile();
            if step.gc {
                if let Some(s) = session.state_mut() {
                    s.db.run_garbage_collection();
                }
            }
        } else {
            out.push("us:none".into());
        }
        let Some(state) = session.state() else {
            if std::env::var_os("HX_WATCH_DEBUG").is_some() {
                eprintln!("--- state lost: {:?}", last.result);
            }
            out.push("state-lost".into());
            out.push("end".into());
            return out.join("\t");
        };
        let (iso, sc, ex) = dump_state(state, &pool);
        out.push(format!("db:{iso}|{sc}|{ex}"));
        let (fresh_out, fresh_dump) = fresh_compile(&root, &pool);
        out.push(fresh_dump);
        out.push(compare(&last, &fresh_out));
    }
    out.join("\t")
}

fn main() {
    if std::env::args().nth(1).as_deref() == Some("probe") {
        probe::main();
        return;
    }
    hx_common::main_loop(&gen_case, &mut |f: &[&str]| {
        let r = catch_unwind(AssertUnwindSafe(|| match f[0] {
            "watch.run" => run_watch(f),
            "failkeeps.run" => failkeeps::run(f),
            _ => "unknown-op".to_string(),
        }));
        r.unwrap_or_else(|_| "panic".to_string())
    });
}
