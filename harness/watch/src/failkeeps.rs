//! Engine `failkeeps` — the compile-level half of C17: a compile that reports an error diagnostic
//! creates / modifies / deletes no artifact file, in batch mode (new `CompilerState`) and as a
//! watch-mode recompile (same `CompilerState`, changes pushed through the real
//! `categorize_and_filter_events` + `update_sources`).
//!
//!   request   failkeeps.run  <projseed>  <batch|watch>
//!   answer    first:<summary>  [second:<diagnostic kinds>  snap:same|snap:changed:<what>  third:<summary>  conv:ok|conv:diff]
//!
//! `first` is the compile of a generated valid project (must be `ok`), `second` the compile of a
//! single-fault mutant of it on top of the directory the first compile left (must report
//! diagnostics; the artifact directory is snapshotted before and after: names, bytes and
//! modification times), `third` the compile after the valid sources have been restored (must be
//! `ok` and leave exactly the first compile's artifacts).
use crate::{to_notify, tree::Ev};
use hx_common::Rng;
use hx_projgen::compile::{Files, Session};
use hx_projgen::gen::{generate, Alphabet, GenOpts};
use hx_projgen::model::CONFIG_FILE;
use hx_projgen::mutate::mutate_single_fault;
use hx_projgen::render::{render, RenderOpts};
use isograph_compiler::verif::categorize_and_filter_events;
use std::collections::BTreeMap;
use std::path::{Path, PathBuf};
use std::time::SystemTime;

pub fn gen_case(r: &mut Rng) -> Vec<String> {
    let projseed = r.next() % 1_000_000;
    let mode = if r.chance(1, 2) { "batch" } else { "watch" };
    vec![format!("failkeeps.run\t{projseed}\t{mode}")]
}

fn opts() -> GenOpts {
    GenOpts {
        max_types: 4,
        max_fields: 3,
        max_decls: 5,
        max_depth: 2,
        negative_ints: false,
        pct_var_in_object: 0,
        strings: Alphabet::Word,
        pct_empty_selection_set: 0,
        random_options: false,
        ..GenOpts::default()
    }
}

type Snapshot = BTreeMap<String, (Vec<u8>, Option<SystemTime>)>;

fn snapshot(dir: Option<&Path>) -> Snapshot {
    fn go(base: &Path, dir: &Path, out: &mut Snapshot) {
        let Ok(rd) = std::fs::read_dir(dir) else { return };
        for e in rd.flatten() {
            let p = e.path();
            let rel = p.strip_prefix(base).unwrap().to_string_lossy().to_string();
            let mtime = e.metadata().ok().and_then(|m| m.modified().ok());
            if p.is_dir() {
                out.insert(format!("{rel}/"), (vec![], mtime));
                go(base, &p, out);
            } else {
                out.insert(rel, (std::fs::read(&p).unwrap_or_default(), mtime));
            }
        }
    }
    let mut s = Snapshot::new();
    if let Some(d) = dir {
        go(d, d, &mut s);
    }
    s
}

fn diff(a: &Snapshot, b: &Snapshot) -> Option<String> {
    for k in a.keys() {
        if !b.contains_key(k) {
            return Some(format!("deleted:{k}"));
        }
    }
    for (k, (bytes, mtime)) in b {
        match a.get(k) {
            None => return Some(format!("created:{k}")),
            Some((b0, m0)) => {
                if b0 != bytes {
                    return Some(format!("modified:{k}"));
                }
                if m0 != mtime {
                    return Some(format!("touched:{k}"));
                }
            }
        }
    }
    None
}

/// Put `new` on disk (sources of `old` that are gone are deleted) and, in watch mode, tell the
/// live state through the real event categorisation + `update_sources`.
fn switch(session: &mut Session, old: &Files, new: &Files, watch: bool) -> Result<(), String> {
    let root = session.dir().to_path_buf();
    let mut evs: Vec<Ev> = vec![];
    for (rel, bytes) in new {
        let r = rel.to_string_lossy().to_string();
        match old.get(rel) {
            Some(b) if b == bytes => {}
            Some(_) => evs.push(Ev::Data(r)),
            None => evs.push(Ev::CreateFile(r)),
        }
    }
    for rel in old.keys() {
        if !new.contains_key(rel) {
            evs.push(Ev::RemoveFile(rel.to_string_lossy().to_string()));
        }
    }
    if old.get(&PathBuf::from(CONFIG_FILE)) != new.get(&PathBuf::from(CONFIG_FILE)) {
        return Err("config-changed".into());
    }
    session.replace_sources(new);
    if !watch {
        session.reset_state();
        return Ok(());
    }
    let raw: Vec<_> = evs.iter().map(|e| to_notify(&root, e)).collect();
    let config = session.state().ok_or("no-state")?.db.get_isograph_config().clone();
    if let Some(events) = categorize_and_filter_events(&raw, &config) {
        session.update_sources(&events).map_err(|e| format!("update-sources-fatal:{}", crate::error_class(&e[0])))?;
    }
    Ok(())
}

pub fn run(f: &[&str]) -> String {
    if f.len() != 3 {
        return "malformed".into();
    }
    let Ok(seed) = f[1].parse::<u64>() else { return "malformed".into() };
    let watch = f[2] == "watch";
    let valid = generate(&mut Rng::new(seed, 0), &opts());
    let mut r = Rng::new(seed, 1);
    let Some((bad, kind)) = mutate_single_fault(&mut r, &valid) else { return "first:skip:no-mutation-site".into() };
    let ro = RenderOpts::default();
    let (valid_files, bad_files) = (render(&valid, &ro), render(&bad, &ro));
    let mut session = Session::new(&valid_files);
    let first = session.compile();
    let mut out = vec![format!("first:{}", first.result.summary())];
    if !first.result.is_ok() {
        return out.join("\t");
    }
    let before = snapshot(session.artifact_dir());
    if let Err(e) = switch(&mut session, &valid_files, &bad_files, watch) {
        out.push(format!("second:skip:{e}"));
        return out.join("\t");
    }
    let second = session.compile();
    let after = snapshot(session.artifact_dir());
    out.push(format!("second:{}:{}", kind.name(), second.result.summary()));
    if second.result.is_ok() {
        // the mutant was accepted: not a case of this property
        return out.join("\t");
    }
    out.push(match diff(&before, &after) {
        None => "snap:same".into(),
        Some(w) => format!("snap:changed:{w}"),
    });
    if let Err(e) = switch(&mut session, &bad_files, &valid_files, watch) {
        out.push(format!("third:skip:{e}"));
        return out.join("\t");
    }
    let third = session.compile();
    out.push(format!("third:{}", third.result.summary()));
    out.push(if third.result.is_ok() && third.artifacts == first.artifacts { "conv:ok".into() } else { "conv:diff".into() });
    out.join("\t")
}
