//! The small file tree the `watch` engine edits, the edits, and THE TABLE that maps one edit to the
//! debounced `notify` events the watch loop receives for it.
//!
//! Paths are relative to the project directory, `/`-separated, ASCII (`src/a/x.ts`,
//! `schema.graphql`).  A content is a *content id*: `u<k>` (valid UTF-8) or `b<k>` (not valid
//! UTF-8); `pool.rs` maps ids to bytes.
//!
//! ## The event table (assumption `DeliversAll`)
//!
//! Recorded once from the sources in `~/.cargo/registry/src/*/notify-7.0.0/src/inotify.rs`
//! (`handle_inotify`: inotify mask -> `EventKind`) and `notify-debouncer-full-0.4.0/src/lib.rs`
//! (`add_event`, `push_event`, `push_remove_event`, `handle_rename_from/to`, `push_rename_event`,
//! `debounced_events`), for ONE debounce window (100 ms in `create_debounced_file_watcher`) that
//! contains exactly the listed edit, on Linux.  `hx_watch probe` replays every row against a real
//! debounced inotify watcher and prints what arrives (run by hand; inotify timing is not something
//! a check should depend on).
//!
//! | edit                                   | inotify mask(s)                         | delivered after debouncing (events the compiler does not ignore) |
//! |----------------------------------------|-----------------------------------------|-------------------------------------------------------------------|
//! | write NEW file p                       | CREATE, OPEN, MODIFY, CLOSE_WRITE       | `Create(File) p`  (the `Modify(Data)` right after a create is dropped by `push_event`; `Access(..)` events are delivered and ignored) |
//! | overwrite EXISTING file p              | OPEN, MODIFY(+MODIFY), CLOSE_WRITE      | `Modify(Data(Any)) p` (events of one kind on one path are de-duplicated in `debounced_events`) |
//! | write a temp file, rename it onto p    | CREATE t.., MOVED_FROM t, MOVED_TO p    | `Create(File) p` (`push_rename_event` re-targets the queue of a just-created file and emits no rename) |
//! | remove file p                          | DELETE                                  | `Remove(File) p` |
//! | remove folder d recursively            | DELETE children.., DELETE\|ISDIR d      | `Remove(Folder) d` (`push_remove_event` drops the queues of all paths below d; when the window closes in between the children's removes are delivered first) |
//! | mkdir d                                | CREATE\|ISDIR                           | `Create(Folder) d` |
//! | mkdir d and files written into it at once (`cp -r`, `git checkout`) | CREATE\|ISDIR d only  | `Create(Folder) d` — the files are written before notify has added the inotify watch for d, and get no event |
//! | rename file or folder s -> t (both under watched paths) | MOVED_FROM s, MOVED_TO t (same cookie) | `Modify(Name(Both)) [s, t]` (the raw `From`/`To`/`Both` are replaced by one connected rename) |
//! | move file or folder p OUT of the watched paths | MOVED_FROM p                    | `Modify(Name(From)) p` |
//! | move file or folder p IN from outside  | MOVED_TO p                              | `Modify(Name(To)) p` (no events for the files inside a moved-in folder) |
//! | chmod / touch -a                       | ATTRIB / OPEN, CLOSE_NOWRITE            | `Modify(Metadata(Any)) p` / `Access(..) p` (ignored) |
//!
//! `Modify(Name(Any)) p` is what the FSEvents / kqueue back ends deliver for a rename or a removal;
//! the generator uses it as an alternative encoding of "remove p" and "rename s -> t" (two events)
//! so that that branch of `process_modify_event` is exercised as well.
//!
//! Several edits in one window: the debouncer keeps one queue per path, so for edits on paths none
//! of which is equal to or below another the delivered events are the concatenation (sorted by
//! time).  The generator only batches such edits.
use std::collections::BTreeMap;

#[derive(Clone, Debug, PartialEq, Eq)]
pub enum Node {
    File(String),
    Dir,
}

pub type Tree = BTreeMap<String, Node>;

#[derive(Clone, Debug, PartialEq, Eq)]
pub enum Edit {
    /// create or overwrite file
    Write(String, String),
    Mkdir(String),
    /// remove a file
    Rm(String),
    /// remove a folder and everything below it
    RmR(String),
    /// rename a file or folder inside the watched paths
    Mv(String, String),
    /// move a file or folder out of the watched paths
    MvOut(String),
    /// move a file in from outside
    MvInFile(String, String),
    /// move a folder in from outside; it holds `m0.ts`, `m1.tsx`, … with the given contents
    MvInDir(String, Vec<String>),
}

pub const MOVED_IN_NAMES: &[&str] = &["m0.ts", "m1.tsx", "m2.md", "m3.js"];

/// A raw debounced event, as the watch loop's callback receives it.
#[derive(Clone, Debug, PartialEq, Eq)]
pub enum Ev {
    CreateFile(String),
    CreateFolder(String),
    Data(String),
    RemoveFile(String),
    RemoveFolder(String),
    Both(String, String),
    From(String),
    To(String),
    Any(String),
    Access(String),
    Metadata(String),
}

pub fn parent(p: &str) -> Option<&str> {
    p.rfind('/').map(|i| &p[..i])
}

/// component-wise: `a` is `p` or an ancestor of `p`
pub fn is_under(p: &str, a: &str) -> bool {
    p == a || (p.len() > a.len() && p.starts_with(a) && p.as_bytes()[a.len()] == b'/')
}

pub fn related(a: &str, b: &str) -> bool {
    is_under(a, b) || is_under(b, a)
}

pub fn is_dir(t: &Tree, p: &str) -> bool {
    matches!(t.get(p), Some(Node::Dir))
}

pub fn is_file(t: &Tree, p: &str) -> bool {
    matches!(t.get(p), Some(Node::File(_)))
}

fn parent_is_dir(t: &Tree, p: &str) -> bool {
    match parent(p) {
        None => true,
        Some(q) => is_dir(t, q),
    }
}

/// Whether `e` can be applied to `t` (same conditions as the real file-system calls the harness
/// uses; the Lean model has the same function).
pub fn applicable(t: &Tree, e: &Edit) -> bool {
    match e {
        Edit::Write(p, _) => parent_is_dir(t, p) && !is_dir(t, p),
        Edit::Mkdir(p) => parent_is_dir(t, p) && !t.contains_key(p),
        Edit::Rm(p) => is_file(t, p),
        Edit::RmR(p) => is_dir(t, p),
        Edit::Mv(s, d) => t.contains_key(s) && !t.contains_key(d) && parent_is_dir(t, d) && !is_under(d, s),
        Edit::MvOut(p) => t.contains_key(p),
        Edit::MvInFile(p, _) => parent_is_dir(t, p) && !t.contains_key(p),
        Edit::MvInDir(p, _) => parent_is_dir(t, p) && !t.contains_key(p),
    }
}

fn remove_below(t: &mut Tree, p: &str) -> Vec<(String, Node)> {
    let keys: Vec<String> = t.keys().filter(|k| is_under(k, p)).cloned().collect();
    keys.into_iter().map(|k| { let v = t.remove(&k).unwrap(); (k, v) }).collect()
}

pub fn apply(t: &mut Tree, e: &Edit) {
    match e {
        Edit::Write(p, c) | Edit::MvInFile(p, c) => {
            t.insert(p.clone(), Node::File(c.clone()));
        }
        Edit::Mkdir(p) => {
            t.insert(p.clone(), Node::Dir);
        }
        Edit::Rm(p) | Edit::RmR(p) | Edit::MvOut(p) => {
            remove_below(t, p);
        }
        Edit::Mv(s, d) => {
            for (k, v) in remove_below(t, s) {
                t.insert(format!("{d}{}", &k[s.len()..]), v);
            }
        }
        Edit::MvInDir(p, cs) => {
            t.insert(p.clone(), Node::Dir);
            for (i, c) in cs.iter().enumerate() {
                t.insert(format!("{p}/{}", MOVED_IN_NAMES[i % MOVED_IN_NAMES.len()]), Node::File(c.clone()));
            }
        }
    }
}

/// THE TABLE.  `style`: 0 = the Linux row; 1 = alternative delivery (`Any` encoding for removals
/// and renames; the children's removes delivered before the folder's; an overwrite done as
/// write-temp-and-rename).
pub fn events_of(t: &Tree, e: &Edit, style: u8) -> Vec<Ev> {
    match e {
        Edit::Write(p, _) => {
            if is_file(t, p) && style == 1 {
                // saved through a temporary file renamed onto p (row 3 of the table)
                vec![Ev::CreateFile(p.clone()), Ev::Access(p.clone())]
            } else if is_file(t, p) {
                vec![Ev::Access(p.clone()), Ev::Data(p.clone())]
            } else {
                vec![Ev::CreateFile(p.clone()), Ev::Access(p.clone())]
            }
        }
        Edit::Mkdir(p) => vec![Ev::CreateFolder(p.clone())],
        Edit::Rm(p) => {
            if style == 1 {
                vec![Ev::Any(p.clone())]
            } else {
                vec![Ev::RemoveFile(p.clone())]
            }
        }
        Edit::RmR(p) => {
            let mut v = vec![];
            if style == 1 {
                // deepest first, as `rm -r` deletes
                let mut below: Vec<(&String, &Node)> = t.iter().filter(|(k, _)| is_under(k, p) && *k != p).collect();
                below.sort_by(|a, b| b.0.matches('/').count().cmp(&a.0.matches('/').count()).then(a.0.cmp(b.0)));
                for (k, n) in below {
                    v.push(match n {
                        Node::File(_) => Ev::RemoveFile(k.clone()),
                        Node::Dir => Ev::RemoveFolder(k.clone()),
                    });
                }
            }
            v.push(Ev::RemoveFolder(p.clone()));
            v
        }
        Edit::Mv(s, d) => {
            if style == 1 {
                vec![Ev::Any(s.clone()), Ev::Any(d.clone())]
            } else {
                vec![Ev::Both(s.clone(), d.clone())]
            }
        }
        Edit::MvOut(p) => {
            if style == 1 {
                vec![Ev::Any(p.clone())]
            } else {
                vec![Ev::From(p.clone())]
            }
        }
        Edit::MvInFile(p, _) | Edit::MvInDir(p, _) => {
            if style == 1 {
                vec![Ev::Any(p.clone())]
            } else {
                vec![Ev::To(p.clone())]
            }
        }
    }
}

// ------------------------------------------------------------------------------------------- wire

pub fn enc_tree(t: &Tree) -> String {
    if t.is_empty() {
        return "-".into();
    }
    t.iter()
        .map(|(k, v)| match v {
            Node::File(c) => format!("{k}={c}"),
            Node::Dir => format!("{k}=D"),
        })
        .collect::<Vec<_>>()
        .join(",")
}

pub fn dec_tree(s: &str) -> Option<Tree> {
    let mut t = Tree::new();
    if s == "-" {
        return Some(t);
    }
    for item in s.split(',') {
        let (k, v) = item.split_once('=')?;
        t.insert(k.to_string(), if v == "D" { Node::Dir } else { Node::File(v.to_string()) });
    }
    Some(t)
}

pub fn enc_edit(e: &Edit) -> String {
    match e {
        Edit::Write(p, c) => format!("w:{p}:{c}"),
        Edit::Mkdir(p) => format!("mk:{p}"),
        Edit::Rm(p) => format!("rm:{p}"),
        Edit::RmR(p) => format!("rmr:{p}"),
        Edit::Mv(s, d) => format!("mv:{s}:{d}"),
        Edit::MvOut(p) => format!("mvo:{p}"),
        Edit::MvInFile(p, c) => format!("mvi:{p}:{c}"),
        Edit::MvInDir(p, cs) => format!("mvd:{p}:{}", if cs.is_empty() { "-".to_string() } else { cs.join("+") }),
    }
}

pub fn dec_edit(s: &str) -> Option<Edit> {
    let f: Vec<&str> = s.split(':').collect();
    Some(match (f[0], f.len()) {
        ("w", 3) => Edit::Write(f[1].into(), f[2].into()),
        ("mk", 2) => Edit::Mkdir(f[1].into()),
        ("rm", 2) => Edit::Rm(f[1].into()),
        ("rmr", 2) => Edit::RmR(f[1].into()),
        ("mv", 3) => Edit::Mv(f[1].into(), f[2].into()),
        ("mvo", 2) => Edit::MvOut(f[1].into()),
        ("mvi", 3) => Edit::MvInFile(f[1].into(), f[2].into()),
        ("mvd", 3) => Edit::MvInDir(f[1].into(), if f[2] == "-" { vec![] } else { f[2].split('+').map(|x| x.to_string()).collect() }),
        _ => return None,
    })
}

pub fn enc_ev(e: &Ev) -> String {
    match e {
        Ev::CreateFile(p) => format!("c:{p}"),
        Ev::CreateFolder(p) => format!("cd:{p}"),
        Ev::Data(p) => format!("d:{p}"),
        Ev::RemoveFile(p) => format!("r:{p}"),
        Ev::RemoveFolder(p) => format!("rd:{p}"),
        Ev::Both(s, d) => format!("b:{s}:{d}"),
        Ev::From(p) => format!("f:{p}"),
        Ev::To(p) => format!("t:{p}"),
        Ev::Any(p) => format!("a:{p}"),
        Ev::Access(p) => format!("x:{p}"),
        Ev::Metadata(p) => format!("m:{p}"),
    }
}

pub fn dec_ev(s: &str) -> Option<Ev> {
    let f: Vec<&str> = s.split(':').collect();
    Some(match (f[0], f.len()) {
        ("c", 2) => Ev::CreateFile(f[1].into()),
        ("cd", 2) => Ev::CreateFolder(f[1].into()),
        ("d", 2) => Ev::Data(f[1].into()),
        ("r", 2) => Ev::RemoveFile(f[1].into()),
        ("rd", 2) => Ev::RemoveFolder(f[1].into()),
        ("b", 3) => Ev::Both(f[1].into(), f[2].into()),
        ("f", 2) => Ev::From(f[1].into()),
        ("t", 2) => Ev::To(f[1].into()),
        ("a", 2) => Ev::Any(f[1].into()),
        ("x", 2) => Ev::Access(f[1].into()),
        ("m", 2) => Ev::Metadata(f[1].into()),
        _ => return None,
    })
}

/// One step of a case: `edits|events|gc`, lists separated by `;`, `-` when empty.
#[derive(Clone, Debug)]
pub struct Step {
    pub edits: Vec<Edit>,
    pub events: Vec<Ev>,
    pub gc: bool,
}

pub fn enc_step(s: &Step) -> String {
    let j = |v: Vec<String>| if v.is_empty() { "-".to_string() } else { v.join(";") };
    format!(
        "{}|{}|{}",
        j(s.edits.iter().map(enc_edit).collect()),
        j(s.events.iter().map(enc_ev).collect()),
        if s.gc { "g" } else { "n" }
    )
}

pub fn dec_step(s: &str) -> Option<Step> {
    let f: Vec<&str> = s.split('|').collect();
    if f.len() != 3 {
        return None;
    }
    let list = |x: &str| -> Vec<String> { if x == "-" { vec![] } else { x.split(';').map(|y| y.to_string()).collect() } };
    Some(Step {
        edits: list(f[0]).iter().map(|x| dec_edit(x)).collect::<Option<Vec<_>>>()?,
        events: list(f[1]).iter().map(|x| dec_ev(x)).collect::<Option<Vec<_>>>()?,
        gc: f[2] == "g",
    })
}
