//! Content pool: content id -> bytes, derived from a generated project (pure function of the
//! project seed).
//!
//!   u<i>   (i < number of declarations)  a source file holding exactly declaration i
//!   u100   empty file                     u101  source text without iso literal
//!   u102   a malformed iso literal        u103  declarations 0 and 1 in one file
//!   u200   the generated schema           u201  the schema plus an unused type (valid)
//!   u202   the schema plus garbage (schema parse error)
//!   u300   the generated schema extensions     u301  the same plus a comment line
//!   b0     binary bytes (not UTF-8)       b1    declaration 0 followed by a comment with invalid UTF-8
use hx_common::Rng;
use hx_projgen::gen::{generate, Alphabet, GenOpts};
use hx_projgen::model::{Options, Project, CONFIG_FILE, SCHEMA_EXTENSION_FILE, SCHEMA_FILE};
use hx_projgen::render::{render_config, render_extensions, render_schema, render_source_file, RenderOpts};

pub struct Pool {
    pub project: Project,
    pub n_decls: usize,
    entries: Vec<(String, Vec<u8>)>,
}

pub fn gen_opts() -> GenOpts {
    GenOpts {
        max_types: 3,
        max_fields: 3,
        max_decls: 4,
        max_depth: 2,
        max_selections: 3,
        negative_ints: false,
        pct_var_in_object: 0,
        strings: Alphabet::Word,
        pct_empty_selection_set: 0,
        random_options: false,
        ..GenOpts::default()
    }
}

pub fn render_opts() -> RenderOpts {
    RenderOpts { always_write_extension_file: true, ..RenderOpts::default() }
}

impl Pool {
    pub fn new(projseed: u64) -> Pool {
        let mut project = generate(&mut Rng::new(projseed, 0), &gen_opts());
        project.options = Options::default();
        project.extra_files.clear();
        let ro = render_opts();
        let mut entries: Vec<(String, Vec<u8>)> = vec![];
        let decls: Vec<_> = project.decls.iter().map(|(_, d)| d.clone()).collect();
        for (i, d) in decls.iter().enumerate() {
            entries.push((format!("u{i}"), render_source_file(&[d], &ro).into_bytes()));
        }
        entries.push(("u100".into(), vec![]));
        entries.push(("u101".into(), b"export const answer = 42;\n// iso is not used here\n".to_vec()));
        entries.push(("u102".into(), b"import { iso } from '@iso';\nexport const Broken = iso(`\n  field Query.\n`)(() => null);\n".to_vec()));
        let both: Vec<&_> = decls.iter().take(2).collect();
        entries.push(("u103".into(), format!("{}// two declarations\n", render_source_file(&both, &ro)).into_bytes()));
        let schema = render_schema(&project.schema);
        entries.push(("u200".into(), schema.clone().into_bytes()));
        entries.push(("u201".into(), format!("{schema}\ntype ZzUnusedByWatch {{\n  zz: String\n}}\n").into_bytes()));
        entries.push(("u202".into(), format!("{schema}\ntype {{{{ broken\n").into_bytes()));
        let ext = format!("# schema extensions\n{}", render_extensions(&project.extensions));
        entries.push(("u300".into(), ext.clone().into_bytes()));
        entries.push(("u301".into(), format!("{ext}\n# edited\n").into_bytes()));
        entries.push(("b0".into(), vec![0x89, b'P', b'N', b'G', 0xff, 0xfe, 0x00, 0xc3, 0x28]));
        let mut b1 = entries[0].1.clone();
        b1.extend_from_slice(b"\n// \xff\xfe latin-1 \xe9\n");
        entries.push(("b1".into(), b1));
        for (id, bytes) in &entries {
            let utf8 = std::str::from_utf8(bytes).is_ok();
            assert_eq!(utf8, id.starts_with('u'), "content id {id} has the wrong UTF-8 bit");
            assert_eq!(entries.iter().filter(|(_, b)| b == bytes).count(), 1, "content id {id} is not unique");
        }
        Pool { n_decls: decls.len(), project, entries }
    }

    pub fn bytes(&self, cid: &str) -> Option<&[u8]> {
        self.entries.iter().find(|(k, _)| k == cid).map(|(_, v)| v.as_slice())
    }

    /// First id with these bytes (`u?`/`b?` for bytes that are not in the pool).
    pub fn cid(&self, bytes: &[u8]) -> String {
        match self.entries.iter().find(|(_, v)| v.as_slice() == bytes) {
            Some((k, _)) => k.clone(),
            None => if std::str::from_utf8(bytes).is_ok() { "u?".into() } else { "b?".into() },
        }
    }

    pub fn config_bytes(&self) -> Vec<u8> {
        render_config(&self.project, &render_opts()).into_bytes()
    }
}

pub const CONFIG: &str = CONFIG_FILE;
pub const SCHEMA: &str = SCHEMA_FILE;
pub const SCHEMA_EXT: &str = SCHEMA_EXTENSION_FILE;
