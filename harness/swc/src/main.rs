//! Engine `swc` (C28): the real SWC visitor (`compile_iso_literal_visitor`), the real iso parser and
//! the real artifact-path code of the compiler, run on the same literal.
//!
//! request : swc.lit \t <literal hex> \t esm|cjs \t <file dir, root relative> \t <project_root>
//!           \t <artifact_directory | -> \t <form> \t <generator tag>
//! answer  : hdr:<kind>:<Type>:<field> | hdr:none      (real parse_iso_literal on the header probe)
//!           imp:<path hex>:<ident hex> | req:<path hex> | arg | identity | err:<kind> | panic | other
//!           kept | changed                             (all other code of the module)
//!           art:<hex of root-relative path of the entrypoint artifact the compiler writes> | art:-
//!
//! Engine `swcstats`: same requests, answer `full:ok|err` (real parser on the whole literal), used
//! only to measure the generator (how many literals the compiler accepts in full).
use common_lang_types::{
    ArtifactPath, ArtifactPathAndContent, EntityNameAndSelectableName, FileContent,
    FileSystemOperation, TextSource,
};
use hx_common::*;
use intern::string_key::Intern;
use isograph_config::{create_config, IsographProjectConfig};
use isograph_lang_parser::{parse_iso_literal, IsoLiteralExtractionResult, IsographLangTokenKind};
use logos::Logos;
use std::collections::HashMap;
use std::panic::{catch_unwind, AssertUnwindSafe};
use std::path::{Path, PathBuf};
use std::sync::{Arc, Mutex};
use swc_core::common::errors::{DiagnosticBuilder, Emitter, Handler, HANDLER};
use swc_core::common::{
    sync::Lrc, EqIgnoreSpan, FileName, Globals, SourceMap, SyntaxContext, DUMMY_SP, GLOBALS,
};
use swc_core::ecma::ast::*;
use swc_core::ecma::parser::{parse_file_as_module, EsSyntax, Syntax};
use swc_core::ecma::visit::{VisitMut, VisitMutWith};
use swc_isograph_plugin::compile_iso_literal_visitor;

// ------------------------------------------------------------------------------------------------
// the compiler side

fn real_parse(lit: &str) -> Option<(String, String, String)> {
    let ts = TextSource { relative_path_to_source_file: "src/File.tsx".intern().into(), span: None };
    let r = parse_iso_literal(
        lit.to_string(),
        "src/File.tsx".intern().into(),
        Some("HxExport".to_string()),
        ts,
    );
    match r {
        Ok(IsoLiteralExtractionResult::EntrypointDeclaration(d)) => Some((
            "entrypoint".into(),
            d.item.parent_type.item.0.to_string(),
            d.item.client_field_name.item.0.to_string(),
        )),
        Ok(IsoLiteralExtractionResult::ClientFieldDeclaration(d)) => Some((
            "field".into(),
            d.item.parent_type.item.0.to_string(),
            d.item.client_field_name.item.0.to_string(),
        )),
        Ok(IsoLiteralExtractionResult::ClientPointerDeclaration(d)) => Some((
            "pointer".into(),
            d.item.parent_type.item.0.to_string(),
            d.item.client_pointer_name.item.0.to_string(),
        )),
        Err(_) => None,
    }
}

/// The header of the literal = the text up to the end of the 4th token of the REAL lexer; the
/// REAL parser decides on `header ++ a minimal valid rest for its keyword`.
fn header_probe(lit: &str) -> Option<(String, String, String)> {
    let mut lx = IsographLangTokenKind::lexer(lit);
    let mut end4 = None;
    let mut first: Option<String> = None;
    for i in 0..4 {
        match lx.next() {
            Some(_) => {
                if i == 0 {
                    first = Some(lx.slice().to_string());
                }
                if i == 3 {
                    end4 = Some(lx.span().end);
                }
            }
            None => break,
        }
    }
    let end4 = end4?;
    let head = &lit[..end4];
    let rest = match first.as_deref() {
        Some("entrypoint") => "",
        Some("field") => " {}",
        Some("pointer") => " to HxT {}",
        _ => "",
    };
    real_parse(&format!("{head}{rest}"))
}

struct CompilerSide {
    /// canonical root directory (holds isograph.config.json files in per-config sub directories)
    base: PathBuf,
    cache: HashMap<(String, String), (PathBuf, PathBuf)>, // (project_root, artdir) -> (root, artifact dir abs)
}

impl CompilerSide {
    fn new() -> Self {
        let base = std::env::temp_dir().join(format!("hx_swc_{}", std::process::id()));
        let _ = std::fs::remove_dir_all(&base);
        std::fs::create_dir_all(&base).unwrap();
        CompilerSide { base: base.canonicalize().unwrap(), cache: HashMap::new() }
    }

    fn config_json(project_root: &str, artdir: &str, module: &str) -> String {
        let mut m = serde_json::Map::new();
        m.insert("project_root".into(), project_root.into());
        if artdir != "-" {
            m.insert("artifact_directory".into(), artdir.into());
        }
        m.insert("schema".into(), "./schema.graphql".into());
        let mut o = serde_json::Map::new();
        o.insert("module".into(), (if module == "cjs" { "commonjs" } else { "esmodule" }).into());
        m.insert("options".into(), serde_json::Value::Object(o));
        serde_json::Value::Object(m).to_string()
    }

    /// Root directory of the project and the absolute artifact directory as the compiler's own
    /// `create_config` computes it (it creates the directories and canonicalises them).
    fn dirs(&mut self, project_root: &str, artdir: &str) -> (PathBuf, PathBuf) {
        let key = (project_root.to_string(), artdir.to_string());
        if let Some(v) = self.cache.get(&key) {
            return v.clone();
        }
        // three levels so that a leading `..` or two in a config path stays inside `base`
        let root = self.base.join(format!("c{}", self.cache.len())).join("l1").join("l2");
        std::fs::create_dir_all(&root).unwrap();
        std::fs::write(root.join("schema.graphql"), "type Query { x: Int }\n").unwrap();
        let loc = root.join("isograph.config.json");
        std::fs::write(&loc, Self::config_json(project_root, artdir, "esm")).unwrap();
        let cwd = root.to_str().unwrap().intern().into();
        let cfg = create_config(&loc, cwd);
        let v = (root, cfg.artifact_directory.absolute_path.clone());
        self.cache.insert(key, v.clone());
        v
    }

    /// Path of the entrypoint artifact for (type, field): the compiler's own planner
    /// (`FileSystemState::recreate_all`) on an artifact list holding one entrypoint artifact.
    fn entrypoint_artifact(&mut self, project_root: &str, artdir: &str, t: &str, f: &str) -> String {
        let (root, adir) = self.dirs(project_root, artdir);
        let arts = vec![ArtifactPathAndContent {
            file_content: FileContent(String::new()),
            artifact_path: ArtifactPath {
                type_and_field: Some(EntityNameAndSelectableName {
                    parent_entity_name: t.intern().into(),
                    selectable_name: f.intern().into(),
                }),
                file_name: *artifact_content::generate_artifacts::ENTRYPOINT_FILE_NAME,
            },
        }];
        let state: artifact_content::FileSystemState = (&arts[..]).into();
        let ops = artifact_content::FileSystemState::recreate_all(&state, &adir);
        for op in ops {
            if let FileSystemOperation::WriteFile(p, _) = op {
                return match p.strip_prefix(&root) {
                    Ok(rel) => rel.to_str().unwrap().to_string(),
                    Err(_) => format!("ABS:{}", p.display()),
                };
            }
        }
        "none".to_string()
    }
}

impl Drop for CompilerSide {
    fn drop(&mut self) {
        let _ = std::fs::remove_dir_all(&self.base);
    }
}

// ------------------------------------------------------------------------------------------------
// the SWC side

#[derive(Clone, Default)]
struct Collect(Arc<Mutex<Vec<String>>>);
impl Emitter for Collect {
    fn emit(&mut self, db: &DiagnosticBuilder<'_>) {
        self.0.lock().unwrap().push(db.message());
    }
}

const HOLE: &str = "__HX_ISO__";
const TARGET: &str = "__hx_target";

fn module_source(nested: bool) -> &'static str {
    if nested {
        "import React from 'react';\nconst before = () => 2;\nexport function wrap(p) {\n  const __hx_target = __HX_ISO__;\n  return <div>{__hx_target}{before(p)}</div>;\n}\nexport default wrap;\nconst notiso = isoo(`entrypoint Query.Other`);\n"
    } else {
        "import React from 'react';\nconst before = 1;\nexport const __hx_target = __HX_ISO__;\nfunction after(a) {\n  return <div>{a + before}</div>;\n}\nconst obj = { iso: 1, other: before.iso };\n"
    }
}

fn ident(s: &str) -> Ident {
    Ident::new(s.into(), DUMMY_SP, SyntaxContext::empty())
}

fn arg(e: Expr) -> ExprOrSpread {
    ExprOrSpread { spread: None, expr: Box::new(e) }
}

fn call(callee: Expr, args: Vec<ExprOrSpread>) -> Expr {
    Expr::Call(CallExpr {
        span: DUMMY_SP,
        ctxt: SyntaxContext::empty(),
        callee: Callee::Expr(Box::new(callee)),
        args,
        type_args: None,
    })
}

fn tpl(raw: &str, with_subst: bool) -> Expr {
    let el = |r: &str, tail: bool| TplElement { span: DUMMY_SP, tail, cooked: None, raw: r.into() };
    if with_subst {
        Expr::Tpl(Tpl {
            span: DUMMY_SP,
            exprs: vec![Box::new(Expr::Ident(ident("hxSubst")))],
            quasis: vec![el(raw, false), el("", true)],
        })
    } else {
        Expr::Tpl(Tpl { span: DUMMY_SP, exprs: vec![], quasis: vec![el(raw, true)] })
    }
}

/// The iso expression for a form.  `None`: unknown form.
fn iso_expr(form: &str, lit: &str) -> Option<Expr> {
    let iso = || Expr::Ident(ident("iso"));
    let a1 = || arg(Expr::Ident(ident("__HX_ARG__")));
    let a2 = || arg(Expr::Ident(ident("__HX_ARG2__")));
    let t = || arg(tpl(lit, false));
    Some(match form {
        "bare" => call(iso(), vec![t()]),
        "call1" => call(call(iso(), vec![t()]), vec![a1()]),
        "call0" => call(call(iso(), vec![t()]), vec![]),
        "call2" => call(call(iso(), vec![t()]), vec![a1(), a2()]),
        "subst" => call(iso(), vec![arg(tpl(lit, true))]),
        "subst1" => call(call(iso(), vec![arg(tpl(lit, true))]), vec![a1()]),
        "nontpl" => call(iso(), vec![arg(Expr::Ident(ident("hxNotATemplate")))]),
        "noargs" => call(iso(), vec![]),
        "twoargs" => call(iso(), vec![t(), a2()]),
        "twoargs1" => call(call(iso(), vec![t(), a2()]), vec![a1()]),
        _ => return None,
    })
}

struct Fill(Option<Expr>);
impl VisitMut for Fill {
    fn visit_mut_expr(&mut self, e: &mut Expr) {
        if let Expr::Ident(i) = e {
            if &*i.sym == HOLE {
                if let Some(x) = self.0.take() {
                    *e = x;
                }
                return;
            }
        }
        e.visit_mut_children_with(self);
    }
}

/// Takes the initialiser of `__hx_target` out of the module (leaving a dummy behind).
struct Take(Option<Expr>);
impl VisitMut for Take {
    fn visit_mut_var_declarator(&mut self, d: &mut VarDeclarator) {
        if let Pat::Ident(b) = &d.name {
            if &*b.id.sym == TARGET {
                if let Some(init) = d.init.take() {
                    self.0 = Some(*init);
                    d.init = Some(Box::new(Expr::Ident(ident("__HX_TAKEN__"))));
                }
                return;
            }
        }
        d.visit_mut_children_with(self);
    }
}

fn err_kind(msg: &str) -> &'static str {
    if msg.contains("Expected 'entrypoint', 'field' or 'pointer'") {
        "invalid-keyword"
    } else if msg.contains("should be passed exactly one argument") {
        "fn-one-arg"
    } else if msg.contains("Iso invocation require one parameter") {
        "iso-one-arg"
    } else if msg.contains("Only template literals") {
        "only-tpl"
    } else if msg.contains("Substitutions are not allowed") {
        "subst"
    } else {
        "unknown"
    }
}

/// (swc outcome, kept|changed)
fn run_swc(
    lit: &str,
    module: &str,
    root: &Path,
    filedir: &str,
    project_root: &str,
    artdir: &str,
    form: &str,
) -> (String, String) {
    let (form, nested) = match form.strip_suffix(".n") {
        Some(f) => (f, true),
        None => (form, false),
    };
    let Some(isoexpr) = iso_expr(form, lit) else { return ("bad-form".into(), "kept".into()) };
    let cfg: IsographProjectConfig =
        serde_json::from_str(&CompilerSide::config_json(project_root, artdir, module)).unwrap();
    let dir = if filedir == "." { root.to_path_buf() } else { root.join(filedir) };
    let filename = dir.join("File.tsx");

    let cm: Lrc<SourceMap> = Default::default();
    let msgs = Collect::default();
    let handler = Handler::with_emitter(true, false, Box::new(msgs.clone()));
    let fm = cm.new_source_file(FileName::Custom("input.js".into()).into(), module_source(nested).to_string());
    let mut errs = vec![];
    let parsed = parse_file_as_module(
        &fm,
        Syntax::Es(EsSyntax { jsx: true, ..Default::default() }),
        EsVersion::latest(),
        None,
        &mut errs,
    )
    .expect("harness module template must parse");
    let mut original = parsed;
    original.visit_mut_with(&mut Fill(Some(isoexpr)));

    let transformed: Module = GLOBALS.set(&Globals::new(), || {
        HANDLER.set(&handler, || {
            let pass = compile_iso_literal_visitor(&cfg, &filename, root, None);
            match Program::Module(original.clone()).apply(pass) {
                Program::Module(m) => m,
                _ => unreachable!(),
            }
        })
    });

    // the added imports (prepended), then the rest must be the original module except the target
    let added = transformed.body.len().saturating_sub(original.body.len());
    let mut imports: Vec<(String, String)> = vec![];
    let mut ok_imports = true;
    for it in &transformed.body[..added] {
        match it {
            ModuleItem::ModuleDecl(ModuleDecl::Import(d)) if d.specifiers.len() == 1 && !d.type_only => {
                match &d.specifiers[0] {
                    ImportSpecifier::Default(s) => {
                        imports.push((s.local.sym.to_string(), d.src.value.to_string()))
                    }
                    _ => ok_imports = false,
                }
            }
            _ => ok_imports = false,
        }
    }
    let mut t_rest = Module { span: DUMMY_SP, body: transformed.body[added..].to_vec(), shebang: None };
    let mut o_rest = Module { span: DUMMY_SP, body: original.body.clone(), shebang: None };
    let mut tk_t = Take(None);
    t_rest.visit_mut_with(&mut tk_t);
    let mut tk_o = Take(None);
    o_rest.visit_mut_with(&mut tk_o);
    let kept = ok_imports && t_rest.body.eq_ignore_span(&o_rest.body);
    let orig_expr = tk_o.0.expect("target in original");
    let messages = msgs.0.lock().unwrap().clone();

    let outcome = match tk_t.0 {
        None => "other:no-target".to_string(),
        Some(e) => {
            if !messages.is_empty() {
                let k = err_kind(&messages[0]);
                if messages.len() == 1 && e.eq_ignore_span(&orig_expr) && imports.is_empty() {
                    format!("err:{k}")
                } else {
                    format!("other:err-but-changed:{k}")
                }
            } else {
                match &e {
                    Expr::Ident(i) if &*i.sym == "__HX_ARG__" && imports.is_empty() => "arg".to_string(),
                    Expr::Ident(i) => {
                        let hits: Vec<_> = imports.iter().filter(|(l, _)| *l == i.sym.to_string()).collect();
                        if imports.len() == 1 && hits.len() == 1 {
                            format!("imp:{}:{}", hex(hits[0].1.as_bytes()), hex(hits[0].0.as_bytes()))
                        } else {
                            "other:ident".to_string()
                        }
                    }
                    Expr::Arrow(a) => {
                        let is_id = a.params.len() == 1
                            && matches!(&a.params[0], Pat::Ident(b) if &*b.id.sym == "x")
                            && matches!(&*a.body, BlockStmtOrExpr::Expr(b) if matches!(&**b, Expr::Ident(i) if &*i.sym == "x"))
                            && !a.is_async
                            && !a.is_generator;
                        if is_id && imports.is_empty() { "identity".to_string() } else { "other:arrow".to_string() }
                    }
                    Expr::Member(m) => {
                        let is_default = matches!(&m.prop, MemberProp::Ident(p) if &*p.sym == "default");
                        match &*m.obj {
                            Expr::Call(c) if is_default && imports.is_empty() => match (&c.callee, &c.args[..]) {
                                (Callee::Expr(cal), [a]) if a.spread.is_none() => match (&**cal, &*a.expr) {
                                    (Expr::Ident(r), Expr::Lit(Lit::Str(s))) if &*r.sym == "require" => {
                                        format!("req:{}", hex(s.value.as_bytes()))
                                    }
                                    _ => "other:member".to_string(),
                                },
                                _ => "other:member".to_string(),
                            },
                            _ => "other:member".to_string(),
                        }
                    }
                    _ if e.eq_ignore_span(&orig_expr) => "other:unchanged-without-error".to_string(),
                    _ => "other:expr".to_string(),
                }
            }
        }
    };
    (outcome, if kept { "kept".into() } else { "changed".into() })
}

// ------------------------------------------------------------------------------------------------
// generator

const WS: &[&str] = &[" ", " ", " ", "\n", "\t", "  ", "\n  ", "\r\n", "\x0c", " \t\n"];
const ODD_WS: &[&str] = &["\u{feff}", "\x0b", "\u{a0}", "\u{2028}", "\u{85}"];
const KEYWORDS: &[&str] = &["entrypoint", "entrypoint", "entrypoint", "field", "field", "pointer"];
const NEAR_KEYWORDS: &[&str] = &[
    "entrypointFoo", "fieldX", "pointers", "Field", "ENTRYPOINT", "entry", "point", "unknown", "query", "fiel", "",
];
const TYPES: &[&str] = &[
    "Query", "Query", "User", "Q", "_x", "Query2", "Pet_1", "field", "entrypoint", "pointer", "Mutation", "QueryQuery",
    "fieldX", "Quer",
];
const FIELDS: &[&str] = &[
    "HomeRoute", "foo", "f", "foo2", "__x", "field", "entrypoint", "pointer", "fooBar", "foo_bar", "Query", "fo", "foofoo",
    "entrypointFoo",
];
const BAD_NAMES: &[&str] = &["Qu\u{e9}", "1abc", "a-b", "\u{6f22}", "a.b", "x\u{1F600}", "$v", "a b", "-1", "0"];
const ENTRY_TAILS_OK: &[&str] = &[
    "", "", "", " ", "\n", "\n  ", " @lazyLoad", "@lazyLoad", "  @lazyLoad\n", "@a @b", " @lazyLoad(a: 1)", "@lazyLoad(a: \"x\")",
    "\t@x", "\u{feff}",
];
const ENTRY_TAILS_BAD: &[&str] = &[" {", "(", ",", " # c", " // c", ".x", " foo", "@", " @1", "!", " \u{a0}", "\u{e9}"];
const FIELD_TAILS_OK: &[&str] = &[
    " { }", "{}", " {\n  id\n}", " @component {\n    pets {\n      id\n    }\n  }", "@component{\n a,\n }",
    "($x: Int) { a, }", " ($x: Int!, $y: String) @component {\n a(x: $x)\n }", " \"\"\"desc\"\"\" {\n a\n }",
    " { x(a: \"entrypoint A.b\")\n }", "\n{\n  a: b\n}", " @component @x(y: 2) {\n}", "\u{feff}{}",
];
const FIELD_TAILS_BAD: &[&str] = &[" {", "", " @component", " { a b }", "(", " to User {}", "\u{e9} {}"];
const POINTER_TAILS_OK: &[&str] = &[
    " to User { id, }", " to [User!]! @x {\n id\n }", "($a: ID) to User {}", "\nto User\n{\n}", " to User \"\"\"d\"\"\" {\n a\n }",
];
const POINTER_TAILS_BAD: &[&str] = &[" { }", " to { }", " To User {}", ""];
const COMPS: &[&str] = &["src", "components", "app", "generated", "gen", "a", "b", "__isograph", "x", "Query"];
const PROJECT_ROOTS: &[&str] = &["./src/components", "./src", "src", ".", "./app/src/x", "src/components/"];
const ARTDIRS: &[&str] = &[
    "-", "-", "-", "./src", "./src/generated", "./gen", "src/components", "./a/b/c", ".", "./src/../gen", "src//x", "./src/.",
];
const FORMS_ENTRY: &[&str] = &[
    "bare", "bare", "bare", "bare", "bare", "bare", "bare", "bare", "bare.n", "bare.n", "bare.n", "call1", "call1.n", "call0",
    "subst", "twoargs", "nontpl", "noargs",
];
const FORMS_FIELD: &[&str] = &[
    "call1", "call1", "call1", "call1", "call1", "call1", "call1", "call1.n", "call1.n", "call1.n", "bare", "bare", "bare.n",
    "call0", "call2", "subst", "subst1", "noargs", "twoargs", "twoargs1", "nontpl",
];

fn pk<'a>(r: &mut Rng, xs: &[&'a str]) -> &'a str {
    xs[r.below(xs.len())]
}

fn ws(r: &mut Rng, min1: bool) -> String {
    let mut s = String::new();
    if min1 || r.chance(1, 4) {
        s.push_str(pk(r, WS));
        if r.chance(1, 6) {
            s.push_str(pk(r, WS));
        }
    }
    s
}

fn gen_case(r: &mut Rng) -> String {
    let malformed = r.chance(1, 7);
    let kw: &str = if malformed && r.chance(1, 3) { pk(r, NEAR_KEYWORDS) } else { pk(r, KEYWORDS) };
    let mut all_ok = KEYWORDS.contains(&kw);
    let mut lit = String::new();
    // leading white space (the extraction keeps whatever follows the back-tick)
    match r.below(8) {
        0 => lit.push_str("\n  "),
        1 => lit.push_str(&ws(r, true)),
        2 if malformed => {
            let o = pk(r, ODD_WS);
            lit.push_str(o);
            if o != "\u{feff}" {
                all_ok = false;
            }
        }
        _ => {}
    }
    lit.push_str(kw);
    // keyword / type separator
    if malformed && r.chance(1, 4) {
        if r.chance(1, 2) {
            all_ok = false; // glued: one identifier
        } else {
            let o = pk(r, ODD_WS);
            lit.push_str(o);
            if o != "\u{feff}" {
                all_ok = false;
            }
        }
    } else {
        lit.push_str(&ws(r, true));
    }
    let t: &str = if malformed && r.chance(1, 5) { all_ok = false; pk(r, BAD_NAMES) } else { pk(r, TYPES) };
    lit.push_str(t);
    // around the dot: mostly glued, often spaced (the parser accepts both)
    if r.chance(1, 4) { lit.push_str(&ws(r, true)); }
    if malformed && r.chance(1, 6) { all_ok = false; lit.push_str(pk(r, &["", "..", ":", "/"])); } else { lit.push('.'); }
    if r.chance(1, 4) { lit.push_str(&ws(r, true)); }
    let f: &str = if malformed && r.chance(1, 5) { all_ok = false; pk(r, BAD_NAMES) } else { pk(r, FIELDS) };
    lit.push_str(f);
    let bad_tail = malformed && r.chance(1, 3);
    let tail: &str = match (kw, bad_tail) {
        ("entrypoint", false) => pk(r, ENTRY_TAILS_OK),
        ("entrypoint", true) => pk(r, ENTRY_TAILS_BAD),
        ("field", false) => pk(r, FIELD_TAILS_OK),
        ("field", true) => pk(r, FIELD_TAILS_BAD),
        ("pointer", false) => pk(r, POINTER_TAILS_OK),
        ("pointer", true) => pk(r, POINTER_TAILS_BAD),
        (_, _) => pk(r, FIELD_TAILS_OK),
    };
    if bad_tail { all_ok = false; }
    lit.push_str(tail);
    if r.chance(1, 5) { lit.push_str(pk(r, &["\n", "  ", "\n  ", "\t"])); }
    if malformed && r.chance(1, 4) {
        // byte-level damage: drop or insert one character somewhere
        all_ok = false;
        let chars: Vec<char> = lit.chars().collect();
        if !chars.is_empty() {
            let i = r.below(chars.len());
            let mut v = chars.clone();
            if r.chance(1, 2) { v.remove(i); } else {
                let c = *r.pick(&['x', ' ', '.', '@', '(', '\u{e9}', '\u{1F600}', '\n', '_', '0']);
                v.insert(i, c);
            }
            lit = v.into_iter().collect();
        }
    }
    if malformed && r.chance(1, 10) {
        all_ok = false;
        lit = format!("{}{}", pk(r, &["x ", "# c\n", "query ", "entrypoint ", "."]), lit);
    }
    let module = if r.chance(1, 2) { "esm" } else { "cjs" };
    let project_root: &str = pk(r, PROJECT_ROOTS);
    let artdir: &str = pk(r, ARTDIRS);
    // where the file lives: mostly below the project root / next to the artifact directory
    let depth = r.below(6);
    let mut comps: Vec<String> = vec![];
    let anchor = if artdir == "-" { project_root } else { artdir };
    if r.chance(2, 3) {
        for c in anchor.split('/') {
            if !c.is_empty() && c != "." && c != ".." { comps.push(c.to_string()); }
        }
        if r.chance(1, 4) && !comps.is_empty() { comps.pop(); }
    }
    for _ in 0..depth {
        if comps.len() >= 6 { break; }
        comps.push(pk(r, COMPS).to_string());
    }
    let filedir = if comps.is_empty() { ".".to_string() } else { comps.join("/") };
    let form: &str = if kw == "entrypoint" { pk(r, FORMS_ENTRY) } else { pk(r, FORMS_FIELD) };
    let tag = if all_ok { format!("{}-ok", &kw[..1]) } else { "mal".to_string() };
    format!(
        "swc.lit\t{}\t{}\t{}\t{}\t{}\t{}\t{}",
        hex(lit.as_bytes()), module, filedir, project_root, artdir, form, tag
    )
}

// ------------------------------------------------------------------------------------------------

fn run_case(cs: &mut CompilerSide, f: &[&str]) -> String {
    if f.len() < 7 {
        return "bad-op".into();
    }
    let Some(bytes) = unhex(f[1]) else { return "bad-op".into() };
    let Ok(lit) = String::from_utf8(bytes) else { return "bad-op".into() };
    let (module, filedir, project_root, artdir, form) = (f[2], f[3], f[4], f[5], f[6]);
    let hdr = match catch_unwind(AssertUnwindSafe(|| header_probe(&lit))) {
        Ok(h) => h,
        Err(_) => return "hdr:panic".into(),
    };
    let (root, _) = cs.dirs(project_root, artdir);
    let swc = match catch_unwind(AssertUnwindSafe(|| {
        run_swc(&lit, module, &root, filedir, project_root, artdir, form)
    })) {
        Ok(x) => x,
        Err(_) => ("panic".to_string(), "kept".to_string()),
    };
    let art = match &hdr {
        Some((k, t, fl)) if k == "entrypoint" => {
            format!("art:{}", hex(cs.entrypoint_artifact(project_root, artdir, t, fl).as_bytes()))
        }
        _ => "art:-".to_string(),
    };
    let hdr_s = match &hdr {
        Some((k, t, fl)) => format!("hdr:{k}:{t}:{fl}"),
        None => "hdr:none".to_string(),
    };
    format!("{}\t{}\t{}\t{}", hdr_s, swc.0, swc.1, art)
}

fn run_stats(f: &[&str]) -> String {
    let Some(bytes) = unhex(f[1]) else { return "bad-op".into() };
    let Ok(lit) = String::from_utf8(bytes) else { return "bad-op".into() };
    match catch_unwind(AssertUnwindSafe(|| real_parse(&lit))) {
        Ok(Some((k, _, _))) => format!("full:ok:{k}"),
        Ok(None) => "full:err".into(),
        Err(_) => "full:panic".into(),
    }
}

fn main() {
    let which = std::env::var("HX_ENGINE").unwrap_or_default();
    let mut cs = CompilerSide::new();
    main_loop(&|r, _i| vec![gen_case(r)], &mut |f| match (f[0], which.as_str()) {
        ("swc.lit", "swcstats") => run_stats(f),
        ("swc.lit", _) => run_case(&mut cs, f),
        _ => "bad-op".to_string(),
    });
}
