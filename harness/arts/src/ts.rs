//! The external TypeScript oracle of C13: `swc_ecma_parser` with TypeScript syntax.
//! `parse(src)` parses `src` as a TS *module* and returns the module specifiers it imports
//! (static `import`/`export … from`, dynamic `import("…")`).
use std::panic::{catch_unwind, AssertUnwindSafe};
use swc_core::common::{sync::Lrc, FileName, SourceMap};
use swc_core::ecma::ast::*;
use swc_core::ecma::parser::{parse_file_as_module, Syntax, TsSyntax};
use swc_core::ecma::visit::{Visit, VisitWith};

pub struct Parsed {
    pub ok: bool,
    pub error: String,
    pub imports: Vec<String>,
}

struct Imports(Vec<String>);

impl Visit for Imports {
    fn visit_import_decl(&mut self, n: &ImportDecl) {
        self.0.push(n.src.value.to_string());
    }
    fn visit_export_all(&mut self, n: &ExportAll) {
        self.0.push(n.src.value.to_string());
    }
    fn visit_named_export(&mut self, n: &NamedExport) {
        if let Some(s) = &n.src {
            self.0.push(s.value.to_string());
        }
    }
    fn visit_call_expr(&mut self, n: &CallExpr) {
        if let Callee::Import(_) = n.callee {
            if let Some(a) = n.args.first() {
                if let Expr::Lit(Lit::Str(s)) = &*a.expr {
                    self.0.push(s.value.to_string());
                }
            }
        }
        n.visit_children_with(self);
    }
}

pub fn parse(src: &str) -> Parsed {
    let r = catch_unwind(AssertUnwindSafe(|| {
        let cm: Lrc<SourceMap> = Default::default();
        let fm = cm.new_source_file(FileName::Custom("artifact.ts".into()).into(), src.to_string());
        let mut errs = vec![];
        let m = parse_file_as_module(
            &fm,
            Syntax::Typescript(TsSyntax { tsx: false, ..Default::default() }),
            EsVersion::latest(),
            None,
            &mut errs,
        );
        match m {
            Err(e) => Parsed { ok: false, error: format!("{:?}", e.kind()), imports: vec![] },
            Ok(m) => {
                if let Some(e) = errs.first() {
                    return Parsed { ok: false, error: format!("recovered: {:?}", e.kind()), imports: vec![] };
                }
                let mut v = Imports(vec![]);
                m.visit_with(&mut v);
                Parsed { ok: true, error: String::new(), imports: v.0 }
            }
        }
    }));
    match r {
        Ok(p) => p,
        Err(_) => Parsed { ok: false, error: "parser panicked".into(), imports: vec![] },
    }
}
