fn main() { eprintln!("engine not built yet"); std::process::exit(2); }
