//! hx_arts — correspondence / oracle engines of the `arts` family (HX_ENGINE selects one):
//!
//! * `overloads` (C24): compile a generated project, extract the ordered `MatchesWhitespaceAndString<'…', T>`
//!   patterns from the IMPLEMENTATION's iso.ts.
//! * `holes` (C13): put user-controlled text into one hole (schema description, string argument, generated
//!   file header, source file path), compile, cut the embedded text out of the artifact again.
//! * `arts` (C13): compile a generated project under one option combination; parse every `.ts` artifact with
//!   swc (TypeScript module), every `.json` with serde_json; list every import specifier and resolve the
//!   relative ones.
//! * `det` (C14): the same files through the real CLI in fresh processes, with files created in reverse
//!   order and with the declarations regrouped into other files; byte comparison.
//! * `crash` (C08): generated / mutated / known-defect projects and byte-mutated demos through the CLI
//!   subprocess (exit status, signal, stderr) and, where safe, in-process under catch_unwind; watch-mode
//!   recompiles in one CompilerState.
//!
//! Answer convention: the FIRST field is what the Lean model must reproduce; later fields of engines `det`
//! and `crash` (and the parse flags of `holes`) are measurements that the driver echoes.
mod ts;

use hx_common::{hex, main_loop, unhex, Rng};
use hx_projgen::compile::*;
use hx_projgen::env::{Env, SelKind};
use hx_projgen::gen::{generate, Alphabet, GenOpts};
use hx_projgen::model::*;
use hx_projgen::mutate::mutate_single_fault;
use hx_projgen::render::{apply_file_plan, render, FilePlan, RenderOpts};
use hx_projgen::wire::{from_wire, to_wire};
use std::collections::{BTreeMap, BTreeSet};
use std::path::{Path, PathBuf};

// ---------------------------------------------------------------------------------------------
// small helpers
// ---------------------------------------------------------------------------------------------

fn hexs(s: &str) -> String {
    hex(s.as_bytes())
}

/// comma-joined hex items; `.` = empty list (so that no field is ever empty)
fn hexlist<'a>(items: impl IntoIterator<Item = &'a str>) -> String {
    let v: Vec<String> = items.into_iter().map(hexs).collect();
    if v.is_empty() {
        ".".to_string()
    } else {
        v.join(",")
    }
}

fn slug(s: &str, n: usize) -> String {
    let mut out = String::new();
    let mut dash = false;
    for c in s.chars() {
        if out.len() >= n {
            break;
        }
        if c.is_ascii_alphanumeric() {
            out.push(c.to_ascii_lowercase());
            dash = false;
        } else if !dash && !out.is_empty() {
            out.push('-');
            dash = true;
        }
    }
    out.trim_end_matches('-').to_string()
}

const PANIC_TABLE: &[(&str, &str)] = &[
    ("has overflowed its stack", "stack-overflow"),
    ("Expected refetch strategy", "expected-refetch-strategy"),
    ("Expected linked field to exist by now", "expected-linked-field"),
    ("Parent context has missing variable", "missing-parent-variable"),
    ("Expected selectable to exist", "expected-selectable-to-exist"),
    ("is not fetchable", "type-not-fetchable"),
    ("generated_file_header should not be a multi-line", "config-multiline-header"),
    ("Lists are not supported here", "lists-not-supported"),
    ("Expected to find a variable defined at the root", "variable-not-defined-at-root"),
    ("Expected `Query.node` to exist", "expected-query-node-to-exist"),
];

/// narrow class of a panic message / of the CLI's stderr
fn panic_sig(text: &str) -> String {
    for (needle, sig) in PANIC_TABLE {
        if text.contains(needle) {
            return sig.to_string();
        }
    }
    // first line after `panicked at …:`
    let msg = match text.find("panicked at") {
        Some(i) => {
            let rest = &text[i..];
            let mut lines = rest.lines();
            let first = lines.next().unwrap_or("");
            // new format: message on the next line; old format: `panicked at 'msg', file`
            match lines.next() {
                Some(l) if !l.trim().is_empty() && !l.starts_with("note:") => l.to_string(),
                _ => first.to_string(),
            }
        }
        None => text.lines().next().unwrap_or("").to_string(),
    };
    format!("other:{}", slug(&msg, 48))
}

/// `a/b/c.ts` + `../x` -> `a/x` (pure path arithmetic; mirrored by `IsoVerif.Core.Imports.resolve`)
fn resolve(file: &str, spec: &str) -> String {
    let mut comps: Vec<&str> = file.split('/').collect();
    comps.pop();
    for c in spec.split('/') {
        match c {
            "" | "." => {}
            ".." => {
                if comps.is_empty() || *comps.last().unwrap() == ".." {
                    comps.push("..");
                } else {
                    comps.pop();
                }
            }
            x => comps.push(x),
        }
    }
    comps.join("/")
}

fn is_relative(spec: &str) -> bool {
    spec.starts_with("./") || spec.starts_with("../") || spec == "." || spec == ".."
}

// ---------------------------------------------------------------------------------------------
// dependency graph of client fields (cycle detection for the classifier of C08)
// ---------------------------------------------------------------------------------------------

/// Is there a client field / pointer that (transitively) selects itself?
fn has_client_cycle(p: &Project) -> bool {
    let env = Env::new(p);
    let mut key_to_idx: BTreeMap<(String, String), usize> = BTreeMap::new();
    for (i, (_, d)) in p.decls.iter().enumerate() {
        if !d.is_entrypoint() {
            key_to_idx.entry((d.parent().to_string(), d.name().to_string())).or_insert(i);
        }
    }
    let mut edges: BTreeMap<usize, BTreeSet<usize>> = BTreeMap::new();
    env.walk(|path, ty, sel, found| {
        if let Some(f) = found {
            if matches!(f.kind, SelKind::ClientField | SelKind::ClientPointer) {
                if let Some(&j) = key_to_idx.get(&(ty.to_string(), sel.head().name.clone())) {
                    edges.entry(path.decl).or_default().insert(j);
                }
            }
        }
    });
    // DFS with colours
    fn dfs(n: usize, edges: &BTreeMap<usize, BTreeSet<usize>>, col: &mut BTreeMap<usize, u8>) -> bool {
        match col.get(&n) {
            Some(1) => return true,
            Some(2) => return false,
            _ => {}
        }
        col.insert(n, 1);
        if let Some(es) = edges.get(&n) {
            for &m in es {
                if dfs(m, edges, col) {
                    return true;
                }
            }
        }
        col.insert(n, 2);
        false
    }
    let mut col = BTreeMap::new();
    (0..p.decls.len()).any(|n| dfs(n, &edges, &mut col))
}

// ---------------------------------------------------------------------------------------------
// the CLI in a child process (own runner: creation order, timeout, normalised stderr)
// ---------------------------------------------------------------------------------------------

struct Cli {
    code: Option<i32>,
    signal: Option<i32>,
    timed_out: bool,
    /// stderr+stdout with the temp dir and durations removed
    text: String,
    /// files below a `__isograph` directory, keyed by path relative to the project directory
    artifacts: BTreeMap<String, Vec<u8>>,
}

impl Cli {
    fn class(&self) -> String {
        if self.timed_out {
            return "timeout".into();
        }
        match (self.code, self.signal) {
            (Some(0), _) => "ok".into(),
            (Some(1), _) => "diagnostics".into(),
            (Some(101), _) => "panic".into(),
            (Some(n), _) => format!("exit:{n}"),
            (None, Some(s)) => format!("signal:{s}"),
            (None, None) => "unknown".into(),
        }
    }
}

fn normalise_text(s: &str, dir: &str) -> String {
    let s = s.replace(dir, "<DIR>");
    let mut out = String::new();
    for line in s.lines() {
        if line.contains("Compilation took") {
            continue;
        }
        if line.contains("Success! Compiled") {
            // drop the duration at the end
            match line.rfind(", in ") {
                Some(i) => out.push_str(&line[..i]),
                None => out.push_str(line),
            }
        } else {
            out.push_str(line);
        }
        out.push('\n');
    }
    out
}

fn cli_bin() -> Result<PathBuf, String> {
    use std::sync::OnceLock;
    static BIN: OnceLock<Result<PathBuf, String>> = OnceLock::new();
    BIN.get_or_init(|| cli_binary(false)).clone()
}

fn run_cli(files: &Files, reverse: bool) -> Result<Cli, String> {
    let bin = cli_bin()?;
    let tmp = TempDir::new();
    let mut order: Vec<(&PathBuf, &Vec<u8>)> = files.iter().collect();
    if reverse {
        order.reverse();
    }
    for (rel, bytes) in order {
        let p = tmp.path().join(rel);
        if let Some(parent) = p.parent() {
            std::fs::create_dir_all(parent).map_err(|e| e.to_string())?;
        }
        std::fs::write(&p, bytes).map_err(|e| e.to_string())?;
    }
    let out_path = tmp.path().join(".hx_stdout");
    let err_path = tmp.path().join(".hx_stderr");
    let mut child = std::process::Command::new(&bin)
        .args(["--config", "./isograph.config.json"])
        .current_dir(tmp.path())
        .env("NO_COLOR", "1")
        .env_remove("RUST_LOG")
        .env_remove("RUST_BACKTRACE")
        .stdin(std::process::Stdio::null())
        .stdout(std::fs::File::create(&out_path).map_err(|e| e.to_string())?)
        .stderr(std::fs::File::create(&err_path).map_err(|e| e.to_string())?)
        .spawn()
        .map_err(|e| format!("cannot run {}: {e}", bin.display()))?;
    let t0 = std::time::Instant::now();
    let limit = std::time::Duration::from_secs(
        std::env::var("HX_CLI_TIMEOUT_S").ok().and_then(|s| s.parse().ok()).unwrap_or(120),
    );
    let mut timed_out = false;
    let status = loop {
        match child.try_wait().map_err(|e| e.to_string())? {
            Some(st) => break st,
            None => {
                if t0.elapsed() > limit {
                    let _ = child.kill();
                    timed_out = true;
                    break child.wait().map_err(|e| e.to_string())?;
                }
                std::thread::sleep(std::time::Duration::from_millis(3));
            }
        }
    };
    use std::os::unix::process::ExitStatusExt;
    let signal = status.signal();
    let mut text = String::from_utf8_lossy(&std::fs::read(&err_path).unwrap_or_default()).to_string();
    text.push_str(&String::from_utf8_lossy(&std::fs::read(&out_path).unwrap_or_default()));
    let dir = tmp.path().to_string_lossy().to_string();
    let mut artifacts = BTreeMap::new();
    for (k, v) in read_tree(tmp.path()) {
        if k.split('/').any(|c| c == "__isograph") && !files.contains_key(&PathBuf::from(&k)) {
            artifacts.insert(k, v);
        }
    }
    Ok(Cli { code: status.code(), signal, timed_out, text: normalise_text(&text, &dir), artifacts })
}

/// in-process result as a short class
fn inproc_class(r: &CompileResult) -> String {
    match r {
        CompileResult::Ok(_) => "ok".into(),
        CompileResult::Diagnostics(_) => "diagnostics".into(),
        CompileResult::Panic(m) => format!("panic:{}", panic_sig(m)),
    }
}

// ---------------------------------------------------------------------------------------------
// engine `overloads` (C24)
// ---------------------------------------------------------------------------------------------

/// the ordered patterns `MatchesWhitespaceAndString<'…', T>` of an iso.ts
fn extract_patterns(iso_ts: &str) -> Vec<String> {
    // the overload parameters only (the explanatory comment of iso.ts mentions the type as well)
    let needle = "param: T & MatchesWhitespaceAndString<'";
    let mut out = vec![];
    let mut rest = iso_ts;
    while let Some(i) = rest.find(needle) {
        let after = &rest[i + needle.len()..];
        match after.find("', T>") {
            Some(j) => {
                out.push(after[..j].to_string());
                rest = &after[j..];
            }
            None => break,
        }
    }
    out
}

/// the members of `type WhitespaceCharacter = ' ' | '\t' | …;` of an iso.ts, as the strings the TypeScript
/// literals denote; `None` when the declaration is not of that shape
fn extract_whitespace(iso_ts: &str) -> Option<Vec<String>> {
    let needle = "type WhitespaceCharacter = ";
    let i = iso_ts.find(needle)? + needle.len();
    let rest = &iso_ts[i..];
    let j = rest.find(";\n")?;
    let mut out = vec![];
    for part in rest[..j].split('|') {
        let t = part.trim();
        let inner = t.strip_prefix('\'')?.strip_suffix('\'')?;
        let cs: Vec<char> = inner.chars().collect();
        let mut v = String::new();
        let mut k = 0;
        while k < cs.len() {
            if cs[k] == '\\' {
                k += 1;
                match cs.get(k)? {
                    't' => v.push('\t'),
                    'n' => v.push('\n'),
                    'r' => v.push('\r'),
                    'f' => v.push('\u{c}'),
                    'v' => v.push('\u{b}'),
                    '0' => v.push('\0'),
                    '\\' => v.push('\\'),
                    '\'' => v.push('\''),
                    'u' => {
                        let hex: String = cs.get(k + 1..k + 5)?.iter().collect();
                        v.push(char::from_u32(u32::from_str_radix(&hex, 16).ok()?)?);
                        k += 4;
                    }
                    _ => return None,
                }
                k += 1;
            } else {
                v.push(cs[k]);
                k += 1;
            }
        }
        out.push(v);
    }
    Some(out)
}

fn header_rewrite(files: &Files, p: &Project, variant: &str) -> Files {
    let mut out = files.clone();
    for (_, d) in &p.decls {
        let canon = format!("{} {}.{}", d.keyword(), d.parent(), d.name());
        let non = match variant {
            "twospace" => format!("{}  {}.{}", d.keyword(), d.parent(), d.name()),
            "dotspace" => format!("{} {} . {}", d.keyword(), d.parent(), d.name()),
            "tabsep" => format!("{}\t{}.{}", d.keyword(), d.parent(), d.name()),
            // white space the iso lexer skips (`[ \t\r\n\f\u{feff}]+`), directly before the keyword
            "ws-tab" => format!("\t{canon}"),
            "ws-tabs" => format!("\t\t{canon}"),
            "ws-cr" => format!("\r{canon}"),
            "ws-crlf" => format!("\r\n\t{canon}"),
            "ws-ff" => format!("\u{c}{canon}"),
            "ws-bom" => format!("\u{feff}{canon}"),
            _ => canon.clone(),
        };
        for (path, bytes) in out.iter_mut() {
            let name = path.to_string_lossy();
            if name.ends_with(".graphql") || name.ends_with(".json") {
                continue;
            }
            if let Ok(s) = std::str::from_utf8(bytes) {
                if s.contains(&canon) {
                    *bytes = s.replace(&canon, &non).into_bytes();
                }
            }
        }
    }
    out
}

fn run_overloads(f: &[&str]) -> String {
    let (variant, wire) = match f {
        ["ovl", w] => ("canonical", *w),
        ["ovlnc", v, w] => (*v, *w),
        ["ovlws", v, w] => (*v, *w),
        _ => return "bad-request".into(),
    };
    let Some(p) = from_wire(wire) else { return "bad-wire".into() };
    let files = render(&p, &RenderOpts::default());
    let files = if variant == "canonical" { files } else { header_rewrite(&files, &p, variant) };
    let out = compile_files(&files);
    match &out.result {
        CompileResult::Ok(_) => {
            let Some(iso) = out.artifacts.get("iso.ts") else { return "no-iso-ts".into() };
            let iso = String::from_utf8_lossy(iso);
            let pats = extract_patterns(&iso);
            let Some(ws) = extract_whitespace(&iso) else { return "no-whitespace-type".into() };
            format!("ok\t{}\t{}", hexlist(ws.iter().map(|s| s.as_str())), hexlist(pats.iter().map(|s| s.as_str())))
        }
        CompileResult::Diagnostics(ds) => format!("rejected\t{}", hexs(&ds[0].message)),
        CompileResult::Panic(m) => format!("panic\t{}", panic_sig(m)),
    }
}

fn prefix_opts() -> GenOpts {
    GenOpts { pct_prefix_names: 100, max_decls: 8, pct_pointer: 35, pct_entrypoint: 90, random_options: false, ..GenOpts::default() }
}

fn gen_overloads(r: &mut Rng, i: u64) -> Vec<String> {
    let p = generate(r, &prefix_opts());
    if i % 10 == 9 {
        let v = *r.pick(&["twospace", "dotspace", "tabsep"]);
        vec![format!("ovlnc\t{v}\t{}", to_wire(&p))]
    } else if i % 10 >= 7 {
        // the literals re-rendered with other leading white space the real lexer skips
        let v = *r.pick(&["ws-tab", "ws-tab", "ws-tabs", "ws-cr", "ws-crlf", "ws-ff", "ws-bom"]);
        vec![format!("ovlws\t{v}\t{}", to_wire(&p))]
    } else {
        vec![format!("ovl\t{}", to_wire(&p))]
    }
}

// ---------------------------------------------------------------------------------------------
// engine `holes` (C13)
// ---------------------------------------------------------------------------------------------

fn bmp_utf8(b: &[u8]) -> Option<&str> {
    let s = std::str::from_utf8(b).ok()?;
    if b.iter().any(|&x| x >= 0xF0) {
        return None;
    }
    Some(s)
}

/// texts for which `clean_block_string_literal` is the identity and the schema lexer accepts the block string
fn desc_domain(b: &[u8]) -> bool {
    let Some(s) = bmp_utf8(b) else { return false };
    if s.is_empty() || s.chars().any(|c| c == '"' || c == '\\' || c == '\r' || (c < ' ' && c != '\n' && c != '\t')) {
        return false;
    }
    s.split('\n').all(|l| !l.is_empty() && !l.starts_with(' ') && !l.starts_with('\t') && !l.chars().all(|c| c == ' ' || c == '\t'))
}

/// raw text between the quotes of an iso string literal: StringCharacters and the escapes of the lexer,
/// minus what would end the surrounding JS template literal of the source file
fn strarg_domain(b: &[u8]) -> bool {
    let Some(s) = bmp_utf8(b) else { return false };
    let cs: Vec<char> = s.chars().collect();
    let mut i = 0;
    while i < cs.len() {
        let c = cs[i];
        if c == '\\' {
            match cs.get(i + 1) {
                Some('"') | Some('\\') | Some('/') | Some('b') | Some('f') | Some('n') | Some('r') | Some('t') => i += 2,
                Some('u') => {
                    if i + 5 < cs.len() + 0 && cs[i + 2..i + 6].iter().all(|h| h.is_ascii_hexdigit()) {
                        i += 6
                    } else {
                        return false;
                    }
                }
                _ => return false,
            }
            continue;
        }
        if c == '"' || c == '`' || c == '\n' || c == '\r' || (c < ' ' && c != '\t') {
            return false;
        }
        i += 1;
    }
    true
}

fn header_domain(b: &[u8]) -> bool {
    match std::str::from_utf8(b) {
        Ok(s) => !s.contains('\n') && !s.contains('\0'),
        Err(_) => false,
    }
}

fn path_domain(b: &[u8]) -> bool {
    match std::str::from_utf8(b) {
        Ok(s) => !s.is_empty() && !s.starts_with('.') && !s.contains('/') && !s.contains('\0'),
        Err(_) => false,
    }
}

fn hole_files(kind: &str, text: &str) -> Files {
    let mut files = Files::new();
    let header = if kind == "header" { Some(text) } else { None };
    let mut opts = serde_json::Map::new();
    if let Some(h) = header {
        opts.insert("generated_file_header".into(), serde_json::json!(h));
    }
    let cfg = serde_json::json!({"project_root": "./src", "schema": "./schema.graphql", "options": opts});
    files.insert(PathBuf::from("isograph.config.json"), serde_json::to_vec_pretty(&cfg).unwrap());
    let schema = if kind == "desc" {
        format!("type Query {{\n  \"\"\"\n{}\n  \"\"\"\n  f(s: String): String\n}}\n", text)
    } else {
        "type Query {\n  f(s: String): String\n}\n".to_string()
    };
    files.insert(PathBuf::from("schema.graphql"), schema.into_bytes());
    let sel = if kind == "strarg" { format!("f(s: \"{}\")", text) } else { "f".to_string() };
    let src = format!(
        "import {{ iso }} from '@iso';\nexport const H = iso(`\n  field Query.H {{\n    {sel}\n  }}\n`)(() => null);\niso(`entrypoint Query.H`);\n"
    );
    let stem = if kind == "path" { text } else { "a" };
    files.insert(PathBuf::from(format!("src/{stem}.ts")), src.into_bytes());
    files
}

fn between<'a>(s: &'a str, prefix: &str, suffix_from_end: &str) -> Option<&'a str> {
    let i = s.find(prefix)? + prefix.len();
    let j = s.rfind(suffix_from_end)?;
    if j < i {
        return None;
    }
    Some(&s[i..j])
}

fn flag(b: bool) -> &'static str {
    if b {
        "1"
    } else {
        "0"
    }
}

fn run_holes(f: &[&str]) -> String {
    let ["hole", kind, h] = f else { return "bad-request".into() };
    let Some(bytes) = unhex(h) else { return "bad-hex".into() };
    let inside = match *kind {
        "desc" => desc_domain(&bytes),
        "strarg" => strarg_domain(&bytes),
        "header" => header_domain(&bytes),
        "path" => path_domain(&bytes),
        _ => return "bad-kind".into(),
    };
    if !inside {
        return "outside".into();
    }
    let text = std::str::from_utf8(&bytes).unwrap();
    let out = compile_files(&hole_files(kind, text));
    let arts = match &out.result {
        CompileResult::Ok(_) => &out.artifacts,
        CompileResult::Diagnostics(ds) => return format!("rejected\t{}", hexs(&ds[0].message)),
        CompileResult::Panic(m) => return format!("panic\t{}", panic_sig(m)),
    };
    let get = |name: &str| arts.get(name).map(|b| String::from_utf8_lossy(b).to_string()).unwrap_or_default();
    match *kind {
        "desc" => {
            let a = get("Query/H/param_type.ts");
            match between(&a, "    /**\n", "\n    */\n    readonly f:") {
                Some(e) => format!("ok\t{}\t{}", hexs(e), flag(ts::parse(&a).ok)),
                None => "no-hole".into(),
            }
        }
        "strarg" => {
            let q = get("Query/H/query_text.ts");
            let n = get("Query/H/normalization_ast.ts");
            let e1 = between(&q, "f(s: \"", "\"),\\\n}';");
            let e2 = between(&n, "{ kind: \"String\", value: \"", "\" },\n");
            match (e1, e2) {
                (Some(a), Some(b)) => {
                    format!("ok\t{}\t{}\t{}{}", hexs(a), hexs(b), flag(ts::parse(&q).ok), flag(ts::parse(&n).ok))
                }
                _ => "no-hole".into(),
            }
        }
        "header" => {
            let a = get("iso.ts");
            match between(&a, "// ", "\nimport type { IsographEntrypoint } from '@isograph/react';\n") {
                Some(e) => format!("ok\t{}\t{}", hexs(e), flag(ts::parse(&a).ok)),
                None => "no-hole".into(),
            }
        }
        "path" => {
            let a = get("Query/H/resolver_reader.ts");
            match between(&a, "import { H as resolver } from '", "';\n\nconst readerAst") {
                Some(e) => format!("ok\t{}\t{}", hexs(e), flag(ts::parse(&a).ok)),
                None => "no-hole".into(),
            }
        }
        _ => "bad-kind".into(),
    }
}

const HOLE_ALPHABET: &[&str] = &[
    "a", "b", "Z", "0", "_", " ", " ", "*", "/", "*/", "/*", "//", "'", "'", "\"", "\\", "\\\"", "\\\\", "\\n", "\\u0041",
    "`", "$", "${", "{", "}", "\n", "\n", "\r", "\t", "\u{2028}", "\u{2029}", "é", "漢", "😀", "<", ">", "-->", "*\\/", ".", "@",
];

fn gen_holes(r: &mut Rng, i: u64) -> Vec<String> {
    let kind = ["desc", "strarg", "header", "path"][(i % 4) as usize];
    // mostly inside the domain: filter the alphabet per kind, sometimes use all of it
    let all = r.chance(1, 8);
    let allowed: Vec<&str> = HOLE_ALPHABET
        .iter()
        .copied()
        .filter(|s| {
            all || match kind {
                "desc" => !s.contains('"') && !s.contains('\\') && !s.contains('\r') && *s != "😀" && *s != "\t",
                "strarg" => {
                    (!s.contains('"') || *s == "\\\"") && (!s.contains('\\') || s.len() >= 2 && *s != "*\\/") && !s.contains('\n') && !s.contains('\r') && *s != "`" && *s != "😀"
                }
                "header" => !s.contains('\n'),
                _ => !s.contains('/') && *s != ".",
            }
        })
        .collect();
    let n = r.range(1, 8);
    let mut s = String::new();
    for _ in 0..n {
        s.push_str(*r.pick(&allowed[..]));
    }
    if kind == "desc" && !all {
        // no line may be blank or start with white space
        s = s.split('\n').map(|l| format!("x{}", l)).collect::<Vec<_>>().join("\n");
    }
    vec![format!("hole\t{kind}\t{}", hexs(&s))]
}

// ---------------------------------------------------------------------------------------------
// engine `arts` (C13)
// ---------------------------------------------------------------------------------------------

/// why a `.ts` artifact does not parse: narrow cause used as the finding signature
fn ts_failure_cause(path: &str, content: &str) -> &'static str {
    let file = path.rsplit('/').next().unwrap_or(path);
    if file == "query_text.ts" || file.starts_with("__refetch__") {
        // `export default '<operation text>';` — an apostrophe inside the text ends the string
        if let Some(body) = between(content, "export default '", "';") {
            if body.contains('\'') {
                return "single-quote-in-operation-text";
            }
        }
        if let Some(i) = content.find("const queryText = '") {
            let rest = &content[i + "const queryText = '".len()..];
            if let Some(j) = rest.find("';\n") {
                if rest[..j].contains('\'') {
                    return "single-quote-in-operation-text";
                }
            }
        }
    }
    // F11: `friend(n: -5)` gets the alias `friend____n___l_-5`, printed as an unquoted property name
    if content.contains("_l_-") {
        return "negative-int-alias";
    }
    if content.matches("*/").count() > content.matches("/**").count() + content.matches("/* ").count() {
        return "doc-comment-terminator";
    }
    "other"
}

fn analyse_artifacts(mode: &str, art_dir: &str, artifacts: &BTreeMap<String, Vec<u8>>, sources: &[String]) -> String {
    // every path relative to the project directory
    let mut paths: Vec<String> = vec![];
    let mut imports: Vec<(String, String)> = vec![];
    let mut failures: Vec<String> = vec![];
    for (rel, bytes) in artifacts {
        let path = format!("{art_dir}/{rel}");
        paths.push(path.clone());
        if rel.ends_with(".ts") {
            match std::str::from_utf8(bytes) {
                Err(_) => failures.push(format!("ts-parse:not-utf8:{rel}")),
                Ok(s) => {
                    let p = ts::parse(s);
                    if p.ok {
                        for spec in p.imports {
                            imports.push((path.clone(), spec));
                        }
                    } else {
                        failures.push(format!("ts-parse:{}:{}", ts_failure_cause(rel, s), rel.rsplit('/').next().unwrap()));
                    }
                }
            }
        } else if rel.ends_with(".json") {
            if serde_json::from_slice::<serde_json::Value>(bytes).is_err() {
                let cause = if bytes.starts_with(b"// ") { "header-comment" } else { "other" };
                failures.push(format!("json-parse:{cause}:{}", rel.rsplit('/').next().unwrap()));
            }
        } else {
            failures.push(format!("unknown-artifact-kind:{rel}"));
        }
    }
    // unknown causes first, so that a known finding never hides a new failure on the same case
    failures.sort_by_key(|f| (!f.contains(":other:"), f.clone()));
    let rel_imports: Vec<&(String, String)> = imports.iter().filter(|(_, s)| is_relative(s)).collect();
    let resolved: Vec<String> = rel_imports.iter().map(|(f, s)| resolve(f, s)).collect();
    let bare: BTreeSet<&str> = imports.iter().filter(|(_, s)| !is_relative(s)).map(|(_, s)| s.as_str()).collect();
    if mode == "p" {
        // parse oracle: the list of artifacts that are not a TypeScript module / not JSON
        return format!("ok\t{}\tfiles={}", hexlist(failures.iter().map(|s| s.as_str())), paths.len());
    }
    format!(
        "ok\t{}\t{}\t{}\t{}\t{}\t{}",
        hexlist(resolved.iter().map(|s| s.as_str())),
        hexlist(paths.iter().map(|s| s.as_str())),
        hexlist(sources.iter().map(|s| s.as_str())),
        hexlist(rel_imports.iter().map(|(f, _)| f.as_str())),
        hexlist(rel_imports.iter().map(|(_, s)| s.as_str())),
        hexlist(bare.iter().copied()),
    )
}

fn run_arts(f: &[&str]) -> String {
    match f {
        [op @ ("artsp" | "artsi"), wire] => {
            let mode = &op[4..];
            let Some(p) = from_wire(wire) else { return "bad-wire".into() };
            let files = render(&p, &RenderOpts::default());
            let out = compile_files(&files);
            match &out.result {
                CompileResult::Ok(_) => {
                    let sources: Vec<String> = files.keys().map(|k| k.to_string_lossy().to_string()).collect();
                    analyse_artifacts(mode, &p.options.artifact_dir(), &out.artifacts, &sources)
                }
                CompileResult::Diagnostics(ds) => format!("rejected\t{}", hexs(&ds[0].message)),
                CompileResult::Panic(m) => format!("panic\t{}", panic_sig(m)),
            }
        }
        [op @ ("artsdemop" | "artsdemoi"), name] => {
            let mode = &op[8..];
            let Some(files) = load_demo(name) else { return "no-demo".into() };
            let out = compile_files(&files);
            match &out.result {
                CompileResult::Ok(_) => {
                    let cfg: serde_json::Value =
                        serde_json::from_slice(files.get(&PathBuf::from("isograph.config.json")).unwrap()).unwrap();
                    let base = cfg
                        .get("artifact_directory")
                        .or_else(|| cfg.get("project_root"))
                        .and_then(|v| v.as_str())
                        .unwrap_or("src")
                        .trim_start_matches("./")
                        .trim_end_matches('/')
                        .to_string();
                    let sources: Vec<String> = files.keys().map(|k| k.to_string_lossy().to_string()).collect();
                    analyse_artifacts(mode, &format!("{base}/__isograph"), &out.artifacts, &sources)
                }
                CompileResult::Diagnostics(ds) => format!("rejected\t{}", hexs(&ds[0].message)),
                CompileResult::Panic(m) => format!("panic\t{}", panic_sig(m)),
            }
        }
        _ => "bad-request".into(),
    }
}

/// the 48 option combinations: module kind × file extensions × header × persisted documents × no_babel_transform
fn option_combo(k: u64) -> Options {
    let mut o = Options::default();
    o.module = if k & 1 == 0 { ModuleKind::EsModule } else { ModuleKind::CommonJs };
    o.include_file_extensions_in_import_statements = (k >> 1) & 1 == 1;
    o.generated_file_header = if (k >> 2) & 1 == 1 { Some("generated; do not edit */ 'x' \"y\"".to_string()) } else { None };
    o.no_babel_transform = (k >> 3) & 1 == 1;
    o.persisted_documents = match (k >> 4) % 3 {
        0 => None,
        1 => Some(PersistedDocuments { file: None, algorithm: HashAlgorithm::Md5, include_extra_info: false }),
        _ => Some(PersistedDocuments { file: None, algorithm: HashAlgorithm::Sha256, include_extra_info: true }),
    };
    o
}

fn gen_arts(r: &mut Rng, i: u64) -> Vec<String> {
    // every 8th case: descriptions and strings from the risky alphabet (comment terminators, quotes)
    let risky = i % 8 == 7;
    let o = GenOpts {
        random_options: false,
        strings: if risky { Alphabet::Risky } else { Alphabet::Punct },
        pct_descriptions: if risky { 80 } else { 40 },
        ..GenOpts::default()
    };
    let mut p = generate(r, &o);
    let keep_root = p.options.project_root.clone();
    let keep_art = p.options.artifact_directory.clone();
    p.options = option_combo(i % 48);
    p.options.project_root = keep_root;
    p.options.artifact_directory = keep_art;
    if r.chance(1, 4) {
        p.options.artifact_directory = Some("generated/out".to_string());
    }
    let w = to_wire(&p);
    vec![format!("artsp\t{w}"), format!("artsi\t{w}")]
}

// ---------------------------------------------------------------------------------------------
// engine `det` (C14)
// ---------------------------------------------------------------------------------------------

/// artifacts with the one line that legitimately names the source file removed
fn strip_resolver_import(a: &BTreeMap<String, Vec<u8>>) -> BTreeMap<String, Vec<u8>> {
    a.iter()
        .map(|(k, v)| {
            let s = String::from_utf8_lossy(v);
            let kept: Vec<&str> = s.split('\n').filter(|l| !(l.starts_with("import { ") && l.contains(" as resolver } from '"))).collect();
            (k.clone(), kept.join("\n").into_bytes())
        })
        .collect()
}

fn first_diff(a: &BTreeMap<String, Vec<u8>>, b: &BTreeMap<String, Vec<u8>>) -> Option<String> {
    for (k, v) in a {
        match b.get(k) {
            None => return Some(format!("missing:{}", k.rsplit('/').next().unwrap())),
            Some(w) if w != v => return Some(format!("bytes:{}", k.rsplit('/').next().unwrap())),
            _ => {}
        }
    }
    for k in b.keys() {
        if !a.contains_key(k) {
            return Some(format!("extra:{}", k.rsplit('/').next().unwrap()));
        }
    }
    None
}

fn run_det(f: &[&str]) -> String {
    let (op, wire, seed) = match f {
        ["det", w, s] => ("det", *w, s.parse::<u64>().unwrap_or(0)),
        ["detdiag", w] => ("detdiag", *w, 0),
        ["detdup", w] => ("detdup", *w, 0),
        ["detep", w] => ("detep", *w, 0),
        _ => return "bad-request".into(),
    };
    let Some(mut p) = from_wire(wire) else { return "bad-wire".into() };
    if op == "detdup" {
        // the same `Type.field` once more, in a second file
        let Some((path, d)) = p.decls.iter().find(|(_, d)| !d.is_entrypoint()).cloned() else { return "no-field".into() };
        let root = p.options.project_root.trim_start_matches("./").trim_end_matches('/').to_string();
        let other = format!("{root}/zz_dup_{}.ts", d.name());
        if other == path {
            return "no-field".into();
        }
        p.decls.push((other, d));
    }
    if op == "detep" {
        // a second declaration of one entrypoint, in another file, with `@lazyLoad` toggled: the compiler
        // reports the conflict at one of the two declarations
        let Some((path, Decl::Entrypoint(e))) = p.decls.iter().find(|(_, d)| d.is_entrypoint()).cloned() else {
            return "no-entrypoint".into();
        };
        let root = p.options.project_root.trim_start_matches("./").trim_end_matches('/').to_string();
        let other = format!("{root}/zz_ep_{}.ts", e.name);
        if other == path {
            return "no-entrypoint".into();
        }
        let mut e2 = e.clone();
        if e2.directives.iter().any(|d| d.name == "lazyLoad") {
            e2.directives.retain(|d| d.name != "lazyLoad");
        } else {
            e2.directives.push(Directive::lazy_load());
        }
        p.decls.push((other, Decl::Entrypoint(e2)));
    }
    let files = render(&p, &RenderOpts::default());
    let runs = if op == "det" { 3 } else { 5 };
    let mut outs: Vec<Cli> = vec![];
    for k in 0..runs {
        match run_cli(&files, k == runs - 1) {
            Ok(c) => outs.push(c),
            Err(e) => return format!("cli-error\t{}", hexs(&e)),
        }
    }
    let c0 = outs[0].class();
    for (k, o) in outs.iter().enumerate().skip(1) {
        if o.class() != c0 {
            return format!("differ:exit-class\trun={k}\t{}\t{}", c0, o.class());
        }
        if let Some(d) = first_diff(&outs[0].artifacts, &o.artifacts) {
            return format!("differ:artifacts:{d}\trun={k}");
        }
        if c0 != "ok" && o.text != outs[0].text {
            let all_multi = outs.iter().all(|o| {
                o.text.contains("Multiple definitions") || o.text.contains("multiple definitions") || o.text.contains("defined multiple")
            });
            let all_lazy = outs.iter().all(|o| o.text.contains("declared lazy in one location"));
            let class = if all_multi {
                "duplicate-definition-location"
            } else if all_lazy {
                "lazy-eager-conflict-location"
            } else {
                "text"
            };
            return format!("differ:diagnostics:{class}\trun={k}");
        }
    }
    let mut variants = runs;
    if op == "det" && c0 == "ok" {
        // regroup the declarations into other files: everything but the resolver import line must stay
        let base = strip_resolver_import(&outs[0].artifacts);
        let art = p.options.artifact_dir();
        for plan in [FilePlan::OnePerDecl, FilePlan::Single("all_in_one.tsx".to_string()), FilePlan::Rename, FilePlan::Shuffle { seed }] {
            let q = apply_file_plan(&p, &plan);
            let o = compile_files(&render(&q, &RenderOpts::default()));
            if !o.result.is_ok() {
                return format!("differ:plan-rejected\t{:?}", plan).replace(' ', "");
            }
            let arts: BTreeMap<String, Vec<u8>> = o.artifacts.into_iter().map(|(k, v)| (format!("{art}/{k}"), v)).collect();
            if let Some(d) = first_diff(&base, &strip_resolver_import(&arts)) {
                return format!("differ:file-plan:{d}\t{:?}", plan).replace(' ', "");
            }
            variants += 1;
        }
    }
    format!("same\t{c0}\tfiles={}\tvariants={variants}", outs[0].artifacts.len())
}

fn gen_det(r: &mut Rng, i: u64) -> Vec<String> {
    let p = generate(r, &GenOpts::default());
    match i % 10 {
        7 | 8 => match mutate_single_fault(r, &p) {
            Some((q, _)) => vec![format!("detdiag\t{}", to_wire(&q))],
            None => vec![format!("det\t{}\t{}", to_wire(&p), r.next() % 1000)],
        },
        9 => vec![format!("{}\t{}", if (i / 10) % 2 == 0 { "detdup" } else { "detep" }, to_wire(&p))],
        _ => vec![format!("det\t{}\t{}", to_wire(&p), r.next() % 1000)],
    }
}

// ---------------------------------------------------------------------------------------------
// engine `crash` (C08)
// ---------------------------------------------------------------------------------------------

fn crash_class(c: &Cli, cyclic: bool) -> String {
    match c.class().as_str() {
        "ok" => {
            if c.artifacts.keys().any(|k| k.ends_with("/iso.ts")) {
                "nopanic".into()
            } else {
                "silent:no-artifacts".into()
            }
        }
        "diagnostics" => {
            if c.text.contains("Error") || c.text.contains("ERROR") || c.text.contains("error") {
                "nopanic".into()
            } else {
                "silent:no-diagnostic".into()
            }
        }
        // `create_config` reports every problem of the configuration file by panicking with a message; the
        // property quantifies over well-formed configurations, so such inputs are outside it
        "panic" if c.text.contains("panicked at crates/isograph_config/") => "config-rejected".into(),
        "panic" => format!("panic:{}", panic_sig(&c.text)),
        "timeout" => "timeout".into(),
        s if s.starts_with("signal:") => {
            if c.text.contains("has overflowed its stack") {
                if cyclic {
                    "cyclic-client-fields-stack-overflow".into()
                } else {
                    "panic:stack-overflow".into()
                }
            } else {
                s.to_string()
            }
        }
        s => format!("abnormal-{s}"),
    }
}

fn stream_opts(stream: &str) -> GenOpts {
    let d = GenOpts::default();
    match stream {
        "cycle" => GenOpts { allow_cycles: true, ..d },
        // `Query.node` always present: its absence is a different panic (stream `lwrsn`)
        "lwrs" => GenOpts { loadable_without_refetch_strategy: true, pct_loadable: 70, pct_node_interface: 100, ..d },
        "lwrsn" => GenOpts { loadable_without_refetch_strategy: true, pct_loadable: 70, pct_node_interface: 0, ..d },
        "ptu" => GenOpts { pointer_to_unfetchable: true, pct_pointer: 60, ..d },
        "lnr" => GenOpts { loadable_with_nested_refetch: true, pct_loadable: 60, pct_special_fields: 40, ..d },
        "vas" => GenOpts { vars_to_client_fields_under_as: true, pct_variable: 80, ..d },
        "xtp" => GenOpts { select_fields_with_cross_type_pointers: true, pct_pointer: 50, ..d },
        "pv" => GenOpts { pointer_variables: true, pct_pointer: 60, pct_variable: 70, ..d },
        "upv" => GenOpts { unparseable_values: true, ..d },
        _ => d,
    }
}

fn demo_file_list(files: &Files) -> Vec<PathBuf> {
    files.keys().cloned().collect()
}

fn apply_byte_mutation(bytes: &mut Vec<u8>, op: &str, off: usize, data: &[u8]) {
    let off = if bytes.is_empty() { 0 } else { off % (bytes.len() + 1) };
    match op {
        "ins" => {
            let tail = bytes.split_off(off);
            bytes.extend_from_slice(data);
            bytes.extend_from_slice(&tail);
        }
        "del" => {
            let n = data.len().max(1).min(bytes.len().saturating_sub(off));
            bytes.drain(off..off + n);
        }
        "rep" => {
            for (k, b) in data.iter().enumerate() {
                if off + k < bytes.len() {
                    bytes[off + k] = *b;
                }
            }
        }
        "dup" => {
            let n = (data.len().max(1) * 8).min(bytes.len().saturating_sub(off));
            let chunk = bytes[off..off + n].to_vec();
            let tail = bytes.split_off(off);
            bytes.extend_from_slice(&chunk);
            bytes.extend_from_slice(&tail);
        }
        "trunc" => bytes.truncate(off),
        _ => {}
    }
}

fn run_crash(f: &[&str]) -> String {
    match f {
        [op @ ("cm" | "co"), stream, wire] => {
            let _ = op;
            let Some(p) = from_wire(wire) else { return "bad-wire".into() };
            let cyclic = has_client_cycle(&p);
            let files = render(&p, &RenderOpts::default());
            let cli = match run_cli(&files, false) {
                Ok(c) => c,
                Err(e) => return format!("cli-error\t{}", hexs(&e)),
            };
            let main = crash_class(&cli, cyclic);
            // in-process, unless a stack overflow would take the harness down
            let inproc = if cyclic || main.contains("stack-overflow") {
                "skipped".to_string()
            } else {
                inproc_class(&compile_files(&files).result)
            };
            let agree = match (cli.class().as_str(), inproc.as_str()) {
                (_, "skipped") => true,
                ("ok", "ok") | ("diagnostics", "diagnostics") => true,
                ("panic", i) => i.starts_with("panic:") && (i == main || main.starts_with("panic:other:")),
                _ => false,
            };
            let main = if agree { main } else { format!("mismatch:cli={}:inproc={}", cli.class(), inproc) };
            format!("{main}\tstream={stream}\tcli={}\tinproc={}\tcyclic={}", cli.class(), inproc, flag(cyclic))
        }
        ["cof", _name, files_hex] => {
            // hand-written witness: a JSON object {relative path: file text}
            let Some(bytes) = unhex(files_hex) else { return "bad-hex".into() };
            let Ok(serde_json::Value::Object(m)) = serde_json::from_slice::<serde_json::Value>(&bytes) else {
                return "bad-json".into();
            };
            let mut files = Files::new();
            for (k, v) in m {
                files.insert(PathBuf::from(k), v.as_str().unwrap_or("").as_bytes().to_vec());
            }
            let cli = match run_cli(&files, false) {
                Ok(c) => c,
                Err(e) => return format!("cli-error\t{}", hexs(&e)),
            };
            // a cycle is recognised by the overflow message only: these inputs have no structured form
            let main = crash_class(&cli, cli.text.contains("has overflowed its stack"));
            format!("{main}\tstream=files\tcli={}", cli.class())
        }
        ["raw", demo, file_idx, op, off, data] => {
            let Some(mut files) = load_demo(demo) else { return "no-demo".into() };
            let list = demo_file_list(&files);
            let idx: usize = file_idx.parse().unwrap_or(0) % list.len();
            let off: usize = off.parse().unwrap_or(0);
            let data = unhex(data).unwrap_or_default();
            let target = list[idx].clone();
            apply_byte_mutation(files.get_mut(&target).unwrap(), op, off, &data);
            let cli = match run_cli(&files, false) {
                Ok(c) => c,
                Err(e) => return format!("cli-error\t{}", hexs(&e)),
            };
            let main = crash_class(&cli, false);
            format!("{main}\tstream=raw\tcli={}\tfile={}", cli.class(), target.to_string_lossy().replace(['\t', ' '], "_"))
        }
        ["watch", wire, seed] => {
            let Some(p) = from_wire(wire) else { return "bad-wire".into() };
            if has_client_cycle(&p) {
                return "skipped-cyclic".into();
            }
            let seed: u64 = seed.parse().unwrap_or(0);
            let mut r = Rng::new(seed, 0);
            let base = render(&p, &RenderOpts::default());
            let mutant = mutate_single_fault(&mut r, &p).map(|(q, _)| render(&q, &RenderOpts::default()));
            let other_layout = render(&apply_file_plan(&p, &FilePlan::Rename), &RenderOpts::default());
            let mut s = Session::new(&base);
            let mut steps: Vec<String> = vec![];
            let mut bad: Option<String> = None;
            let note = |o: &Outcome, steps: &mut Vec<String>, bad: &mut Option<String>| {
                let c = inproc_class(&o.result);
                if c.starts_with("panic") && bad.is_none() {
                    *bad = Some(c.clone());
                }
                if c == "ok" && !o.artifacts.contains_key("iso.ts") && bad.is_none() {
                    *bad = Some("silent:no-artifacts".into());
                }
                steps.push(c);
            };
            let o = s.compile();
            note(&o, &mut steps, &mut bad);
            let mut current = base.clone();
            let mut targets: Vec<&Files> = vec![];
            if let Some(m) = &mutant {
                targets.push(m);
            }
            targets.push(&other_layout);
            targets.push(&base);
            for t in targets {
                if s.state().is_none() {
                    // a panic dropped the state: the real watch loop would have died; stop here
                    break;
                }
                let cfg = PathBuf::from(CONFIG_FILE);
                if t.get(&cfg) != current.get(&cfg) {
                    continue;
                }
                let mut events = vec![];
                for (k, v) in t.iter() {
                    if current.get(k) != Some(v) {
                        events.push((SourceEventKind::CreateOrModify(s.dir().join(k)), kind_of(k)));
                    }
                }
                for k in current.keys() {
                    if !t.contains_key(k) {
                        events.push((SourceEventKind::Remove(s.dir().join(k)), kind_of(k)));
                    }
                }
                s.replace_sources(t);
                match s.update_sources(&events) {
                    Ok(()) => {}
                    Err(msgs) => {
                        let m = msgs.join(" | ");
                        if m.starts_with("panic:") {
                            bad.get_or_insert(format!("panic:{}", panic_sig(&m)));
                        }
                        steps.push("update-error".into());
                    }
                }
                current = t.clone();
                if s.state().is_none() {
                    break;
                }
                let o = s.compile();
                note(&o, &mut steps, &mut bad);
            }
            format!("{}\tstream=watch\tsteps={}", bad.unwrap_or_else(|| "nopanic".into()), steps.join(","))
        }
        _ => "bad-request".into(),
    }
}

fn kind_of(k: &Path) -> ChangedFileKind {
    let s = k.to_string_lossy();
    if s == SCHEMA_FILE {
        ChangedFileKind::Schema
    } else if s == SCHEMA_EXTENSION_FILE {
        ChangedFileKind::SchemaExtension
    } else {
        ChangedFileKind::JavaScriptSourceFile
    }
}

const RAW_SNIPPETS: &[&str] = &[
    "{", "}", "(", ")", "`", "\"", "\"\"\"", "@", "$", ":", "!", ".", ",", "\n", " ", "\\", "'", "[", "]", "=", "#", "|", "&",
    "99999999999999999999", "-", "0", "field ", "entrypoint ", "pointer ", "iso(`", "`)", "type ", "extend type ", "@loadable",
    "@component", "@updatable", "@exposeField(field: \"", "interface ", "union ", "implements ", "null", "true", "é", "😀", "\u{1}",
    "\u{feff}", "\u{2028}", "\0", "id", "ID", "__typename", "__link", "__refetch", "asUser", "node", "Query", "Mutation",
];

fn gen_crash(r: &mut Rng, i: u64) -> Vec<String> {
    // HX_STREAM=<name>: only that generated-project stream (used when exploring one defect switch)
    if let Ok(s) = std::env::var("HX_STREAM") {
        let p = generate(r, &stream_opts(&s));
        let op = if matches!(s.as_str(), "valid" | "cycle" | "lwrs") { "cm" } else { "co" };
        return vec![format!("{op}\t{s}\t{}", to_wire(&p))];
    }
    // the share of each stream is fixed by the index so that every run covers all of them
    match i % 20 {
        0..=4 => {
            let p = generate(r, &GenOpts::default());
            vec![format!("cm\tvalid\t{}", to_wire(&p))]
        }
        5 | 6 => {
            let p = generate(r, &stream_opts("cycle"));
            vec![format!("cm\tcycle\t{}", to_wire(&p))]
        }
        7 => {
            let p = generate(r, &stream_opts("lwrs"));
            vec![format!("cm\tlwrs\t{}", to_wire(&p))]
        }
        8 => {
            let p = generate(r, &stream_opts("ptu"));
            vec![format!("co\tptu\t{}", to_wire(&p))]
        }
        9 | 10 => {
            let s = *r.pick(&["lnr", "vas", "xtp", "pv", "upv", "lwrsn"]);
            let p = generate(r, &stream_opts(s));
            vec![format!("co\t{s}\t{}", to_wire(&p))]
        }
        11..=13 => {
            let p = generate(r, &GenOpts::default());
            match mutate_single_fault(r, &p) {
                Some((q, _)) => vec![format!("co\tmutant\t{}", to_wire(&q))],
                None => vec![format!("cm\tvalid\t{}", to_wire(&p))],
            }
        }
        14 | 15 => {
            let p = generate(r, &GenOpts::default());
            vec![format!("watch\t{}\t{}", to_wire(&p), r.next() % 100000)]
        }
        _ => {
            let demo = *r.pick(&["pet-demo", "vite-demo", "github-demo"]);
            let file_idx = if r.chance(1, 3) { r.below(3) } else { r.below(400) };
            let op = *r.pick(&["ins", "ins", "ins", "del", "rep", "dup", "trunc"]);
            let off = r.below(60000);
            let data = if r.chance(3, 4) { r.pick(RAW_SNIPPETS).as_bytes().to_vec() } else { (0..r.range(1, 4)).map(|_| r.below(256) as u8).collect() };
            vec![format!("raw\t{demo}\t{file_idx}\t{op}\t{off}\t{}", hex(&data))]
        }
    }
}

// ---------------------------------------------------------------------------------------------

fn main() {
    let engine = std::env::var("HX_ENGINE").unwrap_or_else(|_| "arts".to_string());
    let gen: Box<dyn Fn(&mut Rng, u64) -> Vec<String>> = match engine.as_str() {
        "overloads" => Box::new(gen_overloads),
        "holes" => Box::new(gen_holes),
        "arts" => Box::new(gen_arts),
        "det" => Box::new(gen_det),
        "crash" => Box::new(gen_crash),
        e => {
            eprintln!("unknown HX_ENGINE {e}");
            std::process::exit(2);
        }
    };
    let mut run = move |f: &[&str]| -> String {
        let r = std::panic::catch_unwind(std::panic::AssertUnwindSafe(|| match f.first().copied().unwrap_or("") {
            "ovl" | "ovlnc" | "ovlws" => run_overloads(f),
            "hole" => run_holes(f),
            "artsp" | "artsi" | "artsdemop" | "artsdemoi" => run_arts(f),
            "det" | "detdiag" | "detdup" | "detep" => run_det(f),
            "cm" | "co" | "cof" | "raw" | "watch" => run_crash(f),
            // debugging aid: write the rendered project below /tmp/arts/<name>
            "dump" if f.len() == 3 => match from_wire(f[2]) {
                Some(p) => {
                    let dir = PathBuf::from("/tmp/arts").join(f[1].replace(['/', '.'], "_"));
                    let _ = std::fs::remove_dir_all(&dir);
                    materialise(&dir, &render(&p, &RenderOpts::default()));
                    format!("dumped\t{}", dir.display())
                }
                None => "bad-wire".to_string(),
            },
            _ => "bad-request".to_string(),
        }));
        r.unwrap_or_else(|_| "panic".to_string())
    };
    main_loop(&*gen, &mut run);
}
