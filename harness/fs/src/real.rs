//! Engine `fs.real`: the REAL `batch_compile::compile` on generated projects (through
//! `hx_projgen::compile::Session`, one live `CompilerState` per session), with source changes pushed
//! through the watch-mode `update_sources`, injected faults at operation k of the real
//! `apply_file_system_operations`, and process restarts.  The artifact list the compiler generated
//! for each compile is read back with the public `get_artifact_path_and_content(db)` and handed to
//! the Lean side, which replays the session in the model.
//!
//!   fs.real  projseed  token…      token = `V<j>` (switch the sources to variant j of the project)
//!                                        | `F<k>` (arm a fault at operation k of the next compile)
//!                                        | `N` (new process) | `C` (compile)
//!   answer: per `N`:  `new`;  per `V`:  `V:ok` | `V:reset` (config changed / fatal update error: new CompilerState)
//!           per `C`:  `A:<ArtSet>` | `A:none` (validation reported diagnostics) | `A:unknown`
//!                     then  ok:<n>:<Tree> | err:injected | err:io | diag:<same|changed>:<S|N><S|N>
//!                           | init-error | panic
use crate::{enc_arts, snapshot, Art};
use artifact_content::get_artifact_path_and_content;
use hx_common::Rng;
use hx_projgen::compile::{CompileResult, Files, Session};
use hx_projgen::gen::{generate, Alphabet, GenOpts};
use hx_projgen::model::{Project, CONFIG_FILE, SCHEMA_EXTENSION_FILE, SCHEMA_FILE};
use hx_projgen::mutate::mutate_single_fault;
use hx_projgen::render::{render, RenderOpts};
use isograph_compiler::verif;
use isograph_compiler::watch::{ChangedFileKind, SourceEventKind, SourceFileEvent};
use std::panic::{catch_unwind, AssertUnwindSafe};
use std::path::PathBuf;

fn opts() -> GenOpts {
    GenOpts {
        max_types: 3,
        max_fields: 3,
        max_decls: 4,
        max_depth: 2,
        max_selections: 3,
        negative_ints: false,
        pct_var_in_object: 0,
        strings: Alphabet::Word,
        pct_empty_selection_set: 0,
        random_options: false,
        ..GenOpts::default()
    }
}

/// Variant j of the project family of `seed`: 0 the base project; j ≡ 1 (mod 3) a single-fault
/// mutant of the base (invalid); j ≡ 2 the base with some declarations dropped (possibly all: the
/// "no client field" shape, possibly invalid when a dropped field is still selected); j ≡ 0 another
/// generated project.
pub fn variant(seed: u64, j: u64) -> Project {
    let base = generate(&mut Rng::new(seed, 0), &opts());
    if j == 0 {
        return base;
    }
    let mut r = Rng::new(seed, j);
    match j % 3 {
        1 => mutate_single_fault(&mut r, &base).map(|x| x.0).unwrap_or(base),
        2 => {
            let mut p = base;
            if r.chance(1, 3) {
                p.decls.clear();
            } else {
                let n = p.decls.len();
                for _ in 0..r.range(1, 2) {
                    if !p.decls.is_empty() {
                        let i = r.below(p.decls.len());
                        p.decls.remove(i);
                    }
                }
                let _ = n;
            }
            p
        }
        _ => generate(&mut r, &opts()),
    }
}

fn is_source(rel: &str) -> bool {
    [".ts", ".tsx", ".js", ".jsx"].iter().any(|e| rel.ends_with(e))
}

/// Replace the sources on disk and tell the live state what changed, the way the watch loop does.
fn switch_sources(session: &mut Session, old: &Files, new: &Files) -> &'static str {
    session.replace_sources(new);
    if session.state().is_none() {
        return "V:ok";
    }
    if old.get(&PathBuf::from(CONFIG_FILE)) != new.get(&PathBuf::from(CONFIG_FILE)) {
        // watch mode: "Config change detected. Starting a full compilation." = a new CompilerState
        session.reset_state();
        return "V:reset";
    }
    let mut events: Vec<SourceFileEvent> = vec![];
    let mut push = |rel: &PathBuf, removed: bool| {
        let rels = rel.to_string_lossy().to_string();
        let kind = if rels == SCHEMA_FILE {
            ChangedFileKind::Schema
        } else if rels == SCHEMA_EXTENSION_FILE {
            ChangedFileKind::SchemaExtension
        } else if is_source(&rels) {
            ChangedFileKind::JavaScriptSourceFile
        } else {
            return;
        };
        let abs = session.dir().join(rel);
        events.push((
            if removed { SourceEventKind::Remove(abs) } else { SourceEventKind::CreateOrModify(abs) },
            kind,
        ));
    };
    for (rel, bytes) in new {
        if old.get(rel) != Some(bytes) {
            push(rel, false);
        }
    }
    for rel in old.keys() {
        if !new.contains_key(rel) {
            push(rel, true);
        }
    }
    match session.update_sources(&events) {
        Ok(()) => "V:ok",
        Err(_) => {
            // the real watch loop exits on this error; whatever runs next is a new process
            session.reset_state();
            "V:reset"
        }
    }
}

fn real_arts(session: &Session) -> String {
    let Some(state) = session.state() else { return "A:unknown".into() };
    match catch_unwind(AssertUnwindSafe(|| get_artifact_path_and_content(&state.db))) {
        Err(_) => "A:unknown".into(),
        Ok(Err(_)) => "A:none".into(),
        Ok(Ok((arts, _))) => {
            let v: Vec<Art> = arts
                .iter()
                .map(|a| Art {
                    nested: a.artifact_path.type_and_field.as_ref().map(|t| {
                        (t.parent_entity_name.to_string(), t.selectable_name.to_string())
                    }),
                    file: a.artifact_path.file_name.to_string(),
                    content: a.file_content.0.clone(),
                })
                .collect();
            format!("A:{}", enc_arts(&v))
        }
    }
}

pub fn run_real(f: &[&str]) -> Option<String> {
    let seed: u64 = f[1].parse().ok()?;
    let render_opts = RenderOpts::default();
    let mut files = render(&variant(seed, 0), &render_opts);
    let mut session = Session::new(&files);
    let mut fault: Option<usize> = None;
    let mut out: Vec<String> = vec![];
    for tok in &f[2..] {
        if *tok == "N" {
            session.reset_state();
            out.push("new".to_string());
        } else if let Some(k) = tok.strip_prefix('F') {
            fault = Some(k.parse().ok()?);
        } else if let Some(j) = tok.strip_prefix('V') {
            let new = render(&variant(seed, j.parse().ok()?), &render_opts);
            out.push(switch_sources(&mut session, &files, &new).to_string());
            files = new;
        } else if *tok == "C" {
            let art_dir = session
                .artifact_dir()
                .map(|p| p.to_path_buf())
                .unwrap_or_else(|| session.dir().join(hx_projgen::model::Options::default().artifact_dir()));
            if session.state().is_none() {
                // a new process: `create_config` (start-up, before any compile) creates the artifact
                // directory; `Session` does that lazily inside `compile()`, so do it here to keep the
                // start-up effect out of the before/after comparison of the compile itself
                let _ = std::fs::create_dir_all(&art_dir);
            }
            let before = snapshot(&art_dir);
            let sb = session.state().map(|s| s.file_system_state.is_some()).unwrap_or(false);
            verif::arm_fault(fault);
            let outcome = session.compile();
            let fired = fault.is_some() && !verif::fault_armed();
            verif::arm_fault(None);
            fault = None;
            let after = snapshot(&art_dir);
            let sa = session.state().map(|s| s.file_system_state.is_some()).unwrap_or(false);
            let flag = |b: bool| if b { "S" } else { "N" };
            let res = match &outcome.result {
                CompileResult::Ok(stats) => format!("ok:{}:{}", stats.total_artifacts_written, after),
                CompileResult::Panic(_) => "panic".to_string(),
                CompileResult::Diagnostics(ds) => {
                    if session.state().is_none() {
                        "init-error".to_string()
                    } else if ds.iter().any(|d| d.message.contains("verif: injected I/O fault")) && fired {
                        "err:injected".to_string()
                    } else if ds.iter().any(|d| d.message.starts_with("Unable to ")) {
                        "err:io".to_string()
                    } else {
                        format!("diag:{}:{}{}", if before == after { "same" } else { "changed" }, flag(sb), flag(sa))
                    }
                }
            };
            out.push(real_arts(&session));
            out.push(res);
        } else {
            return None;
        }
    }
    Some(out.join("\t"))
}

/// C17-shaped, C18-shaped and C19-shaped sessions of the real compiler.
pub fn gen_real(r: &mut Rng, flavour: &str) -> Vec<String> {
    let seed = r.next() % 1_000_000;
    let mut toks: Vec<String> = vec![];
    let valid = |r: &mut Rng| -> String {
        match r.below(4) {
            0 => "V0".to_string(),
            1 => format!("V{}", 3 * r.range(1, 3)),
            _ => format!("V{}", 3 * r.range(0, 3) + 2),
        }
    };
    let invalid = |r: &mut Rng| -> String { format!("V{}", 3 * r.range(0, 5) + 1) };
    if r.chance(1, 3) {
        toks.push(valid(r));
    }
    toks.push("C".into());
    match flavour {
        "c17" => {
            for _ in 0..r.range(1, 3) {
                if r.chance(1, 4) {
                    toks.push("N".into());
                }
                toks.push(invalid(r));
                toks.push("C".into());
                if r.chance(1, 2) {
                    toks.push(valid(r));
                    toks.push("C".into());
                }
            }
        }
        "c19" => {
            for _ in 0..r.range(1, 2) {
                // make the faulted compile plan something: new sources or a new process
                if r.chance(2, 3) {
                    toks.push(valid(r));
                } else {
                    toks.push("N".into());
                }
                let k = if r.chance(3, 5) { r.below(3) } else { r.below(12) };
                toks.push(format!("F{}", k));
                toks.push("C".into());
                match r.below(4) {
                    0 => toks.push("N".into()),
                    1 => {
                        toks.push(invalid(r));
                        toks.push("C".into());
                        toks.push(valid(r));
                    }
                    2 => toks.push(valid(r)),
                    _ => {}
                }
                toks.push("C".into());
            }
        }
        _ => {
            for _ in 0..r.range(1, 4) {
                match r.below(6) {
                    0 => toks.push("N".into()),
                    1 => {}
                    _ => toks.push(valid(r)),
                }
                toks.push("C".into());
            }
        }
    }
    vec![format!("fs.real\t{}\t{}", seed, toks.join("\t"))]
}
