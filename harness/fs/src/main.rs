//! Engine family `fs` (C17, C18, C19): the artifact planner (`FileSystemState::{from, recreate_all,
//! diff}`), the writer (`apply_file_system_operations`, run in a scratch directory under
//! /tmp/hx_fs_<pid>/) and `compile`'s glue between them, against the real crates.
//!
//! Encodings (one request per line, tab separated fields):
//!   ArtSet     `-` | item{,item}          item  = `path=hex(content)`, path = `f` | `e/s/f`
//!   OptArtSet  `none` | ArtSet
//!   Tree       `absent` | `@=hex` | entry{,entry}   entry = `./` | `rel/` | `rel=hex`   (sorted)
//!   Ops        `-` | op{,op}              op    = `D:p` | `C:p` | `W:p:idx` | `X:p`, p = `.` | rel
//! Requests:
//!   fs.plan    old:OptArtSet  new:ArtSet                       => canonical-ops  raw-ops
//!   fs.apply   init:Tree  arts:ArtSet  ops:Ops  fault  judge   => ok:<n>|err:injected|err:io|panic  Tree
//!   fs.session init:Tree  step…   (step = `c|ArtSet|fault`, `v`, `n`)
//!                                  => per step  ok:<n>:<Tree> | err:injected | err:io | panic | diag:<same|changed>:<S|N><S|N>
use artifact_content::FileSystemState;
use common_lang_types::{
    ArtifactPath, ArtifactPathAndContent, EntityNameAndSelectableName, FileSystemOperation,
};
use hx_common::*;
use intern::string_key::Intern;
use isograph_compiler::verif;
use std::cell::Cell;
use std::fs;
use std::panic::{catch_unwind, AssertUnwindSafe};
use std::path::{Path, PathBuf};

mod real;

// ------------------------------------------------------------------------------------------------
// artifacts

#[derive(Clone, Debug, PartialEq)]
struct Art {
    nested: Option<(String, String)>,
    file: String,
    content: String,
}

impl Art {
    fn path(&self) -> String {
        match &self.nested {
            Some((e, s)) => format!("{}/{}/{}", e, s, self.file),
            None => self.file.clone(),
        }
    }
}

fn enc_arts(arts: &[Art]) -> String {
    if arts.is_empty() {
        return "-".into();
    }
    arts.iter()
        .map(|a| format!("{}={}", a.path(), hex(a.content.as_bytes())))
        .collect::<Vec<_>>()
        .join(",")
}

fn dec_arts(s: &str) -> Option<Vec<Art>> {
    if s == "-" {
        return Some(vec![]);
    }
    let mut out = vec![];
    for item in s.split(',') {
        let (p, h) = item.split_once('=')?;
        let content = String::from_utf8(unhex(h)?).ok()?;
        let comps: Vec<&str> = p.split('/').collect();
        match comps.as_slice() {
            [f] => out.push(Art { nested: None, file: f.to_string(), content }),
            [e, sel, f] => out.push(Art {
                nested: Some((e.to_string(), sel.to_string())),
                file: f.to_string(),
                content,
            }),
            _ => return None,
        }
    }
    Some(out)
}

fn to_real(arts: &[Art]) -> Vec<ArtifactPathAndContent> {
    arts.iter()
        .map(|a| ArtifactPathAndContent {
            artifact_path: ArtifactPath {
                type_and_field: a.nested.as_ref().map(|(e, s)| EntityNameAndSelectableName {
                    parent_entity_name: e.as_str().intern().into(),
                    selectable_name: s.as_str().intern().into(),
                }),
                file_name: a.file.as_str().intern().into(),
            },
            file_content: a.content.clone().into(),
        })
        .collect()
}

/// The tree a list of artifacts denotes (last artifact of a path wins).
fn expected_tree(arts: &[Art]) -> String {
    let mut v: Vec<String> = vec!["./".into()];
    for (i, a) in arts.iter().enumerate() {
        if arts[i + 1..].iter().any(|b| b.path() == a.path()) {
            continue;
        }
        if let Some((e, s)) = &a.nested {
            v.push(format!("{}/", e));
            v.push(format!("{}/{}/", e, s));
        }
        v.push(format!("{}={}", a.path(), hex(a.content.as_bytes())));
    }
    v.sort();
    v.dedup();
    v.join(",")
}

// ------------------------------------------------------------------------------------------------
// operations

const ART_DIR_NAME: &str = "__isograph";

fn rel(p: &Path, art_dir: &Path) -> String {
    match p.strip_prefix(art_dir) {
        Ok(r) if r.as_os_str().is_empty() => ".".into(),
        Ok(r) => r.to_string_lossy().replace('\\', "/"),
        Err(_) => "!outside".into(),
    }
}

fn enc_op(op: &FileSystemOperation, art_dir: &Path) -> String {
    match op {
        FileSystemOperation::DeleteDirectory(p) => format!("D:{}", rel(p, art_dir)),
        FileSystemOperation::CreateDirectory(p) => format!("C:{}", rel(p, art_dir)),
        FileSystemOperation::WriteFile(p, i) => format!("W:{}:{}", rel(p, art_dir), i.idx),
        FileSystemOperation::DeleteFile(p) => format!("X:{}", rel(p, art_dir)),
    }
}

fn enc_ops(ops: &[FileSystemOperation], art_dir: &Path) -> Vec<String> {
    ops.iter().map(|o| enc_op(o, art_dir)).collect()
}

fn join_or_dash(v: &[String]) -> String {
    if v.is_empty() { "-".into() } else { v.join(",") }
}

fn abs(p: &str, art_dir: &Path) -> PathBuf {
    if p == "." { art_dir.to_path_buf() } else { art_dir.join(p) }
}

fn dec_ops(s: &str, art_dir: &Path) -> Option<Vec<FileSystemOperation>> {
    if s == "-" {
        return Some(vec![]);
    }
    let mut out = vec![];
    for item in s.split(',') {
        let parts: Vec<&str> = item.split(':').collect();
        match parts.as_slice() {
            ["D", p] => out.push(FileSystemOperation::DeleteDirectory(abs(p, art_dir))),
            ["C", p] => out.push(FileSystemOperation::CreateDirectory(abs(p, art_dir))),
            ["X", p] => out.push(FileSystemOperation::DeleteFile(abs(p, art_dir))),
            ["W", p, i] => out.push(FileSystemOperation::WriteFile(
                abs(p, art_dir),
                pico::Index::new(i.parse().ok()?),
            )),
            _ => return None,
        }
    }
    Some(out)
}

/// The real planner on (old, new): `recreate_all` for a fresh session, `diff` otherwise.
fn plan(old: Option<&[Art]>, new: &[Art], art_dir: &Path) -> Vec<FileSystemOperation> {
    let new_real = to_real(new);
    let new_state = FileSystemState::from(&new_real[..]);
    match old {
        None => FileSystemState::recreate_all(&new_state, art_dir),
        Some(old) => {
            let old_real = to_real(old);
            let old_state = FileSystemState::from(&old_real[..]);
            FileSystemState::diff(&old_state, &new_state, art_dir)
        }
    }
}

// ------------------------------------------------------------------------------------------------
// scratch directories

thread_local! { static CASE_NO: Cell<u64> = const { Cell::new(0) }; }

fn base_dir() -> PathBuf {
    PathBuf::from(format!("/tmp/hx_fs_{}", std::process::id()))
}

struct Scratch {
    dir: PathBuf,
}

impl Scratch {
    fn new() -> Scratch {
        let n = CASE_NO.with(|c| {
            c.set(c.get() + 1);
            c.get()
        });
        let dir = base_dir().join(n.to_string());
        let _ = fs::remove_dir_all(&dir);
        fs::create_dir_all(&dir).expect("scratch dir");
        Scratch { dir }
    }
    fn art_dir(&self) -> PathBuf {
        self.dir.join(ART_DIR_NAME)
    }
}

impl Drop for Scratch {
    fn drop(&mut self) {
        let _ = fs::remove_dir_all(&self.dir);
    }
}

fn build_tree(root: &Path, spec: &str) -> Option<()> {
    if spec == "absent" {
        return Some(());
    }
    if let Some(h) = spec.strip_prefix("@=") {
        return fs::write(root, unhex(h)?).ok();
    }
    let mut entries: Vec<&str> = spec.split(',').collect();
    entries.sort();
    if !entries.contains(&"./") {
        return None;
    }
    for e in entries {
        if e == "./" {
            fs::create_dir(root).ok()?;
        } else if let Some(d) = e.strip_suffix('/') {
            fs::create_dir(root.join(d)).ok()?;
        } else {
            let (p, h) = e.split_once('=')?;
            let path = root.join(p);
            if path.exists() {
                return None;
            }
            fs::write(path, unhex(h)?).ok()?;
        }
    }
    Some(())
}

fn walk(dir: &Path, prefix: &str, out: &mut Vec<String>) {
    if let Ok(rd) = fs::read_dir(dir) {
        for entry in rd.flatten() {
            let name = entry.file_name().to_string_lossy().to_string();
            let relp = if prefix.is_empty() { name } else { format!("{}/{}", prefix, name) };
            let p = entry.path();
            match fs::symlink_metadata(&p) {
                Ok(m) if m.is_dir() => {
                    out.push(format!("{}/", relp));
                    walk(&p, &relp, out);
                }
                Ok(m) if m.is_file() => {
                    out.push(format!("{}={}", relp, hex(&fs::read(&p).unwrap_or_default())))
                }
                _ => out.push(format!("{}=?", relp)),
            }
        }
    }
}

fn snapshot(root: &Path) -> String {
    match fs::symlink_metadata(root) {
        Err(_) => "absent".into(),
        Ok(m) if m.is_file() => format!("@={}", hex(&fs::read(root).unwrap_or_default())),
        Ok(m) if m.is_dir() => {
            let mut v = vec!["./".to_string()];
            walk(root, "", &mut v);
            v.sort();
            v.join(",")
        }
        Ok(_) => "other".into(),
    }
}

// ------------------------------------------------------------------------------------------------
// run

fn dec_fault(s: &str) -> Option<Option<usize>> {
    if s == "-" { Some(None) } else { s.parse().ok().map(Some) }
}

enum Applied {
    Ok(usize),
    ErrInjected,
    ErrIo,
    Panic,
}

/// The real `apply_file_system_operations` with the fault counter armed at `fault`.
fn apply_real(
    ops: &[FileSystemOperation],
    arts: &[ArtifactPathAndContent],
    fault: Option<usize>,
) -> Applied {
    verif::arm_fault(fault);
    let res = catch_unwind(AssertUnwindSafe(|| verif::apply_file_system_operations(ops, arts)));
    let fired = fault.is_some() && !verif::fault_armed();
    verif::arm_fault(None);
    match res {
        Ok(Ok(n)) => Applied::Ok(n),
        Ok(Err(_)) if fired => Applied::ErrInjected,
        Ok(Err(_)) => Applied::ErrIo,
        Err(_) => Applied::Panic,
    }
}

fn run_plan(f: &[&str]) -> Option<String> {
    let old = if f[1] == "none" { None } else { Some(dec_arts(f[1])?) };
    let new = dec_arts(f[2])?;
    let art_dir = PathBuf::from("/nonexistent/hx_fs").join(ART_DIR_NAME);
    let ops = plan(old.as_deref(), &new, &art_dir);
    let raw = enc_ops(&ops, &art_dir);
    let mut canon = raw.clone();
    canon.sort();
    Some(format!("{}\t{}", join_or_dash(&canon), join_or_dash(&raw)))
}

fn run_apply(f: &[&str]) -> Option<String> {
    let sc = Scratch::new();
    let art_dir = sc.art_dir();
    let arts = dec_arts(f[2])?;
    let ops = dec_ops(f[3], &art_dir)?;
    let fault = dec_fault(f[4])?;
    if build_tree(&art_dir, f[1]).is_none() {
        return Some("badinit".into());
    }
    let real = to_real(&arts);
    let head = match apply_real(&ops, &real, fault) {
        Applied::Ok(n) => format!("ok:{}", n),
        Applied::ErrInjected => "err:injected".into(),
        Applied::ErrIo => "err:io".into(),
        Applied::Panic => "panic".into(),
    };
    Some(format!("{}\t{}", head, snapshot(&art_dir)))
}

/// Does `compile` drop the in-memory state when applying fails?  The glue between planning and
/// applying lives inside `compile` (generic over the whole compiler database), so the session
/// engine re-states it here; which variant the current source has is read by the translator t_fs
/// (shape pin) and handed over in HX_FS_RESET.
fn reset_on_io_error() -> bool {
    std::env::var("HX_FS_RESET").map(|v| v == "1").unwrap_or(false)
}

fn run_session(f: &[&str]) -> Option<String> {
    let sc = Scratch::new();
    let art_dir = sc.art_dir();
    if build_tree(&art_dir, f[1]).is_none() {
        return Some("badinit".into());
    }
    let mut state: Option<FileSystemState> = None;
    let mut out: Vec<String> = vec![];
    for step in &f[2..] {
        if *step == "n" {
            state = None;
            out.push("new".into());
            continue;
        }
        if *step == "v" {
            // `let (artifacts, stats) = get_artifact_path_and_content(db)?;` returned the diagnostics
            let before = snapshot(&art_dir);
            let sb = state.is_some();
            let after = snapshot(&art_dir);
            let sa = state.is_some();
            let flag = |b: bool| if b { "S" } else { "N" };
            out.push(format!(
                "diag:{}:{}{}",
                if before == after { "same" } else { "changed" },
                flag(sb),
                flag(sa)
            ));
            continue;
        }
        let parts: Vec<&str> = step.split('|').collect();
        if parts.len() != 3 || parts[0] != "c" {
            return None;
        }
        let arts = dec_arts(parts[1])?;
        let fault = dec_fault(parts[2])?;
        let real = to_real(&arts);
        // the body of `compile` after validation succeeded
        let ops = verif::get_file_system_operations(&real, &art_dir, &mut state);
        match apply_real(&ops, &real, fault) {
            Applied::Ok(n) => out.push(format!("ok:{}:{}", n, snapshot(&art_dir))),
            Applied::ErrInjected => {
                if reset_on_io_error() {
                    state = None;
                }
                out.push("err:injected".into())
            }
            Applied::ErrIo => {
                if reset_on_io_error() {
                    state = None;
                }
                out.push("err:io".into())
            }
            Applied::Panic => {
                state = None; // the process is gone
                out.push("panic".into())
            }
        }
    }
    Some(out.join("\t"))
}

fn run(f: &[&str]) -> String {
    let r = catch_unwind(AssertUnwindSafe(|| match (f[0], f.len()) {
        ("fs.plan", 3) => run_plan(f),
        ("fs.apply", 6) => run_apply(f),
        ("fs.session", n) if n >= 2 => run_session(f),
        ("fs.real", n) if n >= 2 => real::run_real(f),
        _ => None,
    }));
    match r {
        Ok(Some(s)) => s,
        Ok(None) => "bad-request".into(),
        Err(_) => "panic".into(),
    }
}

// ------------------------------------------------------------------------------------------------
// generators

const ENTITIES: &[&str] = &["User", "Query", "Pet", "Mutation"];
const SELECTABLES: &[&str] = &["name", "Home", "avatar", "x"];
const NESTED_FILES: &[&str] =
    &["entrypoint.ts", "resolver_reader.ts", "param_type.ts", "output_type.ts", "query_text.ts"];
const ROOT_FILES: &[&str] = &["iso.ts", "tsconfig.json", "persisted_documents.json"];
const CONTENTS: &[&str] = &["", "a", "b", "a", "export default 1;\n", "caf\u{e9} \u{2192} \u{1F600}", "{}"];

fn gen_content(r: &mut Rng) -> String {
    if r.chance(1, 6) {
        gen_text(r, 8, MIXED_ALPHABET)
    } else {
        r.pick(CONTENTS).to_string()
    }
}

fn gen_nested(r: &mut Rng, ne: usize, ns: usize) -> Art {
    Art {
        nested: Some((ENTITIES[r.below(ne)].to_string(), SELECTABLES[r.below(ns)].to_string())),
        file: r.pick(NESTED_FILES).to_string(),
        content: gen_content(r),
    }
}

fn gen_root(r: &mut Rng, insane: bool) -> Art {
    // `insane`: a root file named like an entity (outside the name-sanity hypothesis)
    let file = if insane { r.pick(ENTITIES).to_string() } else { r.pick(ROOT_FILES).to_string() };
    Art { nested: None, file, content: gen_content(r) }
}

/// shape: 0 empty, 1 root files only (no nested file: the F8 shape), 2 nested only, 3/4 mixed,
/// 5 mixed with duplicates, 6 insane names
fn gen_arts_shape(r: &mut Rng, shape: usize) -> Vec<Art> {
    let mut v = vec![];
    let ne = r.range(1, ENTITIES.len());
    let ns = r.range(1, SELECTABLES.len());
    match shape {
        0 => {}
        1 => {
            for _ in 0..r.range(1, 3) {
                v.push(gen_root(r, false));
            }
        }
        2 => {
            for _ in 0..r.range(1, 7) {
                v.push(gen_nested(r, ne, ns));
            }
        }
        3 | 4 | 5 => {
            for _ in 0..r.range(1, 8) {
                if r.chance(1, 4) {
                    v.push(gen_root(r, false));
                } else {
                    v.push(gen_nested(r, ne, ns));
                }
            }
            if shape == 5 && !v.is_empty() {
                for _ in 0..r.range(1, 2) {
                    let mut d = r.pick(&v).clone();
                    if r.chance(1, 2) {
                        d.content = gen_content(r);
                    }
                    let at = r.below(v.len() + 1);
                    v.insert(at, d);
                }
            }
        }
        _ => {
            for _ in 0..r.range(1, 5) {
                if r.chance(1, 2) {
                    v.push(gen_root(r, true));
                } else {
                    v.push(gen_nested(r, ne, ns));
                }
            }
        }
    }
    v
}

fn gen_arts(r: &mut Rng) -> Vec<Art> {
    let shape = match r.below(40) {
        0..=2 => 0,
        3..=8 => 1,
        9..=14 => 2,
        15..=32 => 3,
        33..=38 => 5,
        _ => 6,
    };
    gen_arts_shape(r, shape)
}

/// One to three edits of an artifact list, the kinds the property names: content change, file
/// added / removed, selectable added / removed, entity added / removed, re-ordering.
fn mutate_arts(r: &mut Rng, arts: &[Art]) -> Vec<Art> {
    let mut v = arts.to_vec();
    for _ in 0..r.range(1, 3) {
        match r.below(10) {
            0 if !v.is_empty() => {
                let i = r.below(v.len());
                v[i].content = gen_content(r);
            }
            1 if !v.is_empty() => {
                let i = r.below(v.len());
                v.remove(i);
            }
            2 => v.push(gen_nested(r, ENTITIES.len(), SELECTABLES.len())),
            3 => v.push(gen_root(r, false)),
            4 if !v.is_empty() => {
                // remove an entity
                if let Some((e, _)) = r.pick(&v).nested.clone() {
                    v.retain(|a| a.nested.as_ref().map(|n| n.0 != e).unwrap_or(true));
                }
            }
            5 if !v.is_empty() => {
                // remove a selectable
                if let Some(n) = r.pick(&v).nested.clone() {
                    v.retain(|a| a.nested.as_ref() != Some(&n));
                }
            }
            6 if !v.is_empty() => {
                // add a file next to an existing one
                if let Some(n) = r.pick(&v).nested.clone() {
                    v.push(Art { nested: Some(n), file: r.pick(NESTED_FILES).to_string(), content: gen_content(r) });
                }
            }
            7 => {
                // remove every root file / every nested file
                if r.chance(1, 2) {
                    v.retain(|a| a.nested.is_some());
                } else {
                    v.retain(|a| a.nested.is_none());
                }
            }
            8 if v.len() > 1 => {
                let i = r.below(v.len());
                let j = r.below(v.len());
                v.swap(i, j);
            }
            _ => {}
        }
    }
    v
}

/// Initial directory contents: nothing, an empty directory, stale files and directories, a file
/// where a directory is expected and the other way round, the tree of another artifact set, or
/// (rarely) a plain file in place of the artifact directory.
fn gen_tree(r: &mut Rng, hint: &[Art]) -> String {
    match r.below(16) {
        0 | 1 => "absent".into(),
        2 | 3 => "./".into(),
        4..=6 => {
            let mut v: Vec<String> = vec!["./".into()];
            for _ in 0..r.range(1, 4) {
                match r.below(4) {
                    0 => v.push(format!("stale{}.ts={}", r.below(3), hex(gen_content(r).as_bytes()))),
                    1 => v.push(format!("{}={}", r.pick(ROOT_FILES), hex(gen_content(r).as_bytes()))),
                    2 => {
                        let e = *r.pick(ENTITIES);
                        v.push(format!("{}/", e));
                        if r.chance(1, 2) {
                            let s = *r.pick(SELECTABLES);
                            v.push(format!("{}/{}/", e, s));
                            if r.chance(1, 2) {
                                v.push(format!("{}/{}/{}={}", e, s, r.pick(NESTED_FILES), hex(gen_content(r).as_bytes())));
                            }
                        }
                    }
                    _ => {
                        v.push("olddir/".into());
                        v.push("olddir/deep/".into());
                        v.push(format!("olddir/deep/f.ts={}", hex(gen_content(r).as_bytes())));
                    }
                }
            }
            v.sort();
            v.dedup_by(|a, b| a.split('=').next() == b.split('=').next());
            v.join(",")
        }
        7..=9 => {
            let other = gen_arts(r);
            if other.iter().any(|a| a.nested.is_none() && ENTITIES.contains(&a.file.as_str())) {
                "./".into()
            } else {
                expected_tree(&other)
            }
        }
        10 | 11 => {
            // a file where a directory is expected
            let nested: Vec<&Art> = hint.iter().filter(|a| a.nested.is_some()).collect();
            if nested.is_empty() {
                return "./".into();
            }
            let (e, s) = r.pick(&nested).nested.clone().unwrap();
            if r.chance(1, 2) {
                format!("./,{}=66", e)
            } else {
                format!("./,{}/,{}/{}=66", e, e, s)
            }
        }
        12 | 13 => {
            // a directory where a file is expected
            if hint.is_empty() {
                return "./".into();
            }
            let a = r.pick(hint);
            match &a.nested {
                None => format!("./,{}/,{}/inner=67", a.file, a.file),
                Some((e, s)) => format!("./,{}/,{}/{}/,{}/{}/{}/", e, e, s, e, s, a.file),
            }
        }
        14 => expected_tree(hint),
        _ => "@=6e6f74206120646972".into(),
    }
}

fn gen_plan(r: &mut Rng) -> Vec<String> {
    let new;
    let old;
    match r.below(10) {
        0..=2 => {
            old = None;
            new = gen_arts(r);
        }
        3..=7 => {
            let o = gen_arts(r);
            new = mutate_arts(r, &o);
            old = Some(o);
        }
        8 => {
            let o = gen_arts(r);
            new = o.clone();
            old = Some(o);
        }
        _ => {
            old = Some(gen_arts(r));
            new = gen_arts(r);
        }
    }
    vec![format!(
        "fs.plan\t{}\t{}",
        old.as_ref().map(|o| enc_arts(o)).unwrap_or("none".into()),
        enc_arts(&new)
    )]
}

fn is_sane(arts: &[Art]) -> bool {
    !arts.iter().any(|a| a.nested.is_none() && ENTITIES.contains(&a.file.as_str()))
}

fn gen_apply(r: &mut Rng, with_faults: bool) -> Vec<String> {
    let art_dir = PathBuf::from("/nonexistent/hx_fs").join(ART_DIR_NAME);
    let new = gen_arts(r);
    let (old, init, mut judge) = if r.chance(1, 2) {
        let init = gen_tree(r, &new);
        let j = !init.starts_with('@') && is_sane(&new);
        (None, init, j)
    } else {
        let o = if r.chance(1, 5) { gen_arts(r) } else { let n2 = mutate_arts(r, &new); n2 };
        let sane = is_sane(&o) && is_sane(&new);
        if r.chance(4, 5) && sane {
            let t = expected_tree(&o);
            (Some(o), t, true)
        } else {
            // the directory was edited behind the session's back: correspondence only
            let t = gen_tree(r, &o);
            (Some(o), t, false)
        }
    };
    let mut ops = enc_ops(&plan(old.as_deref(), &new, &art_dir), &art_dir);
    // malformed stream: operation lists no planner produces
    if r.chance(1, 6) {
        judge = false;
        for _ in 0..r.range(1, 3) {
            match r.below(6) {
                0 if !ops.is_empty() => {
                    let i = r.below(ops.len());
                    ops.remove(i);
                }
                1 if ops.len() > 1 => {
                    let i = r.below(ops.len());
                    let j = r.below(ops.len());
                    ops.swap(i, j);
                }
                2 => {
                    let at = r.below(ops.len() + 1);
                    let p = match r.below(4) {
                        0 => ".".to_string(),
                        1 => r.pick(ENTITIES).to_string(),
                        2 => format!("{}/{}", r.pick(ENTITIES), r.pick(SELECTABLES)),
                        _ => format!("{}/{}/{}", r.pick(ENTITIES), r.pick(SELECTABLES), r.pick(NESTED_FILES)),
                    };
                    let op = match r.below(4) {
                        0 => format!("D:{}", p),
                        1 => format!("C:{}", p),
                        2 => format!("X:{}", p),
                        _ => format!("W:{}:{}", p, r.below(new.len() + 2)),
                    };
                    ops.insert(at, op);
                }
                3 => {
                    let at = r.below(ops.len() + 1);
                    ops.insert(at, format!("X:{}", r.pick(ROOT_FILES)));
                }
                4 => {
                    let at = r.below(ops.len() + 1);
                    ops.insert(at, format!("W:{}:{}", r.pick(ROOT_FILES), new.len() + r.below(2)));
                }
                _ => {
                    let at = r.below(ops.len() + 1);
                    ops.insert(at, format!("C:{}/{}/deeper/still", r.pick(ENTITIES), r.pick(SELECTABLES)));
                }
            }
        }
    }
    let faults: Vec<String> = if with_faults {
        (0..=ops.len()).map(|k| k.to_string()).collect()
    } else {
        vec!["-".to_string()]
    };
    faults
        .iter()
        .map(|k| {
            format!(
                "fs.apply\t{}\t{}\t{}\t{}\t{}",
                init,
                enc_arts(&new),
                join_or_dash(&ops),
                k,
                if judge { 1 } else { 0 }
            )
        })
        .collect()
}

fn n_ops(old: Option<&[Art]>, new: &[Art]) -> usize {
    let art_dir = PathBuf::from("/nonexistent/hx_fs").join(ART_DIR_NAME);
    plan(old, new, &art_dir).len()
}

fn gen_sane_arts(r: &mut Rng) -> Vec<Art> {
    loop {
        let a = gen_arts(r);
        if is_sane(&a) || r.chance(1, 20) {
            return a;
        }
    }
}

/// Sessions without faults (C18): first compile on arbitrary directory contents, then edits.
fn gen_session_plain(r: &mut Rng, with_diag: bool) -> Vec<String> {
    let mut cur = gen_sane_arts(r);
    let init = gen_tree(r, &cur);
    let mut steps = vec![];
    if with_diag && r.chance(1, 4) {
        steps.push("v".to_string());
    }
    steps.push(format!("c|{}|-", enc_arts(&cur)));
    for _ in 0..r.range(0, 4) {
        match r.below(12) {
            0 => steps.push("n".into()),
            1 | 2 | 3 if with_diag => steps.push("v".into()),
            _ => {
                cur = if r.chance(1, 8) { gen_sane_arts(r) } else { mutate_arts(r, &cur) };
                steps.push(format!("c|{}|-", enc_arts(&cur)));
            }
        }
    }
    if with_diag {
        steps.push("v".into());
    }
    vec![format!("fs.session\t{}\t{}", init, steps.join("\t"))]
}

/// Sessions with an injected fault at every operation index k of one compile (C19), followed by a
/// recompile in the same session and in a fresh one.
fn gen_session_faults(r: &mut Rng) -> Vec<String> {
    let first = gen_sane_arts(r);
    let init = gen_tree(r, &first);
    let mut prefix: Vec<String> = vec![];
    // the failing compile is either the first of the session or a later one
    let old: Option<Vec<Art>> = if r.chance(1, 2) {
        prefix.push(format!("c|{}|-", enc_arts(&first)));
        Some(first.clone())
    } else {
        None
    };
    let failing = match &old {
        Some(o) => mutate_arts(r, o),
        None => first.clone(),
    };
    let n = n_ops(old.as_deref(), &failing);
    let after = match r.below(4) {
        0 => failing.clone(),
        1 => gen_sane_arts(r),
        _ => mutate_arts(r, &failing),
    };
    let later = mutate_arts(r, &after);
    let mut out = vec![];
    for k in 0..=n {
        let mut steps = prefix.clone();
        steps.push(format!("c|{}|{}", enc_arts(&failing), k));
        match r.below(6) {
            0 => steps.push("v".into()),
            1 => {
                // a second failure before the repair
                let k2 = r.below(n + 2);
                steps.push(format!("c|{}|{}", enc_arts(&after), k2));
            }
            _ => {}
        }
        if r.chance(1, 2) {
            steps.push("n".into());
        }
        steps.push(format!("c|{}|-", enc_arts(&after)));
        if r.chance(1, 2) {
            steps.push(format!("c|{}|-", enc_arts(&later)));
        }
        out.push(format!("fs.session\t{}\t{}", init, steps.join("\t")));
    }
    out
}

fn gen(r: &mut Rng, i: u64) -> Vec<String> {
    let engine = std::env::var("HX_ENGINE").unwrap_or_default();
    match engine.as_str() {
        "plan" => gen_plan(r),
        "apply" => gen_apply(r, false),
        "session" => gen_session_plain(r, false),
        "c18" => match i % 5 {
            0 | 1 => gen_plan(r),
            2 | 3 => gen_apply(r, false),
            _ => gen_session_plain(r, false),
        },
        "c19" => match i % 4 {
            0 => gen_apply(r, true),
            _ => gen_session_faults(r),
        },
        "c17" => gen_session_plain(r, true),
        "real18" => real::gen_real(r, "c18"),
        "real19" => real::gen_real(r, "c19"),
        "real17" => real::gen_real(r, "c17"),
        _ => vec![],
    }
}

fn main() {
    main_loop(&gen, &mut |f| run(f));
    let _ = fs::remove_dir_all(base_dir());
}
