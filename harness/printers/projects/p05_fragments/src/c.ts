import { iso } from '@iso';

export const Home = iso(`
  field Query.Home($id: ID!, $first: Int = 3) @component {
    viewer {
      name
      favorite {
        name
        asPet {
          age
          PetCard
        }
        asCat {
          lives
        }
      }
      feed(first: 5) {
        id
        name
      }
    }
    pet(id: $id) {
      PetCard
      friends(first: $first) {
        name
        __refetch
      }
    }
    animal {
      name
      owner {
        id
        email
      }
      asCat {
        lives
        owner {
          name
        }
      }
    }
  }
`)(() => null);

export const PetCard = iso(`
  field Pet.PetCard @component
  """
  A card
  """
  {
    name
    age
    tags
    stats {
    }
    owner {
      name
    }
    rename_pet
    __refetch
  }
`)(() => null);

export const e = iso(`entrypoint Query.Home`);
