import { iso } from '@iso';
export const Home = iso(`
  field Query.Home {
    me {
      friend(name: "é漢") {
        name
      }
    }
    stats {
      label(lang: "a\\nb")
    }
  }
`)(() => null);
export const e = iso(`entrypoint Query.Home`);
