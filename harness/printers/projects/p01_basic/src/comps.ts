import { iso } from '@iso';

export const Home = iso(`
  field Query.Home($id: ID!, $first: Int, $role: Role) {
    me {
      name
      nickname
      UserCard
    }
    user(id: $id) {
      id
      name
      age
      friend(name: "bob", n: 5, role: $role, flag: true) {
        name
      }
      other: friend(name: null) {
        nickname
      }
      friends(first: $first, filter: { role: $role, minAge: 18, name: "x", nested: { flag: false, tag: "t" } }) {
        name
        tags
      }
    }
    users(first: 10, after: "abc", active: true, role: $role) {
      id
      active
    }
    stats {
      weight
      label(lang: "en")
    }
  }
`)(() => null);

export const UserCard = iso(`
  field User.UserCard @component {
    name
    score
    role
    tags
    maybeTags
    matrix
    bestFriends {
      name
    }
    stats {
      height
    }
    statsRequired {
      weight
    }
  }
`)(() => null);

export const e = iso(`entrypoint Query.Home`);
