import { iso } from '@iso';
export const Home = iso(`
  field Query.Home($id: ID!) @component {
    checkin(id: $id) {
      location
      time
      make_super
    }
  }
`)(() => null);
export const e = iso(`entrypoint Query.Home`);
