import { iso } from '@iso';
export const Home = iso(`
  field Query.Home @component {
    me {
      name
    }
  }
`)(() => null);
export const me = iso(`
  pointer Query.me to Pet {
  }
`)(() => null);
export const Stats = iso(`
  field Query.Stats($id: ID!) @component {
    pet(id: $id) {
      stats {
        owner {
          name
          email
        }
      }
    }
    viewer {
      pal {
        age
      }
    }
  }
`)(() => null);
export const owner = iso(`
  pointer PetStats.owner to Owner {
  }
`)(() => null);
export const pal = iso(`
  pointer Viewer.pal to Pet {
  }
`)(() => null);
export const e = iso(`entrypoint Query.Home`);
export const e2 = iso(`entrypoint Query.Stats`);
