import { iso } from '@iso';
export const Home = iso(`
  field Query.Home($id: ID!, $k: Int) @component {
    pet(id: $id) {
      A(n: $k)
      B(n: 2)
      C
    }
  }
`)(() => null);
export const A = iso(`
  field Pet.A($n: Int) {
    friends(first: $n) {
      name
      C
    }
  }
`)(() => null);
export const B = iso(`
  field Pet.B($n: Int) {
    friends(first: $n) {
      age
    }
    A(n: $n)
  }
`)(() => null);
export const C = iso(`
  field Pet.C {
    tags
    owner {
      pets {
        id
      }
    }
  }
`)(() => null);
export const e = iso(`entrypoint Query.Home`);
