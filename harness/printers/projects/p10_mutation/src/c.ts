import { iso } from '@iso';
export const Rename = iso(`
  field Mutation.Rename($id: ID!, $name: String!) {
    rename_pet(id: $id, name: $name) {
      pet {
        name
        Card
      }
    }
    noop
  }
`)(() => null);
export const Card = iso(`
  field Pet.Card @component {
    name
    owner {
      name
    }
  }
`)(() => null);
export const e = iso(`entrypoint Mutation.Rename`);
export const Home = iso(`
  field Query.Home @component {
    viewer {
      name
    }
  }
`)(() => null);
export const e2 = iso(`entrypoint Query.Home @lazyLoad`);
