import { iso } from '@iso';
export const Home = iso(`
  field Query.Home($id: ID!) @component {
    pet(id: $id) {
      name
      Details @loadable
      Friends(count: 3) @loadable(lazyLoadArtifact: true)
    }
  }
`)(() => null);
export const Details = iso(`
  field Pet.Details @component {
    age
    tags
    stats {
      weight
      cuteness
    }
  }
`)(() => null);
export const Friends = iso(`
  field Pet.Friends($count: Int) @component {
    label: name
    friendsOther: friends(first: $count) {
      id
    }
    friends(first: $count) {
      name
      owner {
        email
      }
    }
  }
`)(() => null);
export const e = iso(`entrypoint Query.Home`);
