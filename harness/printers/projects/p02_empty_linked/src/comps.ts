import { iso } from '@iso';

export const Home = iso(`
  field Query.Home {
    stats {
    }
    me {
      name
      statsRequired {
      }
    }
  }
`)(() => null);

export const e = iso(`entrypoint Query.Home`);
