import { iso } from '@iso';
export const Home = iso(`
  field Query.Home {
    me {
      friend(n: -5) {
        name
      }
      f2: friend(n: 5) {
        name
      }
    }
  }
`)(() => null);
export const e = iso(`entrypoint Query.Home`);
