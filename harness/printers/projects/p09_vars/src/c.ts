import { iso } from '@iso';
export const Home = iso(`
  field Query.Home($id: ID!, $first: Int = 10, $term: String! = "x y", $n: Int) @component {
    pet(id: $id) {
      friends(first: $first) {
        name
      }
      f2: friends(first: $n) {
        id
      }
    }
    search(term: $term) {
      asPet {
        name
      }
      asOwner {
        email
      }
    }
    viewer {
      feed(first: 2) {
        asCat {
          lives
        }
      }
    }
  }
`)(() => null);
export const e = iso(`entrypoint Query.Home`);
