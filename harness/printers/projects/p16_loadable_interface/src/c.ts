import { iso } from '@iso';
export const Home = iso(`
  field Query.Home @component {
    animal {
      name
      Details @loadable
    }
    viewer {
      favorite {
        Details @loadable(lazyLoadArtifact: true)
      }
    }
  }
`)(() => null);
export const Details = iso(`
  field Animal.Details @component {
    name
    asPet {
      age
      owner {
        email
      }
    }
    asCat {
      lives
    }
  }
`)(() => null);
export const e = iso(`entrypoint Query.Home`);
