import { iso } from '@iso';
export const Home = iso(`
  field Query.Home($id: ID!) @component {
    pet(id: $id) {
      name @updatable
      age
      nick: name
      owner @updatable {
        id
        email @updatable
      }
      stats {
        weight @updatable
      }
    }
  }
`)(() => null);
export const e = iso(`entrypoint Query.Home`);
