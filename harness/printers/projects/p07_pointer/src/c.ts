import { iso } from '@iso';
export const Home = iso(`
  field Query.Home @component {
    pets(first: 10) {
      id
      name
      bestFriend {
        name
        age
      }
    }
    firstPet {
      name
    }
    anyAnimal {
      name
    }
  }
`)(() => null);
export const bestFriend = iso(`
  pointer Pet.bestFriend to Pet {
    friends(first: 1) {
      __link
    }
  }
`)(() => null);
export const firstPet = iso(`
  pointer Query.firstPet to Pet {
    pets(first: 1) {
      __link
    }
  }
`)(() => null);
export const anyAnimal = iso(`
  pointer Query.anyAnimal to Animal {
    animal {
      __link
    }
  }
`)(() => null);
export const e = iso(`entrypoint Query.Home`);
