import { iso } from '@iso';
export const Home = iso(`
  field Query.Home {
    me {
      a: friend(name: "a b") {
        name
      }
      b: friend(name: "a_b") {
        nickname
      }
    }
  }
`)(() => null);
export const e = iso(`entrypoint Query.Home`);
