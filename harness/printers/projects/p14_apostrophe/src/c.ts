import { iso } from '@iso';
export const Home = iso(`
  field Query.Home {
    me {
      friend(name: "it's") {
        name
      }
      q: friend(name: "say \"hi\" \\ bye") {
        nickname
      }
    }
  }
`)(() => null);
export const e = iso(`entrypoint Query.Home`);
