//! engine `alias` (placeholder)
pub fn main() {
    eprintln!("alias engine not built yet");
    std::process::exit(2);
}
