//! Engine `alias` (C12): arbitrary field names and argument lists through
//!  * the compiler's alias function (`MergedScalarFieldSelection::normalization_alias`, i.e.
//!    `get_aliased_mutation_field_name` over `to_alias_str_chunk`),
//!  * the two printers (compact operation text, normalization AST text) for a map holding that one
//!    scalar field, and
//!  * the runtime's `getNetworkResponseKey`, cut out of cache.ts and run under node on the
//!    normalization AST text the compiler printed (js/alias_runtime.mjs, one node process per run).
//!
//! request:  C12.alias \t <hex name> <ARGS in the wire encoding of isograph_schema::verif>
//! answer :  alias (hex | none | panic) \t query text (hex | panic) \t normalization AST (hex | panic)
//!           \t runtime key (hex | syntax-error | panic | error…)
use common_lang_types::{EmbeddedLocation, WithLocationPostfix};
use graphql_lang_types::{FloatValue, NameValuePair};
use graphql_network_protocol::GraphQLOperationKind;
use hx_common::*;
use intern::string_key::Intern;
use isograph_lang_types::{ArgumentKeyAndValue, NonConstantValue};
use prelude::Postfix;
use isograph_schema::{
    MergedScalarFieldSelection, MergedSelectionMap, MergedServerSelection, NameAndArguments,
    NormalizationKey, WrappedMergedSelectionMap,
};
use std::io::{BufRead, BufReader, Write};
use std::panic::{catch_unwind, AssertUnwindSafe};
use std::process::{Child, ChildStdin, ChildStdout, Command, Stdio};

// ---------------------------------------------------------------- values as data

#[derive(Clone, Debug)]
enum V {
    Var(String),
    Int(i64),
    Bool(bool),
    Str(String),
    Float(f64),
    Null,
    Enum(String),
    List(Vec<V>),
    Obj(Vec<(String, V)>),
}

fn wire_value(out: &mut String, v: &V) {
    match v {
        V::Var(n) => out.push_str(&format!(" V {}", hex(n.as_bytes()))),
        V::Int(i) => out.push_str(&format!(" I {i}")),
        V::Bool(b) => out.push_str(&format!(" B {}", u8::from(*b))),
        V::Str(s) => out.push_str(&format!(" S {}", hex(s.as_bytes()))),
        V::Float(f) => out.push_str(&format!(" F {}", hex(f.to_string().as_bytes()))),
        V::Null => out.push_str(" N"),
        V::Enum(e) => out.push_str(&format!(" E {}", hex(e.as_bytes()))),
        V::List(items) => {
            out.push_str(&format!(" L {}", items.len()));
            for i in items {
                wire_value(out, i);
            }
        }
        V::Obj(fields) => {
            out.push_str(&format!(" O {}", fields.len()));
            for (k, v) in fields {
                out.push_str(&format!(" {}", hex(k.as_bytes())));
                wire_value(out, v);
            }
        }
    }
}

fn wire(name: &str, args: &[(String, V)]) -> String {
    let mut out = format!("{} {}", hex(name.as_bytes()), args.len());
    for (k, v) in args {
        out.push_str(&format!(" {}", hex(k.as_bytes())));
        wire_value(&mut out, v);
    }
    out
}

struct Toks<'a>(std::str::SplitWhitespace<'a>);

impl Toks<'_> {
    fn next(&mut self) -> Option<String> {
        self.0.next().map(|s| s.to_string())
    }
    fn string(&mut self) -> Option<String> {
        String::from_utf8(unhex(&self.next()?)?).ok()
    }
    fn value(&mut self) -> Option<V> {
        Some(match self.next()?.as_str() {
            "V" => V::Var(self.string()?),
            "I" => V::Int(self.next()?.parse().ok()?),
            "B" => V::Bool(self.next()? == "1"),
            "S" => V::Str(self.string()?),
            "F" => V::Float(self.string()?.parse().ok()?),
            "N" => V::Null,
            "E" => V::Enum(self.string()?),
            "L" => {
                let n: usize = self.next()?.parse().ok()?;
                let mut items = vec![];
                for _ in 0..n {
                    items.push(self.value()?);
                }
                V::List(items)
            }
            "O" => {
                let n: usize = self.next()?.parse().ok()?;
                let mut fields = vec![];
                for _ in 0..n {
                    let k = self.string()?;
                    fields.push((k, self.value()?));
                }
                V::Obj(fields)
            }
            _ => return None,
        })
    }
}

fn parse_wire(s: &str) -> Option<(String, Vec<(String, V)>)> {
    let mut t = Toks(s.split_whitespace());
    let name = t.string()?;
    let n: usize = t.next()?.parse().ok()?;
    let mut args = vec![];
    for _ in 0..n {
        let k = t.string()?;
        args.push((k, t.value()?));
    }
    Some((name, args))
}

fn to_value(v: &V) -> NonConstantValue {
    let loc = EmbeddedLocation::todo_generated;
    match v {
        V::Var(n) => NonConstantValue::Variable(
            n.intern().to::<common_lang_types::VariableName>().into(),
        ),
        V::Int(i) => NonConstantValue::Integer(*i),
        V::Bool(b) => NonConstantValue::Boolean(*b),
        V::Str(s) => NonConstantValue::String(s.intern().into()),
        V::Float(f) => NonConstantValue::Float(FloatValue::new(*f)),
        V::Null => NonConstantValue::Null,
        V::Enum(e) => NonConstantValue::Enum(e.intern().into()),
        V::List(items) => NonConstantValue::List(
            items.iter().map(|i| to_value(i).with_location(loc())).collect(),
        ),
        V::Obj(fields) => NonConstantValue::Object(
            fields
                .iter()
                .map(|(k, v)| NameValuePair {
                    name: k.intern().to::<common_lang_types::ValueKeyName>().with_location(loc()),
                    value: to_value(v).with_location(loc()),
                })
                .collect(),
        ),
    }
}

// ---------------------------------------------------------------- generator

const NAME_START: &[&str] = &["a", "b", "f", "u", "x", "A", "Z", "_"];
const NAME_REST: &[&str] = &["a", "b", "e", "r", "s", "x", "Z", "0", "7", "_", "_"];
const STR_ALPHABET: &[&str] = &[
    "a", "b", "c", "z", "A", "Q", "0", "5", "9", "_", "_", " ", " ", "-", ".", ",", ":", ";", "!", "?", "(", ")",
    "[", "]", "{", "}", "<", ">", "/", "+", "*", "&", "%", "$", "#", "@", "=", "~", "^", "|", "'", "é", "ö", "漢",
    "→", "😀", "𝄞", "\\n", "\\t", "\\\\", "\\u00e9", "\\x41", "\\0", "\\u{1F600}", "\\'", "\\q",
];

fn gen_name(r: &mut Rng) -> String {
    let mut s = (*r.pick(NAME_START)).to_string();
    for _ in 0..r.below(6) {
        s.push_str(*r.pick(NAME_REST));
    }
    if r.chance(1, 12) {
        s.push_str("____");
        s.push_str(*r.pick(NAME_REST));
    }
    if r.chance(1, 40) {
        s.push_str(*r.pick(&["é", "😀"]));
    }
    s
}

fn gen_string(r: &mut Rng) -> String {
    match r.below(10) {
        0 => String::new(),
        1 | 2 => {
            // word characters only
            let mut s = String::new();
            for _ in 0..r.range(1, 8) {
                s.push_str(*r.pick(NAME_REST));
            }
            s
        }
        _ => gen_text(r, 8, STR_ALPHABET),
    }
}

fn gen_int(r: &mut Rng) -> i64 {
    match r.below(12) {
        0 => 0,
        1 => -1,
        2 => -(r.below(1000) as i64),
        3 => 9_007_199_254_740_992 + r.below(5000) as i64,
        4 => -(9_007_199_254_740_992 + r.below(5000) as i64),
        5 => i64::MAX - r.below(3) as i64,
        6 => i64::MIN + r.below(3) as i64,
        7 => (r.next() >> 1) as i64,
        8 => 9_007_199_254_740_992 - r.below(3) as i64,
        _ => r.below(100_000) as i64,
    }
}

fn gen_float(r: &mut Rng) -> f64 {
    let mantissa = (r.below(2_000_000) as f64 - 1_000_000.0) / *r.pick(&[1.0, 10.0, 100.0, 1000.0, 8.0, 64.0]);
    match r.below(10) {
        0 => 1e21,
        1 => 1e-7,
        2 => -0.0,
        3 => 0.1 + 0.2,
        4 => mantissa * 1e18,
        5 => mantissa * 1e-9,
        6 => 123456789.123,
        _ => mantissa,
    }
}

fn gen_value(r: &mut Rng, depth: usize) -> V {
    match r.below(if depth >= 3 { 16 } else { 20 }) {
        0 | 1 | 2 => V::Var(gen_name(r)),
        3 | 4 | 5 => V::Int(gen_int(r)),
        6 => V::Bool(r.chance(1, 2)),
        7 | 8 | 9 | 10 | 11 => V::Str(gen_string(r)),
        12 => V::Float(gen_float(r)),
        13 => V::Null,
        14 | 15 => V::Enum(gen_name(r)),
        16 if r.chance(1, 6) => V::List((0..r.below(3)).map(|_| gen_value(r, depth + 1)).collect()),
        _ => V::Obj((0..r.below(4)).map(|_| (gen_name(r), gen_value(r, depth + 1))).collect()),
    }
}

fn gen_args(r: &mut Rng) -> Vec<(String, V)> {
    let n = match r.below(10) {
        0 => 0,
        1..=5 => 1,
        6..=8 => 2,
        _ => 3,
    };
    (0..n).map(|_| (gen_name(r), gen_value(r, 0))).collect()
}

/// change one character of one string somewhere in the value (non-word <-> other non-word / `_`)
fn mutate_value(r: &mut Rng, v: &V) -> V {
    match v {
        V::Str(s) if !s.is_empty() => {
            let chars: Vec<char> = s.chars().collect();
            let i = r.below(chars.len());
            let rep = *r.pick(&['_', ' ', '-', 'é', 'x']);
            let mut out: String = chars[..i].iter().collect();
            out.push(rep);
            out.extend(chars[i + 1..].iter());
            V::Str(out)
        }
        V::Obj(fields) if !fields.is_empty() => {
            let i = r.below(fields.len());
            let mut f = fields.clone();
            f[i].1 = mutate_value(r, &fields[i].1);
            V::Obj(f)
        }
        V::Int(i) => V::Int(i.wrapping_add(1)),
        other => other.clone(),
    }
}

pub fn gen_case(r: &mut Rng, prop: &str) -> String {
    let name = gen_name(r);
    let args = gen_args(r);
    if r.chance(1, 3) {
        // a second selection for the uniqueness clause
        let (name2, args2) = match r.below(10) {
            0 | 1 => (name.clone(), args.clone()),
            2 => (gen_name(r), gen_args(r)),
            3 if !args.is_empty() => {
                // move the tail of the argument list into a string: `a(b: "x", c: $y)` vs `a(b: "x____c___v_y")`
                (name.clone(), vec![(args[0].0.clone(), V::Str(format!("x____{}___v_y", gen_name(r))))])
            }
            _ => {
                let mut a2 = args.clone();
                if !a2.is_empty() {
                    let i = r.below(a2.len());
                    a2[i].1 = mutate_value(r, &args[i].1);
                }
                (name.clone(), a2)
            }
        };
        return format!("{prop}.alias2\t{}\t{}", wire(&name, &args), wire(&name2, &args2));
    }
    format!("{prop}.alias\t{}", wire(&name, &args))
}

// ---------------------------------------------------------------- node

struct Node {
    _child: Child,
    stdin: ChildStdin,
    stdout: BufReader<ChildStdout>,
}

impl Node {
    fn start() -> Option<Node> {
        let script = concat!(env!("CARGO_MANIFEST_DIR"), "/../../js/alias_runtime.mjs");
        let mut child = Command::new("node")
            .arg(script)
            .arg("/repo/libs/isograph-react/src/core/cache.ts")
            .stdin(Stdio::piped())
            .stdout(Stdio::piped())
            .spawn()
            .ok()?;
        let stdin = child.stdin.take()?;
        let stdout = BufReader::new(child.stdout.take()?);
        Some(Node { _child: child, stdin, stdout })
    }
    fn ask(&mut self, text: &str) -> String {
        if writeln!(self.stdin, "{}", hex(text.as_bytes())).is_err() || self.stdin.flush().is_err() {
            return "node-dead".to_string();
        }
        let mut line = String::new();
        match self.stdout.read_line(&mut line) {
            Ok(n) if n > 0 => line.trim_end().to_string(),
            _ => "node-dead".to_string(),
        }
    }
}

// ---------------------------------------------------------------- run

fn run_case(node: &mut Option<Node>, f: &[&str]) -> String {
    let Some((name, args)) = f.get(1).and_then(|w| parse_wire(w)) else {
        return "bad-op".to_string();
    };
    let selection = match catch_unwind(AssertUnwindSafe(|| MergedScalarFieldSelection {
        name: name.intern().into(),
        arguments: args
            .iter()
            .map(|(k, v)| ArgumentKeyAndValue { key: k.intern().into(), value: to_value(v) })
            .collect(),
        is_fallible: false,
    })) {
        Ok(s) => s,
        Err(_) => return "panic\tpanic\tpanic\tpanic".to_string(),
    };
    let alias = match catch_unwind(AssertUnwindSafe(|| selection.normalization_alias())) {
        Ok(Some(a)) => hex(a.as_bytes()),
        Ok(None) => "none".to_string(),
        Err(_) => "panic".to_string(),
    };
    let mut map = MergedSelectionMap::new();
    map.insert(
        NormalizationKey::ServerField(NameAndArguments {
            name: selection.name,
            arguments: selection.arguments.clone(),
        }),
        MergedServerSelection::ScalarField(selection.clone()),
    );
    let wrapped = WrappedMergedSelectionMap::new(map);
    let query_text = match catch_unwind(AssertUnwindSafe(|| {
        graphql_network_protocol::verif::verif_query_text(
            GraphQLOperationKind::Query,
            "Q".intern().into(),
            &wrapped,
            &[],
            true,
        )
    })) {
        Ok(t) => hex(t.as_bytes()),
        Err(_) => "panic".to_string(),
    };
    let norm = catch_unwind(AssertUnwindSafe(|| {
        artifact_content::verif::verif_normalization_ast_text(
            &[MergedServerSelection::ScalarField(selection.clone())],
            0,
        )
    }));
    let (norm_field, runtime) = match norm {
        Ok(t) => {
            let answer = match node {
                Some(n) => n.ask(&t),
                None => "no-node".to_string(),
            };
            let runtime = match answer.split_once(' ') {
                Some(("ok", h)) => h.to_string(),
                _ => answer,
            };
            (hex(t.as_bytes()), runtime)
        }
        Err(_) => ("panic".to_string(), "panic".to_string()),
    };
    format!("{alias}\t{query_text}\t{norm_field}\t{runtime}")
}

fn alias_only(w: &str) -> String {
    let Some((name, args)) = parse_wire(w) else {
        return "bad-op".to_string();
    };
    match catch_unwind(AssertUnwindSafe(|| {
        MergedScalarFieldSelection {
            name: name.intern().into(),
            arguments: args
                .iter()
                .map(|(k, v)| ArgumentKeyAndValue { key: k.intern().into(), value: to_value(v) })
                .collect(),
            is_fallible: false,
        }
        .normalization_alias()
    })) {
        Ok(Some(a)) => hex(a.as_bytes()),
        Ok(None) => "none".to_string(),
        Err(_) => "panic".to_string(),
    }
}

/// node is started on the first alias request
pub struct NodeHandle(Option<Option<Node>>);

impl NodeHandle {
    pub fn new() -> NodeHandle {
        NodeHandle(None)
    }
    fn get(&mut self) -> &mut Option<Node> {
        self.0.get_or_insert_with(Node::start)
    }
}

pub fn run(node: &mut NodeHandle, f: &[&str]) -> String {
    if f[0].ends_with(".alias2") && f.len() >= 3 {
        format!("{}\t{}", alias_only(f[1]), alias_only(f[2]))
    } else {
        run_case(node.get(), f)
    }
}
