//! Harness of the `printers` family (C11, C12, C26, C27).
//!
//! Engines (env `HX_ENGINE`):
//!   `printers` — compile whole projects with the real compiler in-process, dump the printer inputs
//!                through the hook `artifact_content::verif`, answer with the bytes of the generated
//!                files.  Every project is compiled in a fresh child process (`one <spec>`): the
//!                iteration order of the compiler's maps is the order of interning, which depends
//!                on the history of the process.
//!   `alias`    — arbitrary field names / argument lists through the Rust alias function and the
//!                printers, and through the runtime's key functions (cut out of cache.ts, run under
//!                node).
//! `HX_PROP` (C11 | C12 | C26 | C27) selects the op prefix, i.e. which oracle the driver evaluates.
mod alias;
mod project;

use hx_common::*;
use std::collections::HashMap;
use std::process::Command;

fn prop() -> String {
    std::env::var("HX_PROP").unwrap_or_else(|_| "C11".to_string())
}

/// Run `one <spec>` in a fresh process; returns its `request \t => \t answer` lines.
fn run_one(spec: &str) -> Vec<(String, String)> {
    let exe = std::env::current_exe().expect("current_exe");
    let out = Command::new(exe)
        .arg("one")
        .arg(spec)
        .env("HX_PROP", prop())
        .output()
        .expect("spawn one");
    let text = String::from_utf8_lossy(&out.stdout);
    let mut res = vec![];
    for line in text.lines() {
        if let Some((req, ans)) = line.split_once("\t=>\t") {
            res.push((req.to_string(), ans.to_string()));
        }
    }
    if res.is_empty() {
        let err = String::from_utf8_lossy(&out.stderr);
        eprintln!("one {spec}: no lines; stderr: {}", &err[..err.len().min(2000)]);
    }
    res
}

fn main() {
    let args: Vec<String> = std::env::args().collect();
    if args.get(1).map(|s| s.as_str()) == Some("one") {
        quiet_panics();
        project::one(&args[2], &prop());
        return;
    }
    if args.get(1).map(|s| s.as_str()) == Some("specs") {
        for s in project::catalog() {
            println!("{s}");
        }
        return;
    }
    let engine = std::env::var("HX_ENGINE").unwrap_or_else(|_| "printers".to_string());
    let mut cache: HashMap<String, HashMap<String, String>> = HashMap::new();
    let mut node = alias::NodeHandle::new();
    let mode = args.get(1).cloned().unwrap_or_default();

    // `gen` for the project engine: the children (one per case) are independent, run them in parallel
    if mode == "gen" && engine != "alias" {
        let seed: u64 = args[2].parse().expect("seed");
        let n: u64 = args[3].parse().expect("n");
        let start: u64 = args.get(4).map(|s| s.parse().expect("start")).unwrap_or(0);
        let specs: Vec<String> =
            (start..start + n).map(|i| project::spec_for_case(&mut Rng::new(seed, i), i, &prop())).collect();
        for lines in parallel_map(&specs, |spec| run_one(spec)) {
            for (req, _) in lines {
                println!("{req}");
            }
        }
        return;
    }
    // `run`: read everything, compile the distinct projects in parallel, answer in input order
    if mode == "run" {
        quiet_panics();
        let input: Vec<String> = std::io::stdin()
            .lines()
            .map_while(Result::ok)
            .filter(|l| !l.is_empty() && !l.starts_with('#'))
            .collect();
        let mut specs: Vec<String> = vec![];
        for l in input.iter() {
            let f: Vec<&str> = l.split('\t').collect();
            if f[0].ends_with(".alias") || f[0].ends_with(".alias2") || f.len() < 2 {
                continue;
            }
            if !specs.contains(&f[1].to_string()) {
                specs.push(f[1].to_string());
            }
        }
        for (spec, lines) in specs.iter().zip(parallel_map(&specs, |spec| run_one(spec))) {
            cache.entry(spec.clone()).or_default().extend(lines);
        }
        let out = std::io::stdout();
        let mut out = std::io::BufWriter::new(out.lock());
        use std::io::Write;
        for l in input.iter() {
            let f: Vec<&str> = l.split('\t').collect();
            let ans = answer(&mut cache, &mut node, &f);
            writeln!(out, "{l}\t=>\t{ans}").unwrap();
        }
        out.flush().unwrap();
        return;
    }
    main_loop(
        &|r, i| {
            if engine == "alias" {
                return vec![alias::gen_case(r, &prop())];
            }
            let spec = project::spec_for_case(r, i, &prop());
            run_one(&spec).into_iter().map(|(req, _)| req).collect()
        },
        &mut |f| answer(&mut cache, &mut node, f),
    );
}

/// `f(x)` for every `x`, on up to 6 threads, results in input order
fn parallel_map<T: Send>(xs: &[String], f: impl Fn(&str) -> T + Sync) -> Vec<T> {
    let workers = std::thread::available_parallelism().map(|n| n.get()).unwrap_or(2).min(6).max(1);
    let next = std::sync::atomic::AtomicUsize::new(0);
    let slots: Vec<std::sync::Mutex<Option<T>>> = xs.iter().map(|_| std::sync::Mutex::new(None)).collect();
    std::thread::scope(|s| {
        for _ in 0..workers {
            s.spawn(|| loop {
                let i = next.fetch_add(1, std::sync::atomic::Ordering::SeqCst);
                if i >= xs.len() {
                    break;
                }
                let v = f(&xs[i]);
                *slots[i].lock().unwrap() = Some(v);
            });
        }
    });
    slots.into_iter().map(|m| m.into_inner().unwrap().expect("worker result")).collect()
}

/// the implementation's answer to one request (requests carry their engine in the op name, so
/// corpus files may mix them)
fn answer(
    cache: &mut HashMap<String, HashMap<String, String>>,
    node: &mut alias::NodeHandle,
    f: &[&str],
) -> String {
    if f[0].ends_with(".alias") || f[0].ends_with(".alias2") {
        return alias::run(node, f);
    }
    if f.len() < 2 {
        return "bad-op".to_string();
    }
    let spec = f[1].to_string();
    let req = f.join("\t");
    for attempt in 0..3 {
        let known = cache.entry(spec.clone()).or_default();
        if let Some(ans) = known.get(&req) {
            return ans.clone();
        }
        if attempt > 0 || known.is_empty() {
            for (r, a) in run_one(&spec) {
                cache.entry(spec.clone()).or_default().insert(r, a);
            }
        }
    }
    match cache.get(&spec).and_then(|m| m.get(&req)) {
        Some(ans) => ans.clone(),
        None => "missing".to_string(),
    }
}
