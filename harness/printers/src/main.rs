//! probe (to be replaced)
use graphql_network_protocol::GraphQLAndJavascriptProfile;
use intern::string_key::Intern;
use isograph_compiler::CompilerState;
use isograph_config::create_config;
use std::path::PathBuf;

fn main() {
    let args: Vec<String> = std::env::args().collect();
    let config_path = PathBuf::from(&args[1]);
    let cwd = std::env::current_dir().unwrap();
    let cwd = cwd.to_str().unwrap().intern().into();
    let config = create_config(&config_path, cwd);
    let state = CompilerState::<GraphQLAndJavascriptProfile>::new(config, cwd).unwrap_or_else(|e| panic!("{}", e));
    let (result, lines) = artifact_content::verif::verif_generate_and_dump(&state.db);
    match result {
        Ok((artifacts, _)) => {
            for a in artifacts.iter() {
                let p = match a.artifact_path.type_and_field {
                    Some(tf) => format!("{}/{}/{}", tf.parent_entity_name, tf.selectable_name, a.artifact_path.file_name),
                    None => a.artifact_path.file_name.to_string(),
                };
                eprintln!("artifact {} {}", p, a.file_content.len());
            }
        }
        Err(e) => { for d in e.iter() { eprintln!("DIAG {}", d.printable(state.db.print_location_fn(true))); } }
    }
    for l in lines {
        println!("{}", l);
    }
}
