//! hx_memo -- harness of property C04 (distinct memoized functions never share cached results).
//!
//!   hx_memo sigs            T4: one line per memo site of /repo/crates and of this crate
//!                           (table built at compile time by `hx_memo_probe::scan!()`, inside rustc)
//!   hx_memo gen|run         engine `samesig` (HX_ENGINE=samesig), line protocol of hx_common
//!
//! Requests
//!   samesig.hist \t call;call;…            call = qid/base/arg,arg,…   (`-` for no argument)
//!       fresh database, the calls in order;  answer: one returned value per call
//!   samesig.key \t qid \t base \t args \t key
//!       fresh database, one call of qid(args), then: is there a derived node whose function key is
//!       `key` (and these arguments)?  answer: `found <value>` | `missing`
//!   malformed request: `bad-request`;  a panic: `panic`
use hx_common::Rng;
use std::panic::{catch_unwind, AssertUnwindSafe};

mod samesig;
use samesig::{entries, entry, Entry, TestDatabase, ENTRIES, FAMILIES};

pub struct Site {
    pub krate: &'static str,
    pub kind: &'static str,
    pub root: &'static str,
    pub file: &'static str,
    pub module_path: &'static str,
    pub container: &'static str,
    pub name: &'static str,
    pub line: u32,
    pub col: u32,
    pub sig: &'static str,
    pub sig_hash: u64,
    pub arity: u32,
    pub db_type: &'static str,
    pub db_type_local: bool,
    pub args: &'static str,
    pub other_attrs: &'static str,
    pub cfgs: &'static str,
}

/// digest of every file the scan may read; a change recompiles this crate (see build.rs)
pub const SCAN_STAMP: &str = include_str!(concat!(env!("OUT_DIR"), "/scan_stamp.txt"));

pub const SCAN: (&[Site], usize) = hx_memo_probe::scan!();

impl Site {
    pub fn qid(&self) -> String {
        if self.container.is_empty() {
            format!("{}::{}", self.module_path, self.name)
        } else {
            format!("{}::{}::{}", self.module_path, self.container, self.name)
        }
    }
    /// what `concat!(module_path!(), ":", line!(), ":", column!())` is at the definition
    pub fn site_text(&self) -> String {
        format!("{}:{}:{}", self.module_path, self.line, self.col)
    }
}

/// The fold of the repaired macro (memo_macro.rs, `MEMO_FN_KEY`): FNV-1a steps over the bytes of the
/// definition-site text, starting from the signature hash.
pub fn fnv_fold(start: u64, bytes: &[u8], prime: u64) -> u64 {
    let mut key = start;
    for b in bytes {
        key = (key ^ *b as u64).wrapping_mul(prime);
    }
    key
}

pub const FNV_PRIME: u64 = 0x100000001b3;

fn sigs() {
    let (sites, nfiles) = SCAN;
    println!("# {} source files parsed; stamp: {}", nfiles, SCAN_STAMP.trim());
    for s in sites {
        println!(
            "site\tcrate={}\tkind={}\troot={}\tfile={}\tmodule_path={}\tcontainer={}\tname={}\tline={}\tcol={}\tsig={}\tsig_hash={}\tarity={}\tdb_type={}\tdb_type_local={}\targs={}\tother_attrs={}\tcfgs={}",
            s.krate, s.kind, s.root, s.file, s.module_path, s.container, s.name, s.line, s.col,
            hx_common::hex(s.sig.as_bytes()), s.sig_hash, s.arity, s.db_type, s.db_type_local,
            hx_common::hex(s.args.as_bytes()), s.other_attrs, hx_common::hex(s.cfgs.as_bytes())
        );
    }
}

fn own_site(qid: &str) -> Option<&'static Site> {
    let mut it = SCAN.0.iter().filter(|s| s.krate == "hx_memo" && s.qid() == qid);
    let first = it.next();
    if it.next().is_some() {
        return None;
    }
    first
}

fn fmt_args(a: &[u32]) -> String {
    if a.is_empty() {
        "-".to_string()
    } else {
        a.iter().map(|x| x.to_string()).collect::<Vec<_>>().join(",")
    }
}

fn parse_args(s: &str) -> Option<Vec<u32>> {
    if s == "-" {
        return Some(vec![]);
    }
    s.split(',').map(|x| if x.is_empty() || !x.bytes().all(|b| b.is_ascii_digit()) || x.len() > 6 { None } else { x.parse().ok() }).collect()
}

fn gen_call(r: &mut Rng, e: &Entry, maxarg: usize) -> String {
    let args: Vec<u32> = e.args.iter().map(|_| r.below(maxarg + 1) as u32).collect();
    format!("{}/{}/{}", e.qid, e.base, fmt_args(&args))
}

fn gen(r: &mut Rng, _i: u64) -> Vec<String> {
    let roll = r.below(100);
    if roll < 3 {
        // malformed stream
        let e = r.pick(entries());
        let line = match r.below(4) {
            0 => format!("samesig.hist\thx_memo::samesig::nowhere::f/1/-"),
            1 => format!("samesig.hist\t{}/{}/x", e.qid, e.base),
            2 => format!("samesig.hist\t{}/{}/{}", e.qid, e.base, fmt_args(&vec![1; e.args.len() + 1])),
            _ => format!("samesig.hist\t{};;", gen_call(r, e, 1)),
        };
        return vec![line];
    }
    if roll < 18 {
        let e = r.pick(ENTRIES);
        let s = own_site(e.qid).expect("entry not in the scan table");
        let args: Vec<u32> = e.args.iter().map(|_| r.below(3) as u32).collect();
        let key = match r.below(4) {
            0 => s.sig_hash,                                                  // the unrepaired recipe
            1 | 2 => fnv_fold(s.sig_hash, s.site_text().as_bytes(), FNV_PRIME), // the repaired recipe
            _ => fnv_fold(s.sig_hash, s.module_path.as_bytes(), FNV_PRIME),    // neither
        };
        return vec![format!("samesig.key\t{}\t{}\t{}\t{}", e.qid, e.base, fmt_args(&args), key)];
    }
    let (pool, len, maxarg): (Vec<&Entry>, usize, usize) = if r.chance(3, 5) {
        let fam = r.below(FAMILIES);
        (entries().iter().filter(|e| e.family == fam).collect(), r.range(2, 8), 1)
    } else {
        (entries().iter().collect(), r.range(2, 12), 1)
    };
    let mut calls: Vec<String> = vec![];
    for _ in 0..len {
        let e: &Entry = *r.pick(&pool);
        calls.push(gen_call(r, e, maxarg));
    }
    vec![format!("samesig.hist\t{}", calls.join(";"))]
}

fn parse_call(c: &str) -> Option<(&'static Entry, Vec<u32>)> {
    let p: Vec<&str> = c.split('/').collect();
    if p.len() != 3 {
        return None;
    }
    let e = entry(p[0])?;
    if p[1] != e.base.to_string() {
        return None;
    }
    let args = parse_args(p[2])?;
    if args.len() != e.args.len() {
        return None;
    }
    Some((e, args))
}

fn run(f: &[&str]) -> String {
    match f {
        ["samesig.hist", calls] => {
            let parsed: Option<Vec<_>> = calls.split(';').map(parse_call).collect();
            let Some(parsed) = parsed else { return "bad-request".to_string() };
            let r = catch_unwind(AssertUnwindSafe(|| {
                let db = TestDatabase::default();
                parsed.iter().map(|(e, a)| (e.call)(&db, a).to_string()).collect::<Vec<_>>()
            }));
            match r {
                Ok(v) => v.join("\t"),
                Err(_) => "panic".to_string(),
            }
        }
        ["samesig.key", qid, base, args, key] => {
            if qid.starts_with('~') {
                return "bad-request".to_string(); // no predicted key for a site T4 cannot place
            }
            let Some((e, a)) = parse_call(&format!("{}/{}/{}", qid, base, args)) else { return "bad-request".to_string() };
            if !key.bytes().all(|b| b.is_ascii_digit()) {
                return "bad-request".to_string();
            }
            let Ok(key) = key.parse::<u64>() else { return "bad-request".to_string() };
            let r = catch_unwind(AssertUnwindSafe(|| {
                let db = TestDatabase::default();
                let _ = (e.call)(&db, &a);
                samesig::probe_key(&db, e, &a, key)
            }));
            match r {
                Ok(Some(v)) => format!("found\t{}", v),
                Ok(None) => "missing".to_string(),
                Err(_) => "panic".to_string(),
            }
        }
        _ => "bad-request".to_string(),
    }
}

fn main() {
    let args: Vec<String> = std::env::args().collect();
    if args.get(1).map(|s| s.as_str()) == Some("sigs") {
        sigs();
        return;
    }
    match std::env::var("HX_ENGINE").as_deref() {
        Ok("samesig") | Err(_) => {}
        Ok(other) => {
            eprintln!("hx_memo: unknown engine {}", other);
            std::process::exit(2);
        }
    }
    for e in ENTRIES {
        if own_site(e.qid).is_none() {
            eprintln!("hx_memo: function {} of the samesig engine is not (uniquely) in the T4 scan table", e.qid);
            std::process::exit(3);
        }
    }
    hx_common::main_loop(&gen, &mut run);
}
