//! File module (not inline): exercises T4's `mod x;` resolution.
use super::TestDatabase;
use pico_macros::memo;

#[memo]
pub fn v(db: &TestDatabase, x: u32) -> u32 {
    let _ = db;
    11000 + x
}

pub mod leaf {
    use super::super::TestDatabase;
    use pico_macros::memo;

    /// doc comment before the attribute: line!() is the line of the `#[memo]` itself
    #[allow(dead_code)]
    #[memo]
    pub fn w(
        db: &TestDatabase,
        x: u32,
        y: u32,
    ) -> u32 {
        let _ = db;
        24000 + x + y
    }
}
