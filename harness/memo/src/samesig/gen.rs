// T4-EXCLUDE: the memoized functions of this file are produced by macro_rules!, where a syntactic scan
// cannot place them; they are absent from Gen/MemoSigs.lean and the harness passes their definition
// site (module_path!(), line!(), column!() as seen inside the expansion) in the request instead.
//! One `macro_rules!` invocation that defines the same memoized function in several places (engine
//! `samesig`, property C04).  Inside the expansion `line!()` and `column!()` are those of the
//! invocation, for every generated function alike.
use super::TestDatabase;

/// (a) one invocation, three MODULES: same line and column, different module paths.
macro_rules! gen_mods {
    ($( $m:ident = $v:expr ),*) => {
        $(
            pub mod $m {
                use super::super::TestDatabase;
                use pico_macros::memo;
                pub const SITE: (&str, u32, u32) = (module_path!(), line!(), column!());
                #[memo]
                pub fn f(db: &TestDatabase, x: u32) -> u32 {
                    let _ = db;
                    $v + x
                }
            }
        )*
    };
}
gen_mods!(mg1 = 37000, mg2 = 38000, mg3 = 39000);

pub struct GA;
pub struct GB;

/// (a') one invocation, two impl blocks in ONE module: same module path, line and column.
macro_rules! gen_impls {
    ($( $t:ident = $v:expr ),*) => {
        pub const IMPL_SITE: (&str, u32, u32) = (module_path!(), line!(), column!());
        $(
            impl $t {
                #[pico_macros::memo]
                pub fn m(db: &TestDatabase, x: u32) -> u32 {
                    let _ = db;
                    $v + x
                }
            }
        )*
    };
}
gen_impls!(GA = 40000, GB = 41000);
