// T4-EXCLUDE: this file is not a module; it is include!-d into two modules (samesig/inc.rs), so one
// source position holds two memoized functions.  Its site is passed in the request by the harness.
pub const SITE: (&str, u32, u32) = (module_path!(), line!() + 1, 1);
#[memo]
pub fn f(db: &TestDatabase, x: u32) -> u32 {
    let _ = db;
    BASE + x
}
