//! (b) one file defining a memoized function, pulled into two modules with include!: same file, line
//! and column, different module paths; the constant comes from the including module.
pub mod i1 {
    use super::super::TestDatabase;
    use pico_macros::memo;
    const BASE: u32 = 42000;
    include!("inc_f.rs");
}
pub mod i2 {
    use super::super::TestDatabase;
    use pico_macros::memo;
    const BASE: u32 = 43000;
    include!("inc_f.rs");
}
