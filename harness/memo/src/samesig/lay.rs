//! Layout-controlled functions (engine `samesig`, property C04).  The `#[memo]` attributes of the
//! same-signature functions below stand at chosen lines, all at column 5, so that their site texts
//! `module:line:column` are made of the same bytes in another order (`…:56:5` / `…:65:5`,
//! `…::v4:37:5` / `…::v3:47:5`) or differ only in bytes that occur twice (`:11:` / `:22:` / `:33:`).
//! A key recipe that mixes the site bytes commutatively gives such functions one key.  The guards
//! (`assert!(line!() == N)`) break the build when the layout moves.  Do not reformat this file.
use super::TestDatabase;
use pico_macros::memo;
const _: () = assert!(line!() == 9); pub struct LA;
impl LA {
    #[memo]
    pub fn r(db: &TestDatabase, x: u32) -> u32 { let _ = db; 30000 + x }
}
//
//
//
//
//
//
const _: () = assert!(line!() == 20); pub struct LB;
impl LB {
    #[memo]
    pub fn r(db: &TestDatabase, x: u32) -> u32 { let _ = db; 31000 + x }
}
//
//
//
//
//
//
const _: () = assert!(line!() == 31); pub struct LC;
impl LC {
    #[memo]
    pub fn r(db: &TestDatabase, x: u32) -> u32 { let _ = db; 32000 + x }
}
pub mod v4 { use super::super::TestDatabase; use pico_macros::memo; const _: () = assert!(line!() == 36);
    #[memo]
    pub fn p(db: &TestDatabase, x: u32) -> u32 { let _ = db; 33000 + x }
}
//
//
//
//
//
//
pub mod v3 { use super::super::TestDatabase; use pico_macros::memo; const _: () = assert!(line!() == 46);
    #[memo]
    pub fn p(db: &TestDatabase, x: u32) -> u32 { let _ = db; 34000 + x }
}
//
//
//
//
const _: () = assert!(line!() == 54); pub struct LD;
impl LD {
    #[memo]
    pub fn s(db: &TestDatabase, x: u32) -> u32 { let _ = db; 35000 + x }
}
//
//
//
//
const _: () = assert!(line!() == 63); pub struct LE;
impl LE {
    #[memo]
    pub fn s(db: &TestDatabase, x: u32) -> u32 { let _ = db; 36000 + x }
}
