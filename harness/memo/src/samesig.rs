//! Engine `samesig` (property C04): memoized functions with textually identical signatures, all over
//! ONE database.  Every function returns its own constant plus the sum of its arguments, so a value
//! tells which function's body produced it.
//!
//! The functions are written out one by one (no macro_rules): T4 scans this file with syn exactly as
//! it scans the crates of /repo, and the keys it predicts for these functions are compared with the
//! keys the real macro built (`samesig.key`).
use pico::{DatabaseDyn, DerivedNodeId, Key, Storage};
use pico_macros::{memo, Db};

#[derive(Db, Default)]
pub struct TestDatabase {
    pub storage: Storage<Self>,
}

// ---- pair: free functions without parameters, sibling modules -------------------------------
pub mod a {
    use super::*;
    #[memo]
    pub fn f(db: &TestDatabase) -> u32 {
        let _ = db;
        1000
    }
}
pub mod b {
    use super::*;
    #[memo]
    pub fn f(db: &TestDatabase) -> u32 {
        let _ = db;
        2000
    }
}
// ---- pair: one parameter ---------------------------------------------------------------------
pub mod p1 {
    use super::*;
    #[memo]
    pub fn g(db: &TestDatabase, x: u32) -> u32 {
        let _ = db;
        3000 + x
    }
}
pub mod p2 {
    use super::*;
    #[memo]
    pub fn g(db: &TestDatabase, x: u32) -> u32 {
        let _ = db;
        4000 + x
    }
}
// ---- pair: nested modules whose innermost names coincide -----------------------------------------
pub mod outer1 {
    pub mod inner {
        use super::super::*;
        #[memo]
        pub fn h(db: &TestDatabase) -> u32 {
            let _ = db;
            5000
        }
    }
}
pub mod outer2 {
    pub mod inner {
        use super::super::*;
        #[memo]
        pub fn h(db: &TestDatabase) -> u32 {
            let _ = db;
            6000
        }
    }
}
// ---- triple: two parameters ----------------------------------------------------------------
pub mod t1 {
    use super::*;
    #[memo]
    pub fn k(db: &TestDatabase, x: u32, y: u32) -> u32 {
        let _ = db;
        7000 + x + y
    }
}
pub mod t2 {
    use super::*;
    #[memo]
    pub fn k(db: &TestDatabase, x: u32, y: u32) -> u32 {
        let _ = db;
        8000 + x + y
    }
}
pub mod t3 {
    use super::*;
    #[memo]
    pub fn k(db: &TestDatabase, x: u32, y: u32) -> u32 {
        let _ = db;
        9000 + x + y
    }
}
// ---- pair: file modules (fm1.rs / fm2.rs), each with an inline child ---------------------------
pub mod fm1;
pub mod fm2;
// ---- control: same name, different signature -------------------------------------------------
pub mod d1 {
    use super::*;
    #[memo]
    pub fn q(db: &TestDatabase, x: u32) -> u32 {
        let _ = db;
        12000 + x
    }
}
pub mod d2 {
    use super::*;
    #[memo]
    pub fn q(db: &TestDatabase, x: u64) -> u32 {
        let _ = db;
        13000 + x as u32
    }
}
// ---- control: unique names -------------------------------------------------------------------
#[memo]
pub fn solo_a(db: &TestDatabase) -> u32 {
    let _ = db;
    14000
}
#[memo]
pub fn solo_b(db: &TestDatabase, x: u32) -> u32 {
    let _ = db;
    15000 + x
}
// ---- pair: associated functions of two types in ONE module ---------------------------------------
pub mod assoc {
    use super::*;
    pub struct A;
    pub struct B;
    impl A {
        #[memo]
        pub fn m(db: &TestDatabase, x: u32) -> u32 {
            let _ = db;
            16000 + x
        }
    }
    impl B {
        #[memo]
        pub fn m(db: &TestDatabase, x: u32) -> u32 {
            let _ = db;
            17000 + x
        }
    }
}
// ---- pair: functions local to two function bodies in ONE module -------------------------------
pub mod local {
    use super::*;
    pub fn via1(db: &TestDatabase, x: u32) -> u32 {
        #[memo]
        fn l(db: &TestDatabase, x: u32) -> u32 {
            let _ = db;
            18000 + x
        }
        *l(db, x)
    }
    pub fn via2(db: &TestDatabase, x: u32) -> u32 {
        #[memo]
        fn l(db: &TestDatabase, x: u32) -> u32 {
            let _ = db;
            19000 + x
        }
        *l(db, x)
    }
}
// ---- pair: `a::f` again one level deeper (module paths `…::a` and `…::nest::a`) ----------------
pub mod nest {
    pub mod a {
        use super::super::*;
        #[memo]
        pub fn f(db: &TestDatabase) -> u32 {
            let _ = db;
            20000
        }
    }
}
// ---- pair: two functions on one source line (same line!(), different column!()) -----------------
#[rustfmt::skip]
pub mod l1 { use super::*; #[memo] pub fn z(db: &TestDatabase) -> u32 { let _ = db; 21000 } } pub mod l2 { use super::*; #[memo] pub fn z(db: &TestDatabase) -> u32 { let _ = db; 22000 } }

// ---- layout-controlled sites: permuted / doubled bytes in `module:line:column` (lay.rs) --------
pub mod lay;
// ---- one macro_rules! invocation defining the function in several places (gen.rs) --------------
pub mod gen;
// ---- one include!-d file defining the function in two modules (inc.rs + inc_f.rs) --------------
pub mod inc;

/// How a parameter is turned into a `ParamId` by the macro (`ArgType::Other`, owned): the harness
/// rebuilds the parameter list to probe a predicted key.
#[derive(Clone, Copy)]
pub enum Arg {
    U32,
    U64,
}

#[derive(Clone, Copy)]
pub struct Entry {
    /// module path :: container :: name, as T4 prints it; for a function T4 cannot place (macro
    /// generated, include!-d) `~sigtag~arity~module_path~line~column~label`, built at run time from
    /// what module_path!() / line!() / column!() are inside the expansion
    pub qid: &'static str,
    pub base: u32,
    pub args: &'static [Arg],
    pub call: fn(&TestDatabase, &[u32]) -> u32,
    /// index of the collision family (functions whose signature text is identical)
    pub family: usize,
}

pub const ENTRIES: &[Entry] = &[
    Entry { qid: "hx_memo::samesig::a::f", base: 1000, args: &[], call: |db, _| *a::f(db), family: 0 },
    Entry { qid: "hx_memo::samesig::b::f", base: 2000, args: &[], call: |db, _| *b::f(db), family: 0 },
    Entry { qid: "hx_memo::samesig::nest::a::f", base: 20000, args: &[], call: |db, _| *nest::a::f(db), family: 0 },
    Entry { qid: "hx_memo::samesig::p1::g", base: 3000, args: &[Arg::U32], call: |db, x| *p1::g(db, x[0]), family: 1 },
    Entry { qid: "hx_memo::samesig::p2::g", base: 4000, args: &[Arg::U32], call: |db, x| *p2::g(db, x[0]), family: 1 },
    Entry { qid: "hx_memo::samesig::outer1::inner::h", base: 5000, args: &[], call: |db, _| *outer1::inner::h(db), family: 2 },
    Entry { qid: "hx_memo::samesig::outer2::inner::h", base: 6000, args: &[], call: |db, _| *outer2::inner::h(db), family: 2 },
    Entry { qid: "hx_memo::samesig::t1::k", base: 7000, args: &[Arg::U32, Arg::U32], call: |db, x| *t1::k(db, x[0], x[1]), family: 3 },
    Entry { qid: "hx_memo::samesig::t2::k", base: 8000, args: &[Arg::U32, Arg::U32], call: |db, x| *t2::k(db, x[0], x[1]), family: 3 },
    Entry { qid: "hx_memo::samesig::t3::k", base: 9000, args: &[Arg::U32, Arg::U32], call: |db, x| *t3::k(db, x[0], x[1]), family: 3 },
    Entry { qid: "hx_memo::samesig::fm1::v", base: 10000, args: &[Arg::U32], call: |db, x| *fm1::v(db, x[0]), family: 4 },
    Entry { qid: "hx_memo::samesig::fm2::v", base: 11000, args: &[Arg::U32], call: |db, x| *fm2::v(db, x[0]), family: 4 },
    Entry { qid: "hx_memo::samesig::fm1::leaf::w", base: 23000, args: &[Arg::U32, Arg::U32], call: |db, x| *fm1::leaf::w(db, x[0], x[1]), family: 5 },
    Entry { qid: "hx_memo::samesig::fm2::leaf::w", base: 24000, args: &[Arg::U32, Arg::U32], call: |db, x| *fm2::leaf::w(db, x[0], x[1]), family: 5 },
    Entry { qid: "hx_memo::samesig::d1::q", base: 12000, args: &[Arg::U32], call: |db, x| *d1::q(db, x[0]), family: 6 },
    Entry { qid: "hx_memo::samesig::d2::q", base: 13000, args: &[Arg::U64], call: |db, x| *d2::q(db, x[0] as u64), family: 6 },
    Entry { qid: "hx_memo::samesig::solo_a", base: 14000, args: &[], call: |db, _| *solo_a(db), family: 7 },
    Entry { qid: "hx_memo::samesig::solo_b", base: 15000, args: &[Arg::U32], call: |db, x| *solo_b(db, x[0]), family: 7 },
    Entry { qid: "hx_memo::samesig::assoc::{impl#A}::m", base: 16000, args: &[Arg::U32], call: |db, x| *assoc::A::m(db, x[0]), family: 8 },
    Entry { qid: "hx_memo::samesig::assoc::{impl#B}::m", base: 17000, args: &[Arg::U32], call: |db, x| *assoc::B::m(db, x[0]), family: 8 },
    Entry { qid: "hx_memo::samesig::local::{fn#via1}::l", base: 18000, args: &[Arg::U32], call: |db, x| local::via1(db, x[0]), family: 9 },
    Entry { qid: "hx_memo::samesig::local::{fn#via2}::l", base: 19000, args: &[Arg::U32], call: |db, x| local::via2(db, x[0]), family: 9 },
    Entry { qid: "hx_memo::samesig::l1::z", base: 21000, args: &[], call: |db, _| *l1::z(db), family: 10 },
    Entry { qid: "hx_memo::samesig::l2::z", base: 22000, args: &[], call: |db, _| *l2::z(db), family: 10 },
    Entry { qid: "hx_memo::samesig::lay::{impl#LA}::r", base: 30000, args: &[Arg::U32], call: |db, x| *lay::LA::r(db, x[0]), family: 11 },
    Entry { qid: "hx_memo::samesig::lay::{impl#LB}::r", base: 31000, args: &[Arg::U32], call: |db, x| *lay::LB::r(db, x[0]), family: 11 },
    Entry { qid: "hx_memo::samesig::lay::{impl#LC}::r", base: 32000, args: &[Arg::U32], call: |db, x| *lay::LC::r(db, x[0]), family: 11 },
    Entry { qid: "hx_memo::samesig::lay::v4::p", base: 33000, args: &[Arg::U32], call: |db, x| *lay::v4::p(db, x[0]), family: 12 },
    Entry { qid: "hx_memo::samesig::lay::v3::p", base: 34000, args: &[Arg::U32], call: |db, x| *lay::v3::p(db, x[0]), family: 12 },
    Entry { qid: "hx_memo::samesig::lay::{impl#LD}::s", base: 35000, args: &[Arg::U32], call: |db, x| *lay::LD::s(db, x[0]), family: 13 },
    Entry { qid: "hx_memo::samesig::lay::{impl#LE}::s", base: 36000, args: &[Arg::U32], call: |db, x| *lay::LE::s(db, x[0]), family: 13 },
];

pub const FAMILIES: usize = 17;

fn dyn_qid(sigtag: &str, arity: usize, site: (&str, u32, u32), label: &str) -> &'static str {
    Box::leak(format!("~{}~{}~{}~{}~{}~{}", sigtag, arity, site.0, site.1, site.2, label).into_boxed_str())
}

/// every function of the engine: the table above plus the functions whose site is only known at run time
pub fn entries() -> &'static [Entry] {
    static ALL: std::sync::OnceLock<Vec<Entry>> = std::sync::OnceLock::new();
    ALL.get_or_init(|| {
        let mut v: Vec<Entry> = ENTRIES.to_vec();
        let one: &'static [Arg] = &[Arg::U32];
        v.push(Entry { qid: dyn_qid("gen_f", 1, gen::mg1::SITE, "mg1"), base: 37000, args: one, call: |db, x| *gen::mg1::f(db, x[0]), family: 14 });
        v.push(Entry { qid: dyn_qid("gen_f", 1, gen::mg2::SITE, "mg2"), base: 38000, args: one, call: |db, x| *gen::mg2::f(db, x[0]), family: 14 });
        v.push(Entry { qid: dyn_qid("gen_f", 1, gen::mg3::SITE, "mg3"), base: 39000, args: one, call: |db, x| *gen::mg3::f(db, x[0]), family: 14 });
        v.push(Entry { qid: dyn_qid("gen_m", 1, gen::IMPL_SITE, "GA"), base: 40000, args: one, call: |db, x| *gen::GA::m(db, x[0]), family: 15 });
        v.push(Entry { qid: dyn_qid("gen_m", 1, gen::IMPL_SITE, "GB"), base: 41000, args: one, call: |db, x| *gen::GB::m(db, x[0]), family: 15 });
        v.push(Entry { qid: dyn_qid("inc_f", 1, inc::i1::SITE, "i1"), base: 42000, args: one, call: |db, x| *inc::i1::f(db, x[0]), family: 16 });
        v.push(Entry { qid: dyn_qid("inc_f", 1, inc::i2::SITE, "i2"), base: 43000, args: one, call: |db, x| *inc::i2::f(db, x[0]), family: 16 });
        v
    })
}

pub fn entry(qid: &str) -> Option<&'static Entry> {
    entries().iter().find(|e| e.qid == qid)
}

/// Is a node with this function key (and these arguments) present, and what does it hold?
pub fn probe_key(db: &TestDatabase, e: &Entry, args: &[u32], key: u64) -> Option<u32> {
    let mut params = pico::macro_fns::init_param_vec();
    for (a, x) in e.args.iter().zip(args.iter()) {
        match a {
            Arg::U32 => params.push(pico::macro_fns::intern_owned_param(db, *x)),
            Arg::U64 => params.push(pico::macro_fns::intern_owned_param(db, *x as u64)),
        }
    }
    let id = DerivedNodeId::new(Key::from(key), params);
    let (value, _) = db.get_storage_dyn().get_derived_node_value_and_revision(id)?;
    value.downcast_ref::<u32>().copied()
}
