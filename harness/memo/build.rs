//! Re-expand `hx_memo_probe::scan!()` whenever a source file it reads has changed: the stamp file
//! below is `include_str!`-ed by main.rs, so a changed digest recompiles the crate.
use std::hash::{DefaultHasher, Hash, Hasher};
use std::path::Path;

fn visit(dir: &Path, h: &mut DefaultHasher, n: &mut usize) {
    let Ok(rd) = std::fs::read_dir(dir) else { return };
    let mut es: Vec<_> = rd.filter_map(|e| e.ok()).map(|e| e.path()).collect();
    es.sort();
    for p in es {
        let name = p.file_name().unwrap().to_string_lossy().to_string();
        if p.is_dir() {
            if name != "target" && !name.starts_with('.') {
                visit(&p, h, n);
            }
        } else if name.ends_with(".rs") || name == "Cargo.toml" {
            p.display().to_string().hash(h);
            std::fs::read(&p).unwrap_or_default().hash(h);
            *n += 1;
        }
    }
}

fn main() {
    let mut h = DefaultHasher::new();
    let mut n = 0;
    visit(Path::new("/repo/crates"), &mut h, &mut n);
    let out = std::env::var("OUT_DIR").unwrap();
    let stamp = format!("{} files, digest {:016x}\n", n, h.finish());
    let path = Path::new(&out).join("scan_stamp.txt");
    if std::fs::read_to_string(&path).ok().as_deref() != Some(&stamp) {
        std::fs::write(&path, stamp).unwrap();
    }
    println!("cargo:rerun-if-changed=/repo/crates");
    println!("cargo:rerun-if-changed=build.rs");
}
