//! Proc-macro half of translator T4 (`#[memo]` sites of the workspace).
//!
//! `scan!()` expands, at the time `hx_memo` is compiled, to a `&[Site]` literal listing every
//! `#[memo]` function reachable from a target root of every crate under `/repo/crates` (and of
//! `hx_memo` itself), with
//!   * the module path as `module_path!()` prints it there (crate name + `mod` nesting),
//!   * line / column of the `#` of the `#[memo]` attribute (= `line!()` / `column!()` in the
//!     macro's output, whose tokens carry the call-site span),
//!   * the exact string `sig.to_token_stream().to_string()` the macro hashes -- every file is lexed
//!     with the compiler's lexer (`proc_macro::TokenStream::from_str`), parsed with the same `syn`
//!     and printed by rustc's token printer, exactly as inside `pico_macros::memo`,
//!   * `DefaultHasher` of that string (= `fn_hash` in memo_macro.rs).
//! Locations come from a second parse of the same text with proc_macro2's fallback lexer
//! (compiler spans of `from_str` tokens carry no position); both parses are walked by the same
//! visitor and must agree item by item.
//!
//! Anything not understood is a `compile_error!` (=> the harness does not build => the tie is
//! reported broken), never a silent skip.
use std::collections::BTreeSet;
use std::hash::{DefaultHasher, Hash, Hasher};
use std::path::{Path, PathBuf};
use std::str::FromStr;

use proc_macro::TokenStream;
use quote::{quote, ToTokens};
use syn::visit::Visit;

const REPO_CRATES: &str = "/repo/crates";

#[derive(Clone, Debug)]
struct Found {
    mods: Vec<String>,      // inline module nesting inside the file
    container: Vec<String>, // enclosing impl blocks / functions / traits
    name: String,
    line: usize,
    col: usize, // 1-based, in chars (as column!())
    sig: String,
    sig_hash: u64,
    arity: usize,
    db_type: String,
    db_type_local: bool, // a struct of that name is defined in the same module
    args: String,        // attribute arguments, e.g. "raw"
    other_attrs: Vec<String>,
    cfgs: Vec<String>,
}

#[derive(Clone, Debug)]
struct ModDecl {
    mods: Vec<String>, // inline nesting at the declaration
    name: String,
    cfgs: Vec<String>,
    has_path_attr: bool,
}

struct Collector {
    mods: Vec<String>,
    container: Vec<String>,
    cfgs: Vec<String>,
    found: Vec<Found>,
    decls: Vec<ModDecl>,
    structs: Vec<(Vec<String>, String)>,
    errors: Vec<String>,
}

fn attr_name(a: &syn::Attribute) -> String {
    a.path().segments.iter().map(|s| s.ident.to_string()).collect::<Vec<_>>().join("::")
}

fn is_memo(a: &syn::Attribute) -> bool {
    a.path().segments.last().map(|s| s.ident == "memo").unwrap_or(false)
}

fn cfgs_of(attrs: &[syn::Attribute]) -> Vec<String> {
    attrs
        .iter()
        .filter(|a| {
            let n = attr_name(a);
            n == "cfg" || n == "cfg_attr"
        })
        .map(|a| a.to_token_stream().to_string())
        .collect()
}

fn type_last_ident(ty: &syn::Type) -> String {
    let inner = match ty {
        syn::Type::Reference(r) => &*r.elem,
        t => t,
    };
    match inner {
        syn::Type::Path(p) => p.path.segments.last().map(|s| s.ident.to_string()).unwrap_or_default(),
        _ => String::new(),
    }
}

impl Collector {
    fn new() -> Self {
        Collector { mods: vec![], container: vec![], cfgs: vec![], found: vec![], decls: vec![], structs: vec![], errors: vec![] }
    }

    fn on_fn(&mut self, attrs: &[syn::Attribute], sig: &syn::Signature) {
        let memos: Vec<&syn::Attribute> = attrs.iter().filter(|a| is_memo(a)).collect();
        for a in attrs {
            if attr_name(a) == "cfg_attr" && a.to_token_stream().to_string().contains("memo") {
                self.errors.push(format!("fn {}: #[memo] under cfg_attr is not understood", sig.ident));
            }
        }
        if memos.is_empty() {
            return;
        }
        if memos.len() > 1 {
            self.errors.push(format!("fn {}: several #[memo] attributes", sig.ident));
        }
        let a = memos[0];
        let args = match &a.meta {
            syn::Meta::Path(_) => String::new(),
            syn::Meta::List(l) => l.tokens.to_string(),
            syn::Meta::NameValue(_) => {
                self.errors.push(format!("fn {}: #[memo = ..] is not understood", sig.ident));
                String::new()
            }
        };
        let start = a.pound_token.span.start();
        let s = sig.to_token_stream().to_string();
        let mut h = DefaultHasher::new();
        s.hash(&mut h);
        let db_type = match sig.inputs.first() {
            Some(syn::FnArg::Typed(pt)) => type_last_ident(&pt.ty),
            _ => String::new(),
        };
        let mut cfgs = self.cfgs.clone();
        cfgs.extend(cfgs_of(attrs));
        self.found.push(Found {
            mods: self.mods.clone(),
            container: self.container.clone(),
            name: sig.ident.to_string(),
            line: start.line,
            col: start.column + 1,
            sig: s,
            sig_hash: h.finish(),
            arity: sig.inputs.len().saturating_sub(1),
            db_type,
            db_type_local: false,
            args,
            other_attrs: attrs.iter().filter(|x| !is_memo(x)).map(attr_name).collect(),
            cfgs,
        });
    }
}

impl<'ast> Visit<'ast> for Collector {
    fn visit_item_mod(&mut self, m: &'ast syn::ItemMod) {
        let cf = cfgs_of(&m.attrs);
        match &m.content {
            None => {
                let mut cfgs = self.cfgs.clone();
                cfgs.extend(cf);
                if !self.container.is_empty() {
                    self.errors.push(format!("`mod {};` inside a function body is not understood", m.ident));
                }
                self.decls.push(ModDecl {
                    mods: self.mods.clone(),
                    name: m.ident.to_string(),
                    cfgs,
                    has_path_attr: m.attrs.iter().any(|a| attr_name(a) == "path"),
                });
            }
            Some(_) => {
                if !self.container.is_empty() {
                    // a module inside a function body: module_path!() does include it
                }
                let n = cf.len();
                self.cfgs.extend(cf);
                self.mods.push(m.ident.to_string());
                syn::visit::visit_item_mod(self, m);
                self.mods.pop();
                let l = self.cfgs.len();
                self.cfgs.truncate(l - n);
            }
        }
    }
    fn visit_item_struct(&mut self, s: &'ast syn::ItemStruct) {
        if self.container.is_empty() {
            self.structs.push((self.mods.clone(), s.ident.to_string()));
        }
        syn::visit::visit_item_struct(self, s);
    }
    fn visit_item_fn(&mut self, f: &'ast syn::ItemFn) {
        self.on_fn(&f.attrs, &f.sig);
        self.container.push(format!("{{fn#{}}}", f.sig.ident));
        syn::visit::visit_item_fn(self, f);
        self.container.pop();
    }
    fn visit_impl_item_fn(&mut self, f: &'ast syn::ImplItemFn) {
        self.on_fn(&f.attrs, &f.sig);
        self.container.push(format!("{{fn#{}}}", f.sig.ident));
        syn::visit::visit_impl_item_fn(self, f);
        self.container.pop();
    }
    fn visit_trait_item_fn(&mut self, f: &'ast syn::TraitItemFn) {
        self.on_fn(&f.attrs, &f.sig);
        self.container.push(format!("{{fn#{}}}", f.sig.ident));
        syn::visit::visit_trait_item_fn(self, f);
        self.container.pop();
    }
    fn visit_item_impl(&mut self, i: &'ast syn::ItemImpl) {
        let ty: String = i.self_ty.to_token_stream().to_string().chars().filter(|c| !c.is_whitespace()).collect();
        let tr = match &i.trait_ {
            Some((_, p, _)) => {
                let t: String = p.to_token_stream().to_string().chars().filter(|c| !c.is_whitespace()).collect();
                format!("{}#for#", t)
            }
            None => String::new(),
        };
        self.container.push(format!("{{impl#{}{}}}", tr, ty));
        syn::visit::visit_item_impl(self, i);
        self.container.pop();
    }
    fn visit_item_trait(&mut self, t: &'ast syn::ItemTrait) {
        self.container.push(format!("{{trait#{}}}", t.ident));
        syn::visit::visit_item_trait(self, t);
        self.container.pop();
    }
}

/// Textual occurrences of a memo attribute (lines that begin with `#[memo` after indentation, or
/// contain `#[memo]` / `#[memo(` / `::memo]` outside a `//` comment).  Compared with what the
/// parse found, so that sites hidden inside `macro_rules!` bodies or macro invocations are not
/// silently missed.
fn textual_memo_count(text: &str) -> usize {
    let mut n = 0;
    for line in text.lines() {
        let code = match line.find("//") {
            Some(i) => &line[..i],
            None => line,
        };
        n += code.matches("#[memo]").count() + code.matches("#[memo(").count() + code.matches("::memo]").count();
    }
    n
}

/// A source file of the harness itself (never one of /repo) may opt out of the table with a comment
/// `T4-EXCLUDE: <reason>`: the engine then passes the sites of its functions in the requests.
fn excluded_by_marker(path: &Path, text: &str) -> bool {
    match std::env::var("CARGO_MANIFEST_DIR") {
        Ok(own) => path.starts_with(&own) && text.contains("T4-EXCLUDE:"),
        Err(_) => false,
    }
}

struct FileScan {
    found: Vec<Found>,
    decls: Vec<ModDecl>,
    textual: usize,
}

fn scan_file(path: &Path) -> Result<FileScan, String> {
    let text = std::fs::read_to_string(path).map_err(|e| format!("cannot read {}: {}", path.display(), e))?;
    // 1. compiler lexer + rustc token printer: the strings the real macro sees
    let ts = proc_macro::TokenStream::from_str(&text).map_err(|e| format!("{}: lex error: {}", path.display(), e))?;
    let ast_c: syn::File = syn::parse(ts).map_err(|e| format!("{}: syn cannot parse: {}", path.display(), e))?;
    let mut c = Collector::new();
    c.visit_file(&ast_c);
    // 2. fallback lexer: source locations
    proc_macro2::fallback::force();
    let ast_f = syn::parse_file(&text);
    let mut f = Collector::new();
    if let Ok(ast_f) = &ast_f {
        f.visit_file(ast_f);
    }
    proc_macro2::fallback::unforce();
    if let Err(e) = ast_f {
        return Err(format!("{}: syn (fallback lexer) cannot parse: {}", path.display(), e));
    }
    if !c.errors.is_empty() {
        return Err(format!("{}: {}", path.display(), c.errors.join("; ")));
    }
    if c.found.len() != f.found.len() {
        return Err(format!("{}: the two parses disagree on the number of #[memo] items", path.display()));
    }
    let mut found = vec![];
    for (x, y) in c.found.iter().zip(f.found.iter()) {
        if x.name != y.name || x.mods != y.mods || x.container != y.container {
            return Err(format!("{}: the two parses disagree on item {}", path.display(), x.name));
        }
        if y.line == 0 {
            return Err(format!("{}: no source location for #[memo] fn {}", path.display(), x.name));
        }
        let mut z = x.clone();
        z.line = y.line;
        z.col = y.col;
        z.db_type_local = c.structs.iter().any(|(m, n)| *m == z.mods && *n == z.db_type);
        found.push(z);
    }
    let textual = textual_memo_count(&text);
    if excluded_by_marker(path, &text) {
        // stated exclusion (files of the harness only): no site of this file enters the table
        return Ok(FileScan { found: vec![], decls: c.decls, textual });
    }
    if textual != found.len() {
        return Err(format!(
            "{}: {} textual #[memo] attribute(s) but {} parsed #[memo] function(s) (a site inside a macro body or an unusual attribute form?)",
            path.display(), textual, found.len()
        ));
    }
    Ok(FileScan { found, decls: c.decls, textual })
}

struct Site {
    krate: String,
    kind: String,
    root: String,
    file: String,
    f: Found,
    module_path: String,
}

struct Scan {
    sites: Vec<Site>,
    reached: BTreeSet<PathBuf>,
    errors: Vec<String>,
}

/// `mod_rs_like`: the file is a crate root or a `mod.rs` (its children live next to it); otherwise
/// children of `foo.rs` live in `foo/`.
fn walk(scan: &mut Scan, krate: &str, kind: &str, root: &Path, file: &Path, mod_rs_like: bool, mod_path: Vec<String>, inherited_cfgs: Vec<String>) {
    scan.reached.insert(file.to_path_buf());
    let fs = match scan_file(file) {
        Ok(x) => x,
        Err(e) => {
            scan.errors.push(e);
            return;
        }
    };
    let _ = fs.textual;
    for mut f in fs.found {
        let mut mp = mod_path.clone();
        mp.extend(f.mods.iter().cloned());
        let mut cf = inherited_cfgs.clone();
        cf.extend(f.cfgs.iter().cloned());
        f.cfgs = cf;
        scan.sites.push(Site {
            krate: krate.to_string(),
            kind: kind.to_string(),
            root: root.display().to_string(),
            file: file.display().to_string(),
            module_path: mp.join("::"),
            f,
        });
    }
    let base: PathBuf = if mod_rs_like {
        file.parent().unwrap().to_path_buf()
    } else {
        file.parent().unwrap().join(file.file_stem().unwrap())
    };
    for d in fs.decls {
        if d.has_path_attr {
            scan.errors.push(format!("{}: `#[path] mod {}` is not understood", file.display(), d.name));
            continue;
        }
        let mut dir = base.clone();
        for m in &d.mods {
            dir = dir.join(m);
        }
        let name = d.name.strip_prefix("r#").unwrap_or(&d.name).to_string();
        let a = dir.join(format!("{}.rs", name));
        let b = dir.join(&name).join("mod.rs");
        let (child, child_mod_rs) = match (a.is_file(), b.is_file()) {
            (true, false) => (a, false),
            (false, true) => (b, true),
            (true, true) => {
                scan.errors.push(format!("{}: both {} and {} exist", file.display(), a.display(), b.display()));
                continue;
            }
            (false, false) => {
                if d.cfgs.is_empty() {
                    scan.errors.push(format!("{}: file of `mod {}` not found", file.display(), d.name));
                }
                continue;
            }
        };
        let mut mp = mod_path.clone();
        mp.extend(d.mods.iter().cloned());
        mp.push(d.name.clone());
        let mut cf = inherited_cfgs.clone();
        cf.extend(d.cfgs.iter().cloned());
        walk(scan, krate, kind, root, &child, child_mod_rs, mp, cf);
    }
}

/// Minimal reader for the manifests of this workspace: `[section]` headers and `key = "string"`.
fn manifest(path: &Path) -> Result<Vec<(String, Vec<(String, String)>)>, String> {
    let text = std::fs::read_to_string(path).map_err(|e| format!("cannot read {}: {}", path.display(), e))?;
    let mut out: Vec<(String, Vec<(String, String)>)> = vec![(String::new(), vec![])];
    for line in text.lines() {
        let l = line.trim();
        if l.starts_with('[') && l.ends_with(']') {
            out.push((l.to_string(), vec![]));
        } else if let Some((k, v)) = l.split_once('=') {
            out.last_mut().unwrap().1.push((k.trim().to_string(), v.trim().trim_matches('"').to_string()));
        }
    }
    Ok(out)
}

fn rs_files(dir: &Path, out: &mut Vec<PathBuf>) {
    if let Ok(rd) = std::fs::read_dir(dir) {
        let mut es: Vec<PathBuf> = rd.filter_map(|e| e.ok()).map(|e| e.path()).collect();
        es.sort();
        for p in es {
            if p.is_dir() {
                rs_files(&p, out);
            } else if p.extension().map(|e| e == "rs").unwrap_or(false) {
                out.push(p);
            }
        }
    }
}

fn scan_crate(scan: &mut Scan, dir: &Path) {
    let man = match manifest(&dir.join("Cargo.toml")) {
        Ok(m) => m,
        Err(e) => {
            scan.errors.push(e);
            return;
        }
    };
    let get = |sec: &str, key: &str| -> Option<String> {
        man.iter().filter(|(s, _)| s == sec).flat_map(|(_, kv)| kv.iter()).find(|(k, _)| k == key).map(|(_, v)| v.clone())
    };
    let pkg = match get("[package]", "name") {
        Some(n) => n,
        None => {
            scan.errors.push(format!("{}: no [package] name", dir.display()));
            return;
        }
    };
    for k in ["autobins", "autotests", "autoexamples", "autobenches"] {
        if get("[package]", k).is_some() {
            scan.errors.push(format!("{}: `{}` is not understood", dir.display(), k));
        }
    }
    let lib_name = get("[lib]", "name").unwrap_or_else(|| pkg.replace('-', "_"));
    let lib_path = dir.join(get("[lib]", "path").unwrap_or_else(|| "src/lib.rs".to_string()));
    let mut roots: Vec<(String, String, PathBuf)> = vec![]; // (crate name, kind, root)
    if lib_path.is_file() {
        roots.push((lib_name.clone(), "lib".to_string(), lib_path));
    }
    let mut explicit: BTreeSet<PathBuf> = BTreeSet::new();
    for (sec, kv) in &man {
        let kind = match sec.as_str() {
            "[[bin]]" => "bin",
            "[[test]]" => "test",
            "[[example]]" => "example",
            "[[bench]]" => "bench",
            _ => continue,
        };
        let name = kv.iter().find(|(k, _)| k == "name").map(|(_, v)| v.clone());
        let path = kv.iter().find(|(k, _)| k == "path").map(|(_, v)| v.clone());
        match (name, path) {
            (Some(n), Some(p)) => {
                explicit.insert(dir.join(&p));
                roots.push((n.replace('-', "_"), kind.to_string(), dir.join(p)));
            }
            (Some(_), None) => {} // default location, found below
            _ => scan.errors.push(format!("{}: target section {} without a name", dir.display(), sec)),
        }
    }
    let main = dir.join("src/main.rs");
    if main.is_file() && !explicit.contains(&main) {
        roots.push((pkg.replace('-', "_"), "bin".to_string(), main));
    }
    for (sub, kind) in [("src/bin", "bin"), ("tests", "test"), ("examples", "example"), ("benches", "bench")] {
        if let Ok(rd) = std::fs::read_dir(dir.join(sub)) {
            let mut es: Vec<PathBuf> = rd.filter_map(|e| e.ok()).map(|e| e.path()).collect();
            es.sort();
            for p in es {
                if explicit.contains(&p) {
                    continue;
                }
                if p.is_file() && p.extension().map(|e| e == "rs").unwrap_or(false) {
                    let n = p.file_stem().unwrap().to_string_lossy().replace('-', "_");
                    roots.push((n, kind.to_string(), p));
                } else if p.is_dir() && p.join("main.rs").is_file() {
                    let n = p.file_name().unwrap().to_string_lossy().replace('-', "_");
                    roots.push((n, kind.to_string(), p.join("main.rs")));
                }
            }
        }
    }
    for (name, kind, root) in roots {
        walk(scan, &name, &kind, &root, &root, true, vec![name.clone()], vec![]);
    }
    // every source file that mentions a memo attribute must have been reached from some root
    let mut all = vec![];
    for sub in ["src", "tests", "examples", "benches"] {
        rs_files(&dir.join(sub), &mut all);
    }
    for p in all {
        if !scan.reached.contains(&p) {
            if let Ok(t) = std::fs::read_to_string(&p) {
                if textual_memo_count(&t) > 0 && !excluded_by_marker(&p, &t) {
                    scan.errors.push(format!("{}: contains #[memo] but is not reachable from any target root", p.display()));
                }
            }
        }
    }
}

#[proc_macro]
pub fn scan(_input: TokenStream) -> TokenStream {
    let mut scan = Scan { sites: vec![], reached: BTreeSet::new(), errors: vec![] };
    let mut dirs: Vec<PathBuf> = match std::fs::read_dir(REPO_CRATES) {
        Ok(rd) => rd.filter_map(|e| e.ok()).map(|e| e.path()).filter(|p| p.join("Cargo.toml").is_file()).collect(),
        Err(e) => {
            let m = format!("T4: cannot list {}: {}", REPO_CRATES, e);
            return quote!(compile_error!(#m)).into();
        }
    };
    dirs.sort();
    if dirs.is_empty() {
        let m = format!("T4: no crates under {}", REPO_CRATES);
        return quote!(compile_error!(#m)).into();
    }
    for d in &dirs {
        scan_crate(&mut scan, d);
    }
    // the harness's own same-signature functions (crate hx_memo)
    match std::env::var("CARGO_MANIFEST_DIR") {
        Ok(own) => scan_crate(&mut scan, Path::new(&own)),
        Err(_) => scan.errors.push("CARGO_MANIFEST_DIR not set".to_string()),
    }
    if !scan.errors.is_empty() {
        let m = format!("T4 cannot translate the #[memo] sites: {}", scan.errors.join(" | "));
        return quote!(compile_error!(#m)).into();
    }
    let rows = scan.sites.iter().map(|s| {
        let (krate, kind, root, file, module_path) = (&s.krate, &s.kind, &s.root, &s.file, &s.module_path);
        let container = s.f.container.join("::");
        let (name, sig, sig_hash, db_type, args) = (&s.f.name, &s.f.sig, s.f.sig_hash, &s.f.db_type, &s.f.args);
        let (line, col, arity) = (s.f.line as u32, s.f.col as u32, s.f.arity as u32);
        let db_type_local = s.f.db_type_local;
        let other_attrs = s.f.other_attrs.join(",");
        let cfgs = s.f.cfgs.join(" && ");
        quote! {
            Site { krate: #krate, kind: #kind, root: #root, file: #file, module_path: #module_path,
                   container: #container, name: #name, line: #line, col: #col, sig: #sig, sig_hash: #sig_hash, arity: #arity,
                   db_type: #db_type, db_type_local: #db_type_local, args: #args, other_attrs: #other_attrs, cfgs: #cfgs }
        }
    });
    let nfiles = scan.reached.len();
    quote!( (&[ #(#rows),* ] as &[Site], #nfiles) ).into()
}
