// Runs the runtime's response-key function, cut out of libs/isograph-react/src/core/cache.ts,
// on normalization-AST nodes as the compiler prints them.
//
//   node alias_runtime.mjs <path to cache.ts>
//   stdin : one request per line: hex (UTF-8) of the text `generate_normalization_ast_text` printed
//           (an array literal of nodes)
//   stdout: one answer per line: `ok <hex UTF-8 of getNetworkResponseKey(nodes[0])>` (`-` if empty),
//           `syntax-error` when the text is not a JavaScript expression (strict mode, as in an ES
//           module), `error <hex message>` otherwise.
//
// No TypeScript tooling is available: the function texts are sliced out by scanning for
// `function NAME(` and balancing brackets (string/template/comment aware), and the only type syntax
// inside them — the parameter and return annotations of the signature — is dropped by rebuilding
// the signature from the parameter names.
import fs from 'node:fs';
import vm from 'node:vm';
import readline from 'node:readline';

const src = fs.readFileSync(process.argv[2], 'utf8');

// index just after the bracket matching the one at `open`
function matchBracket(text, open) {
  const pairs = { '(': ')', '{': '}', '[': ']' };
  const stack = [];
  let i = open;
  while (i < text.length) {
    const c = text[i];
    if (c === '/' && text[i + 1] === '/') { while (i < text.length && text[i] !== '\n') i++; continue; }
    if (c === '/' && text[i + 1] === '*') { i = text.indexOf('*/', i + 2) + 2; continue; }
    if (c === "'" || c === '"') {
      i++;
      while (text[i] !== c) { if (text[i] === '\\') i++; i++; }
      i++; continue;
    }
    if (c === '`') {
      i++;
      while (text[i] !== '`') {
        if (text[i] === '\\') { i += 2; continue; }
        if (text[i] === '$' && text[i + 1] === '{') { i = matchBracket(text, i + 1); continue; }
        i++;
      }
      i++; continue;
    }
    if (pairs[c]) stack.push(pairs[c]);
    else if (c === ')' || c === '}' || c === ']') {
      if (stack.pop() !== c) throw new Error('unbalanced at ' + i);
      if (stack.length === 0) return i + 1;
    }
    i++;
  }
  throw new Error('unterminated bracket');
}

// split at top-level commas
function splitTopLevel(text) {
  const parts = []; let depth = 0; let cur = '';
  for (const c of text) {
    if ('([{<'.includes(c)) depth++;
    if (')]}>'.includes(c)) depth--;
    if (c === ',' && depth === 0) { parts.push(cur); cur = ''; } else cur += c;
  }
  if (cur.trim() !== '') parts.push(cur);
  return parts;
}

// `function NAME(params…): Ret { body }` (the implementation, not the overload signatures)
function sliceFunction(name) {
  let from = 0;
  for (;;) {
    const at = src.indexOf('function ' + name + '(', from);
    if (at < 0) throw new Error('function not found: ' + name);
    const open = at + ('function ' + name).length;
    const close = matchBracket(src, open);
    // after the parameter list: a return annotation up to `{` (implementation) or `;` (overload)
    let j = close;
    while (src[j] !== '{' && src[j] !== ';') {
      if (src[j] === '`') { j = src.indexOf('`', j + 1) + 1; continue; }   // template literal types
      j++;
    }
    if (src[j] === ';') { from = j; continue; }
    const bodyEnd = matchBracket(src, j);
    const params = splitTopLevel(src.slice(open + 1, close - 1)).map((p) => {
      const colon = p.indexOf(':');
      return (colon < 0 ? p : p.slice(0, colon)).trim();
    });
    return 'function ' + name + '(' + params.join(', ') + ') ' + src.slice(j, bodyEnd);
  }
}

function sliceConst(name) {
  const at = src.indexOf('const ' + name + ' =');
  if (at < 0) throw new Error('constant not found: ' + name);
  return src.slice(at, src.indexOf(';', at) + 1);
}

const program = [
  sliceConst('FIRST_SPLIT_KEY'), sliceConst('SECOND_SPLIT_KEY'), sliceConst('THIRD_SPLIT_KEY'),
  sliceFunction('getArgumentValueChunk'), sliceFunction('getNetworkResponseKey'),
  'getNetworkResponseKey',
].join('\n');

if (process.argv[3] === '--print') { console.log(program); process.exit(0); }

const getNetworkResponseKey = vm.runInNewContext(program, {});

const rl = readline.createInterface({ input: process.stdin, crlfDelay: Infinity });
rl.on('line', (line) => {
  let answer;
  try {
    const text = line === '-' ? '' : Buffer.from(line, 'hex').toString('utf8');
    let nodes;
    try {
      nodes = vm.runInNewContext('"use strict"; (' + text + ')', {});
    } catch (e) {
      if (e && e.name === 'SyntaxError') { process.stdout.write('syntax-error\n'); return; }
      throw e;
    }
    const key = getNetworkResponseKey(nodes[0]);
    const hex = Buffer.from(String(key), 'utf8').toString('hex');
    answer = 'ok ' + (hex === '' ? '-' : hex);
  } catch (e) {
    answer = 'error ' + Buffer.from(String(e && e.message), 'utf8').toString('hex');
  }
  process.stdout.write(answer + '\n');
});
