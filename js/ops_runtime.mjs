// Runs the runtime's OWN normalize and read functions, cut out of libs/isograph-react/src/core
// (cache.ts, read.ts, util.ts), on generated artifacts evaluated as modules (ops_eval.mjs) — C10, C25.
//
//   node ops_runtime.mjs <dir of core/*.ts>                 coprocess, one JSON request per line
//   node ops_runtime.mjs <dir> --print                      print the sliced program and exit
//
// request  {"op":"read","files":{…},"entry":"Query/Home/entrypoint.ts","variables":{…},"response":{…},
//           "pointers":{"Type/field/resolver_reader.ts":["PossibleType",…]}}
// answer   {"normalize":"ok"|"throw:<msg>",
//           "outcome":"ok"|"missing"|"throw:<msg>", "reason":"<innermost reason>",
//           "componentMissing":["<reason>",…],          // reads made on behalf of @component readers
//           "store":"<canonical dump>", "selected":[[trail, artifact path | entry:<path>],…]}
//
// What is the real code and what is a stand-in:
//   REAL (sliced, type syntax removed): normalizeDataIntoRecord, normalizeScalarField,
//     normalizeLinkedField, normalizeInlineFragment, normalizeNetworkResponseObject, dataIdsAreTheSame,
//     getDataIdOfNetworkResponse, getParentRecordKey, getStoreKeyChunkForArgument(Value),
//     getNetworkResponseKey, getArgumentValueChunk, insertEmptySetIfMissing, stableCopy, readData,
//     readScalarFieldData, readLinkedFieldData, readResolverFieldData, readClientPointerData,
//     readImperativelyLoadedField, readLoadablySelectedFieldData, generateChildVariableMap, isClientPointer.
//   STAND-IN: the store (one base layer: `data[typename][id]`, a record appears when its first field is
//     written, as getOrInsertRecord does), getLink / assertLink (copied by hand, 10 lines), logging (off),
//     getOrCreateCachedComponent (reads the component's reader at once, which is what rendering it does),
//     getOrCreateCachedStartUpdate (unused), user resolvers (return the data they were given; a client pointer's resolver
//     returns the first link of the pointer's target type found in the data it was given, else null),
//     and the three places where read.ts hands back a *function* that would start a refetch
//     (loadable field, client pointer, imperatively loaded field): the function is replaced by a record of
//     the refetch artifact the real code had just selected — the selection itself is the real code.
import fs from 'node:fs';
import path from 'node:path';
import vm from 'node:vm';
import readline from 'node:readline';
import { makeLoader } from './ops_eval.mjs';

const coreDir = process.argv[2];
const SRC = {
  cache: fs.readFileSync(path.join(coreDir, 'cache.ts'), 'utf8'),
  read: fs.readFileSync(path.join(coreDir, 'read.ts'), 'utf8'),
  util: fs.readFileSync(path.join(coreDir, 'util.ts'), 'utf8'),
};

// ---------------------------------------------------------------------------------------------
// slicing
// ---------------------------------------------------------------------------------------------
function matchBracket(text, open) {
  const pairs = { '(': ')', '{': '}', '[': ']' };
  const stack = [];
  let i = open;
  while (i < text.length) {
    const c = text[i];
    if (c === '/' && text[i + 1] === '/') { while (i < text.length && text[i] !== '\n') i++; continue; }
    if (c === '/' && text[i + 1] === '*') { i = text.indexOf('*/', i + 2) + 2; continue; }
    if (c === "'" || c === '"') { i++; while (text[i] !== c) { if (text[i] === '\\') i++; i++; } i++; continue; }
    if (c === '`') {
      i++;
      while (text[i] !== '`') {
        if (text[i] === '\\') { i += 2; continue; }
        if (text[i] === '$' && text[i + 1] === '{') { i = matchBracket(text, i + 1); continue; }
        i++;
      }
      i++; continue;
    }
    if (pairs[c]) stack.push(pairs[c]);
    else if (c === ')' || c === '}' || c === ']') {
      if (stack.pop() !== c) throw new Error('unbalanced at ' + i);
      if (stack.length === 0) return i + 1;
    }
    i++;
  }
  throw new Error('unterminated bracket');
}

// parameter names of a parameter list (top-level commas; `=>` is not a bracket)
function paramNames(text) {
  const parts = []; let depth = 0; let cur = '';
  for (let i = 0; i < text.length; i++) {
    const c = text[i];
    if (c === '=' && text[i + 1] === '>') { cur += '=>'; i++; continue; }
    if ('([{<'.includes(c)) depth++;
    if (')]}>'.includes(c)) depth--;
    if (c === ',' && depth === 0) { parts.push(cur); cur = ''; } else cur += c;
  }
  if (cur.trim() !== '') parts.push(cur);
  return parts.map((p) => {
    const q = p.replace(/\/\/[^\n]*/g, '').trim();
    const m = /^([A-Za-z_$][\w$]*)\??\s*(:|$)/.exec(q);
    if (!m) throw new Error('cannot read parameter: ' + p);
    return m[1];
  });
}

function stripBodyTypes(body) {
  let t = body;
  t = t.replace(/^\s*type \w+<[^>]*> = [^;]*;\s*$/gm, '');                 // local type aliases
  t = t.replace(/\b(const|let) ([A-Za-z_$][\w$]*): [^=;\n]+ = /g, '$1 $2 = '); // annotated locals
  t = t.replace(/ as (any|const)\b/g, '');
  t = t.replace(/ satisfies [A-Za-z]+(<[^>]*>)?/g, '');
  return t;
}

// `function NAME<T>(params): Ret { body }` (the implementation, not overload signatures)
function sliceFunction(src, name) {
  let from = 0;
  for (;;) {
    const m = new RegExp('function ' + name + '\\b').exec(src.slice(from));
    if (!m) throw new Error('function not found: ' + name);
    const at = from + m.index;
    let open = at + ('function ' + name).length;
    if (src[open] === '<') { let d = 0; while (true) { if (src[open] === '<') d++; if (src[open] === '>') { d--; if (d === 0) { open++; break; } } open++; } }
    while (/\s/.test(src[open])) open++;
    if (src[open] !== '(') { from = at + 1; continue; }
    const close = matchBracket(src, open);
    let j = close;
    // return annotation up to the body `{` (object types in the annotation are balanced) or `;` (overload)
    let depth = 0;
    for (;;) {
      const c = src[j];
      if (c === ';' && depth === 0) break;
      if (c === '{' && depth === 0) {
        // a `{` directly after `:` or `|` or `<` or `,` belongs to a type
        const before = src.slice(close, j).trimEnd();
        const last = before[before.length - 1];
        if (last === ':' || last === '|' || last === '<' || last === ',' || last === '&') { j = matchBracket(src, j); continue; }
        break;
      }
      if (c === '<' || c === '(' || c === '[') depth++;
      if ((c === '>' && src[j - 1] !== '=') || c === ')' || c === ']') depth--;
      j++;
    }
    if (src[j] === ';') { from = j; continue; }
    const bodyEnd = matchBracket(src, j);
    const params = paramNames(src.slice(open + 1, close - 1));
    return 'function ' + name + '(' + params.join(', ') + ') ' + stripBodyTypes(src.slice(j, bodyEnd));
  }
}

function sliceConst(src, name) {
  const at = src.search(new RegExp('const ' + name + '\\b[^=]*='));
  if (at < 0) throw new Error('constant not found: ' + name);
  return src.slice(at, src.indexOf(';', at) + 1).replace(/^const (\w+)[^=]*=/, 'const $1 =');
}

// replace the arrow function that follows the LAST `kind: 'Success',\n data: ` by `replacement`
function replaceSuccessClosure(fnText, replacement) {
  const key = /kind: 'Success',\s*data: \(/g;
  let m, last = null;
  while ((m = key.exec(fnText))) last = m;
  if (!last) throw new Error('no Success closure to replace');
  const open = last.index + last[0].length - 1;
  const closeParams = matchBracket(fnText, open);
  let j = closeParams;
  while (fnText.slice(j, j + 2) !== '=>') j++;
  j += 2;
  while (/\s/.test(fnText[j])) j++;
  const end = matchBracket(fnText, j);   // `{…}` or `[…]`
  return fnText.slice(0, open) + replacement + fnText.slice(end);
}

function buildProgram() {
  const c = SRC.cache, r = SRC.read, u = SRC.util;
  const parts = [
    '"use strict";',
    sliceConst(c, 'TYPENAME_FIELD_NAME'), sliceConst(c, 'FIRST_SPLIT_KEY'), sliceConst(c, 'SECOND_SPLIT_KEY'), sliceConst(c, 'THIRD_SPLIT_KEY'),
    "const ROOT_ID = '__ROOT';",
    'const isArray = (v) => Array.isArray(v);',
    sliceFunction(u, 'stableCopy'),
    // --- cache.ts
    ...['normalizeDataIntoRecord', 'insertEmptySetIfMissing', 'normalizeScalarField', 'normalizeLinkedField',
      'normalizeInlineFragment', 'dataIdsAreTheSame', 'normalizeNetworkResponseObject', 'getParentRecordKey',
      'getStoreKeyChunkForArgumentValue', 'getStoreKeyChunkForArgument', 'getNetworkResponseKey',
      'getArgumentValueChunk', 'getDataIdOfNetworkResponse'].map((n) => sliceFunction(c, n)),
    // --- read.ts
    ...['readData', 'filterVariables', 'generateChildVariableMap', 'writeQueryArgsToVariables', 'readResolverFieldData',
      'readScalarFieldData', 'readLinkedFieldData', 'isClientPointer', 'stableStringifyArgs'].map((n) => sliceFunction(r, n)),
    replaceSuccessClosure(sliceFunction(r, 'readLoadablySelectedFieldData'), '{ __selected: __H.entrypointOf(field.entrypoint) }'),
    replaceSuccessClosure(sliceFunction(r, 'readClientPointerData'), '{ __selected: refetchQueryArtifact, __allowed: allowedVariables }'),
    replaceSuccessClosure(sliceFunction(r, 'readImperativelyLoadedField'), '{ __selected: refetchQueryArtifact, __allowed: allowedVariables }'),
    // --- stand-ins (see the header)
    'const logMessage = () => {};',
    'const getLink = (maybeLink) => (!isArray(maybeLink) ? (maybeLink ?? null) : null);',
    "const assertLink = (link) => { if (isArray(link)) throw new Error('Unexpected array'); if (link == null) return link; if (typeof link === 'object') return link; throw new Error('Invalid link'); };",
    'const wrapResolvedValue = (value) => ({ promise: null, result: { kind: "Ok", value } });',
    'const getOrCreateCachedStartUpdate = () => undefined;',
    'const getStoreRecordProxy = (layer, link) => __H.getRecord(layer, link);',
    'const getMutableStoreRecordProxy = (layer, link) => __H.mutableRecord(layer, link);',
    'const getOrCreateCachedComponent = (environment, fragment, options) => __H.component(environment, fragment, options, readData);',
    '({ normalizeDataIntoRecord, readData, getParentRecordKey, getNetworkResponseKey })',
  ];
  return parts.join('\n');
}

const program = buildProgram();
if (process.argv[3] === '--print') { console.log(program); process.exit(0); }

// ---------------------------------------------------------------------------------------------
// host functions
// ---------------------------------------------------------------------------------------------
const H = {
  getRecord(layer, link) {
    const rec = layer.data[link.__typename]?.[link.__link];
    if (rec === undefined) return undefined;
    if (rec == null) return null;
    return rec;
  },
  mutableRecord(layer, link) {
    return new Proxy({}, {
      get(_, p) { const rec = layer.data[link.__typename]?.[link.__link]; return rec == null ? undefined : Reflect.get(rec, p); },
      has(_, p) { const rec = layer.data[link.__typename]?.[link.__link]; return rec == null ? false : Reflect.has(rec, p); },
      set(_, p, v) { const t = (layer.data[link.__typename] ??= {}); const rec = (t[link.__link] ??= {}); return Reflect.set(rec, p, v); },
    });
  },
  componentMissing: [],
  component(environment, fragment, options, readData) {
    const rw = fragment.readerWithRefetchQueries.result.value;
    const data = readData(environment, rw.readerArtifact.readerAst, fragment.root, fragment.variables ?? {},
      rw.nestedRefetchQueries, fragment.networkRequest, options, new Map());
    if (data.kind === 'MissingData') { H.componentMissing.push(innermost(data)); return { __component: true, data: null }; }
    return { __component: true, data: data.data };
  },
  entrypointOf(ep) {
    if (ep && ep.kind === 'EntrypointLoader') return ep.loader();
    return ep;
  },
};

function innermost(r) { while (r.nestedReason) r = r.nestedReason; return r.reason; }

const api = vm.runInNewContext(program, { __H: H, Map, Set, Object, Array, JSON, Reflect, Proxy, Error, String, console });

// ---------------------------------------------------------------------------------------------
// canonical store dump
// ---------------------------------------------------------------------------------------------
const hex = (s) => { const h = Buffer.from(String(s), 'utf8').toString('hex'); return h === '' ? '-' : h; };
function dumpValue(v) {
  if (v === null || v === undefined) return 'n';
  if (typeof v === 'string') return 's' + hex(v);
  if (typeof v === 'number') return 'd' + String(v);
  if (typeof v === 'boolean') return v ? 'b1' : 'b0';
  if (Array.isArray(v)) return '[' + v.map(dumpValue).join(',') + ']';
  if (typeof v === 'object' && typeof v.__link === 'string' && typeof v.__typename === 'string' && Object.keys(v).length === 2) {
    return 'l' + hex(v.__typename) + ':' + hex(v.__link);
  }
  if (typeof v === 'object') return '{' + Object.keys(v).sort().map((k) => hex(k) + '=' + dumpValue(v[k])).join(';') + '}';
  return '?';
}
function dumpStore(data) {
  const out = [];
  for (const t of Object.keys(data).sort()) {
    for (const id of Object.keys(data[t]).sort()) {
      const rec = data[t][id];
      const fields = rec == null ? 'null' : Object.keys(rec).sort().map((k) => hex(k) + '=' + dumpValue(rec[k])).join(';');
      out.push(hex(t) + '/' + hex(id) + '{' + fields + '}');
    }
  }
  return out.join(' ');
}

// ---------------------------------------------------------------------------------------------
// one read
// ---------------------------------------------------------------------------------------------
function firstLink(data, types) {
  if (data == null || typeof data !== 'object') return null;
  if (typeof data.__link === 'string' && typeof data.__typename === 'string') return types.includes(data.__typename) ? { __link: data.__link, __typename: data.__typename } : null;
  if (data.__component || data.__selected !== undefined) return null;
  const items = Array.isArray(data) ? data : Object.keys(data).map((k) => data[k]);
  for (const x of items) { const l = firstLink(x, types); if (l) return l; }
  return null;
}

function collectSelected(data, trail, out, pathOf) {
  if (data == null || typeof data !== 'object') return;
  if (data.__selected !== undefined) {
    const rel = pathOf(data.__selected);
    out.push([trail, rel === undefined ? '!unknown' : (path.posix.basename(rel) === 'entrypoint.ts' ? 'entry:' + rel : rel)]);
    return;
  }
  if (typeof data.__link === 'string' && typeof data.__typename === 'string') return;
  if (data.__component) { collectSelected(data.data, trail, out, pathOf); return; }
  if (Array.isArray(data)) { data.forEach((x, i) => collectSelected(x, trail + '#' + i, out, pathOf)); return; }
  for (const k of Object.keys(data)) collectSelected(data[k], trail + '/' + k, out, pathOf);
}

function opRead(req) {
  const pointers = req.pointers || {};
  const stubFactory = (what, rel) => {
    const types = pointers[rel];
    const f = types
      ? function pointerStub(arg) { return firstLink(arg && arg.data, types); }
      : function userCodeStub(arg) { return arg && arg.data !== undefined ? arg.data : null; };
    f.__stub = what;
    return f;
  };
  const loader = makeLoader(req.files, stubFactory);
  const entry = loader.require(req.entry).default;
  const info = entry.networkRequestInfo;
  let norm = info.normalizationAst;
  if (norm.kind === 'NormalizationAstLoader') norm = norm.loader();
  let rw = entry.readerWithRefetchQueries;
  if (rw.kind === 'ReaderWithRefetchQueriesLoader') rw = rw.loader();
  const store = { kind: 'BaseStoreLayer', data: {}, parentStoreLayer: null, childStoreLayer: null };
  const environment = { store, missingFieldHandler: undefined, subscriptions: new Set(), fragmentCache: {} };
  // normalization always starts at the root record; the read starts at `req.root` when given
  const root = { __link: '__ROOT', __typename: entry.concreteType };
  const readRoot = req.root ?? root;
  const answer = { normalize: 'ok', outcome: 'ok', reason: '', componentMissing: [], store: '', selected: [] };
  H.componentMissing = [];
  try {
    const rec = H.mutableRecord(store, root);
    api.normalizeDataIntoRecord(environment, store, norm.selections, req.response, rec, root, req.variables, new Map());
  } catch (e) {
    answer.normalize = 'throw:' + String(e && e.message);
    answer.store = dumpStore(store.data);
    return answer;
  }
  answer.store = dumpStore(store.data);
  try {
    let artifact = rw.readerArtifact;
    if (typeof artifact === 'function') artifact = artifact();
    const result = api.readData(environment, artifact.readerAst, readRoot, req.variables, rw.nestedRefetchQueries,
      { promise: null, result: { kind: 'Ok', value: undefined } }, { suspendIfInFlight: false, throwOnNetworkError: true }, new Map());
    if (result.kind === 'MissingData') { answer.outcome = 'missing'; answer.reason = innermost(result); }
    else collectSelected(result.data, '', answer.selected, loader.pathOf);
  } catch (e) {
    answer.outcome = 'throw:' + String(e && e.message);
  }
  answer.componentMissing = H.componentMissing.slice();
  return answer;
}

const rl = readline.createInterface({ input: process.stdin, crlfDelay: Infinity });
rl.on('line', (line) => {
  let answer;
  try {
    const req = JSON.parse(line);
    answer = req.op === 'read' ? opRead(req) : { err: 'unknown op' };
  } catch (e) { answer = { err: 'error: ' + String(e && e.stack) }; }
  process.stdout.write(JSON.stringify(answer) + '\n');
});
