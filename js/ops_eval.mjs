// Evaluates generated isograph artifacts as the JavaScript modules they are (ops family: C09, C10, C25).
//
//   node ops_eval.mjs            (coprocess: one JSON request per stdin line, one JSON answer per line)
//
// requests
//   {"op":"values","files":{"<rel path>":"<text>", …}}
//        -> {"values":{"<rel path>":{"ok":"<string>"} | {"err":"syntax-error"|"not-a-string"|"error: …"}}}
//        default export of every module whose name is query_text.ts / __refetch__query_text__N.ts
//   {"op":"graph","files":{…}}
//        -> {"graph":{entrypoints:{…}, refetch:{…}, readers:{…}}}  or {"err":"…"}
//        the artifact tree evaluated as data (every module under the artifact directory; imports of
//        user code are stubs, imports of '@isograph/react' are undefined, type-only syntax removed)
//
// No TypeScript tooling is installed.  The generated files use a small, fixed set of TypeScript-only
// constructs (see artifact_content/src/*_artifact.rs); `stripTypes` removes exactly those and the
// result is compiled as strict-mode JavaScript — anything else is a SyntaxError, reported as such.
import readline from 'node:readline';
import vm from 'node:vm';
import path from 'node:path';
import { pathToFileURL } from 'node:url';

function stripTypes(rel, text) {
  let t = text;
  const base = path.posix.basename(rel);
  if (base === 'refetch_reader.ts') {
    // keep default imports of other artifacts and everything from `const readerAst` on; the fetch
    // function (`resolver`) is not evaluated
    const at = t.indexOf('const readerAst');
    if (at < 0) throw new Error('refetch_reader.ts without readerAst');
    const head = t.slice(0, at).split('\n').filter((l) => /^import \w+ from '\.\.?\//.test(l)).join('\n');
    t = head + '\nconst resolver = undefined;\n' + t.slice(at);
  }
  // `import type … ;`
  t = t.replace(/^import type [^;]*;\s*$/gm, '');
  // arrow function return annotations of the reader artifacts:  `= (): T<\n  …\n> => ({`
  t = t.replace(/= \(\): [A-Za-z]+<\n(?:[^\n]*\n)*?> => \(\{/g, '= () => ({');
  // `const name: Type = ` (the type never contains `=`)
  t = t.replace(/^const (\w+): [^=]*?= /gm, 'const $1 = ');
  return t;
}

// ---------------------------------------------------------------------------------------------
// a tiny module system over the file map
// ---------------------------------------------------------------------------------------------
class SyntaxErr extends Error {}

export function makeLoader(files, stubFactory) {
  const cache = new Map();       // rel -> {default}
  const loading = new Set();
  const pathOfFn = new Map();    // default-export value -> rel (identity of artifacts)

  function resolve(from, spec) {
    let p = path.posix.normalize(path.posix.join(path.posix.dirname(from), spec));
    if (files[p] !== undefined) return p;
    if (files[p + '.ts'] !== undefined) return p + '.ts';
    return null;
  }

  function transform(rel) {
    let t = stripTypes(rel, files[rel]);
    const out = [];
    for (const line of t.split('\n')) {
      let m;
      if ((m = /^import (\w+) from '([^']+)';\s*$/.exec(line))) {
        const [, name, spec] = m;
        if (spec.startsWith('.')) {
          const target = resolve(rel, spec);
          if (target === null) throw new Error(`unresolved import ${spec} in ${rel}`);
          out.push(`const ${name} = __require(${JSON.stringify(target)}).default;`);
        } else out.push(`const ${name} = undefined;`);
        continue;
      }
      if ((m = /^import \{([^}]*)\} from '([^']+)';\s*$/.exec(line))) {
        const [, names, spec] = m;
        const inside = spec.startsWith('.') && resolve(rel, spec) !== null;
        for (const raw of names.split(',')) {
          const n = raw.trim();
          if (n === '' || n.startsWith('type ')) continue;
          const local = n.includes(' as ') ? n.split(' as ')[1].trim() : n;
          if (inside) continue;                         // a type exported by another artifact
          if (spec.startsWith('.')) out.push(`const ${local} = __stub(${JSON.stringify(spec + '#' + n)}, ${JSON.stringify(rel)});`);
          else out.push(`const ${local} = undefined;`);
        }
        continue;
      }
      if (/^import /.test(line)) throw new Error(`unhandled import in ${rel}: ${line}`);
      if ((m = /^export default (.*)$/.exec(line))) { out.push(`__exports.default = ${m[1]}`); continue; }
      if (/^export type /.test(line)) { out.push('// ' + line); continue; }
      out.push(line);
    }
    return out.join('\n').replace(/\bimport\(/g, '__dynimport(');
  }

  function stub(what, rel) {
    if (stubFactory) return stubFactory(what, rel);
    const f = function userCodeStub() { return null; };
    f.__stub = what;
    return f;
  }

  function require_(rel) {
    if (cache.has(rel)) return cache.get(rel);
    if (loading.has(rel)) throw new Error('import cycle at ' + rel);
    loading.add(rel);
    const exports = {};
    const code = '"use strict";\n' + transform(rel);
    let script;
    try {
      script = new vm.Script('(function(__require, __exports, __stub, __dynimport) {' + code + '\n})', { filename: rel });
    } catch (e) {
      loading.delete(rel);
      if (e && e.name === 'SyntaxError') throw new SyntaxErr(rel + ': ' + e.message);
      throw e;
    }
    const dynimport = (spec) => {
      const target = resolve(rel, spec);
      if (target === null) throw new Error(`unresolved dynamic import ${spec} in ${rel}`);
      const mod = require_(target);
      return { then: (f) => f(mod) };               // synchronous stand-in for the promise
    };
    script.runInThisContext()(require_, exports, stub, dynimport);
    loading.delete(rel);
    cache.set(rel, exports);
    if (exports.default !== undefined && (typeof exports.default === 'object' || typeof exports.default === 'function') && exports.default !== null) {
      pathOfFn.set(exports.default, rel);
    }
    return exports;
  }
  return { require: require_, pathOf: (v) => pathOfFn.get(v) };
}

// ---------------------------------------------------------------------------------------------
// values
// ---------------------------------------------------------------------------------------------
function isQueryTextFile(rel) {
  const b = path.posix.basename(rel);
  return b === 'query_text.ts' || /^__refetch__query_text__\d+\.ts$/.test(b);
}

function opValues(files) {
  const values = {};
  for (const rel of Object.keys(files).sort()) {
    if (!isQueryTextFile(rel)) continue;
    const loader = makeLoader(files);
    try {
      const v = loader.require(rel).default;
      values[rel] = typeof v === 'string' ? { ok: v } : { err: 'not-a-string' };
    } catch (e) {
      values[rel] = { err: e instanceof SyntaxErr ? 'syntax-error' : 'error: ' + String(e && e.message) };
    }
  }
  return { values };
}

// ---------------------------------------------------------------------------------------------
// graph
// ---------------------------------------------------------------------------------------------
function argValue(v) {
  switch (v.kind) {
    case 'Variable': return { k: 'var', name: v.name };
    case 'Literal':
      if (v.value === null) return { k: 'null' };
      if (typeof v.value === 'boolean') return { k: 'bool', value: v.value };
      if (typeof v.value === 'number') return { k: 'num', text: String(v.value) };
      throw new Error('literal of type ' + typeof v.value);
    case 'String': return { k: 'str', value: String(v.value) };
    case 'Enum': return { k: 'enum', value: String(v.value) };
    case 'Object': return { k: 'obj', fields: v.value.map(([n, x]) => [n, argValue(x)]) };
    default: throw new Error('argument kind ' + v.kind);
  }
}
const args = (a) => (a == null ? null : a.map(([n, v]) => [n, argValue(v)]));

function normNodes(nodes) {
  return nodes.map((n) => {
    switch (n.kind) {
      case 'Scalar': return { k: 'scalar', fallible: !!n.isFallible, name: n.fieldName, args: args(n.arguments) };
      case 'Linked': return { k: 'linked', fallible: !!n.isFallible, name: n.fieldName, args: args(n.arguments), concrete: n.concreteType ?? null, sel: normNodes(n.selections) };
      case 'InlineFragment': return { k: 'frag', type: n.type, sel: normNodes(n.selections) };
      default: throw new Error('normalization node kind ' + n.kind);
    }
  });
}

function buildGraph(files) {
  const loader = makeLoader(files);
  const readers = {};      // rel -> {kind, fieldName, hasUpdatable, ast, stubResolver}
  const graph = { entrypoints: {}, refetch: {}, readers };

  function readerRef(v, what) {
    // reader artifacts are thunks `() => ({…})`; refetch readers and entrypoints are objects
    const rel = loader.pathOf(v);
    if (rel === undefined) throw new Error('reference to an unknown artifact in ' + what);
    visitReaderModule(rel);
    return rel;
  }

  function readerNodes(nodes, what) {
    return nodes.map((n) => {
      switch (n.kind) {
        case 'Scalar': return { k: 'scalar', name: n.fieldName, alias: n.alias ?? null, args: args(n.arguments), fallible: !!n.isFallible, updatable: !!n.isUpdatable };
        case 'Link': return { k: 'link', alias: n.alias };
        case 'Linked': return {
          k: 'linked', name: n.fieldName, alias: n.alias ?? null, args: args(n.arguments), fallible: !!n.isFallible, updatable: !!n.isUpdatable,
          condition: n.condition == null ? null : readerRef(n.condition, what),
          refetchQueryIndex: n.refetchQueryIndex ?? null, sel: readerNodes(n.selections, what),
        };
        case 'Resolver': return { k: 'resolver', alias: n.alias, args: args(n.arguments), reader: readerRef(n.readerArtifact, what), used: Array.from(n.usedRefetchQueries) };
        case 'ImperativelyLoadedField': return { k: 'imperative', alias: n.alias, name: n.name, refetchReader: readerRef(n.refetchReaderArtifact, what), refetchQueryIndex: n.refetchQueryIndex };
        case 'LoadablySelectedField': {
          let ep;
          if (n.entrypoint && n.entrypoint.kind === 'EntrypointLoader') {
            const loaded = n.entrypoint.loader();
            const rel = loader.pathOf(loaded);
            if (rel === undefined) throw new Error('lazy entrypoint did not resolve in ' + what);
            ep = { lazy: true, typeAndField: n.entrypoint.typeAndField, rel };
          } else {
            const rel = loader.pathOf(n.entrypoint);
            if (rel === undefined) throw new Error('entrypoint reference did not resolve in ' + what);
            ep = { lazy: false, rel };
          }
          visitEntrypoint(ep.rel);
          return { k: 'loadable', alias: n.alias, name: n.name, queryArgs: args(n.queryArguments), refetchAst: readerNodes(n.refetchReaderAst, what), entrypoint: ep };
        }
        default: throw new Error('reader node kind ' + n.kind + ' in ' + what);
      }
    });
  }

  function visitReaderModule(rel) {
    if (readers[rel] !== undefined) return;
    readers[rel] = null;   // cycle guard
    let v = loader.require(rel).default;
    if (typeof v === 'function') v = v();
    const resolverText = typeof v.resolver === 'function' && !v.resolver.__stub ? String(v.resolver) : null;
    readers[rel] = {
      kind: v.kind, fieldName: v.fieldName ?? null, hasUpdatable: !!v.hasUpdatable,
      userResolver: typeof v.resolver === 'function' && v.resolver.__stub ? v.resolver.__stub : null,
      conditionResolver: resolverText,
      ast: readerNodes(v.readerAst, rel),
    };
  }

  function operation(info, what) {
    const op = info.operation;
    let norm = info.normalizationAst;
    if (norm && norm.kind === 'NormalizationAstLoader') norm = norm.loader();
    if (!norm || norm.kind !== 'NormalizationAst') throw new Error('normalizationAst missing in ' + what);
    const out = { normalizationAst: normNodes(norm.selections) };
    if (op.kind === 'Operation') { out.opKind = 'text'; out.text = op.text; }
    else if (op.kind === 'PersistedOperation') { out.opKind = 'persisted'; out.operationId = op.operationId; }
    else throw new Error('operation kind ' + op.kind);
    return out;
  }

  function visitRefetch(rel) {
    if (graph.refetch[rel] !== undefined) return;
    const v = loader.require(rel).default;
    if (v.kind !== 'RefetchQuery') throw new Error(rel + ' is not a RefetchQuery');
    graph.refetch[rel] = { concreteType: v.concreteType, ...operation(v.networkRequestInfo, rel) };
  }

  function visitEntrypoint(rel) {
    if (graph.entrypoints[rel] !== undefined) return;
    graph.entrypoints[rel] = null;
    const v = loader.require(rel).default;
    if (v.kind !== 'Entrypoint') throw new Error(rel + ' is not an Entrypoint');
    let rw = v.readerWithRefetchQueries;
    let lazyReader = false;
    if (rw.kind === 'ReaderWithRefetchQueriesLoader') { rw = rw.loader(); lazyReader = true; }
    const nested = rw.nestedRefetchQueries.map((q) => {
      const r = loader.pathOf(q.artifact);
      if (r === undefined) throw new Error('nested refetch query is not an artifact in ' + rel);
      visitRefetch(r);
      return { artifact: r, allowedVariables: Array.from(q.allowedVariables) };
    });
    graph.entrypoints[rel] = {
      concreteType: v.concreteType, lazyReader, reader: readerRef(rw.readerArtifact, rel), nested,
      ...operation(v.networkRequestInfo, rel),
    };
  }

  for (const rel of Object.keys(files).sort()) {
    const b = path.posix.basename(rel);
    if (b === 'entrypoint.ts') visitEntrypoint(rel);
  }
  for (const rel of Object.keys(files).sort()) {
    const b = path.posix.basename(rel);
    if (b === 'resolver_reader.ts' || b === 'refetch_reader.ts') visitReaderModule(rel);
    if (/^__refetch__\d+\.ts$/.test(b)) visitRefetch(rel);
  }
  return { graph };
}


// ---------------------------------------------------------------------------------------------
// walk: which refetch query does the runtime select for every refetchable selection reachable from
// an entrypoint?  Composes the index lists exactly as read.ts does: readResolverFieldData maps
// `usedRefetchQueries` through the parent's `nestedRefetchQueries`; readImperativelyLoadedField and
// readClientPointerData index the current list with `refetchQueryIndex`; a loadably selected field
// carries its own entrypoint.
// ---------------------------------------------------------------------------------------------
function walkEntry(graph, entryRel) {
  const e = graph.entrypoints[entryRel];
  if (!e) throw new Error('no such entrypoint ' + entryRel);
  const out = [];
  const at = (list, i) => (i >= 0 && i < list.length && list[i] != null ? list[i] : '!missing');
  function nodes(ast, nested, trail, depth) {
    if (depth > 64) throw new Error('reader chain too deep');
    for (const n of ast) {
      switch (n.k) {
        case 'linked': {
          const t = trail + '/' + (n.alias ?? n.name);
          if (n.refetchQueryIndex != null) out.push([t, at(nested, n.refetchQueryIndex)]);
          nodes(n.sel, nested, t, depth + 1);
          break;
        }
        case 'resolver': {
          const child = graph.readers[n.reader];
          const childNested = n.used.map((i) => at(nested, i));
          nodes(child.ast, childNested, trail + '/' + n.alias, depth + 1);
          break;
        }
        case 'imperative': out.push([trail + '/' + n.alias, at(nested, n.refetchQueryIndex)]); break;
        case 'loadable': out.push([trail + '/' + n.alias, 'entry:' + n.entrypoint.rel]); break;
        default: break;
      }
    }
  }
  nodes(graph.readers[e.reader].ast, e.nested.map((q) => q.artifact), '', 0);
  return { walk: out };
}

function handle(req) {
  switch (req.op) {
    case 'values': return opValues(req.files);
    case 'graph':
      try { return buildGraph(req.files); }
      catch (e) { return { err: (e instanceof SyntaxErr ? 'syntax-error: ' : 'error: ') + String(e && e.message) }; }
    case 'walk':
      try { return walkEntry(req.graph, req.entry); } catch (e) { return { err: String(e && e.message) }; }
    default: return { err: 'unknown op' };
  }
}

const isMain = process.argv[1] && import.meta.url === pathToFileURL(process.argv[1]).href;
if (!isMain) {
  // imported as a library (ops_runtime.mjs)
} else if (process.argv[2] === '--dir') {
  // debugging aid: node ops_eval.mjs --dir <artifact dir> [values|graph]
  const fs = await import('node:fs');
  const root = process.argv[3];
  const files = {};
  const walk = (d) => { for (const e of fs.readdirSync(d, { withFileTypes: true })) { const p = path.join(d, e.name); if (e.isDirectory()) walk(p); else files[path.relative(root, p)] = fs.readFileSync(p, 'utf8'); } };
  walk(root);
  console.log(JSON.stringify(handle({ op: process.argv[4] || 'graph', files }), null, 1));
} else {
  const rl = readline.createInterface({ input: process.stdin, crlfDelay: Infinity });
  rl.on('line', (line) => {
    let answer;
    try { answer = handle(JSON.parse(line)); } catch (e) { answer = { err: 'error: ' + String(e && e.message) }; }
    process.stdout.write(JSON.stringify(answer) + '\n');
  });
}
