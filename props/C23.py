from translators import t3_legend, t_lsp_pico

ID = "C23"
TITLE = "Language-server positions address the right text"
TRANSLATORS = [t3_legend.translate, t_lsp_pico.translate]   # drv_lsp links Gen/Legend.lean
LEAN_MODULES = ["IsoVerif.Props.C23"]
THEOREMS = ["IsoVerif.Props.C23.C23_spec", "IsoVerif.Props.C23.C23_loc", "IsoVerif.Props.C23.C23_delta",
            "IsoVerif.Props.C23.C23_edit", "IsoVerif.Props.C23.C23_range", "IsoVerif.Props.C23.C23_tokens",
            "IsoVerif.Props.C23.C23_tokens_increasing", "IsoVerif.Props.C23.C23_hover_index",
            "IsoVerif.Props.C23.C23_hover"]
HARNESS = ("hx_lsp", {"HX_ENGINE": "pos"})
DRIVER = "drv_lsp"
CASES = {"quick": 3000, "thorough": 120000}
TECHNIQUE = ("Lean 4 theorems, by induction over the text, that executable models of the server's position conversions equal the UTF-16 "
             "specification utf16Pos (and invert it); differential correspondence of the models with the real functions through the "
             "isograph_lsp verif hook, plus the specification evaluated on the implementation's answers")
LEVEL_TEXT = ("Kernel-checked, for every text: char_index_to_position (formatting edits, diagnostics, go-to-definition ranges) = utf16Pos; "
              "delta_line_delta_start = position of the end of the text; decoding the delta-encoded semantic tokens yields exactly the utf16Pos start "
              "and UTF-16 length of every per-line piece of every source token, increasing and non-overlapping; get_index_of_line_char and "
              "find_iso_literal_extraction_under_cursor invert utf16Pos (hover / go-to-definition). The hand models are tied to the repaired Rust "
              "functions (fix commits 25f08fe, 65d5810, 61b6f0d; go-to-definition end to end after 07f7a21) by running both on generated documents (several literals, multi-line block-string "
              "tokens, BMP and astral text before and inside literals, CRLF) and on the unit functions, comparing every answer; the spec is also "
              "evaluated directly on the implementation's answers.")
LEVEL_NOTE = ("Trusted: Lean kernel; the hand transcription of the five Rust functions (validated by correspondence only); semantic tokens and literal extents "
              "are taken from the real parser / extraction regex (their spans being on character boundaries and increasing is C07, checked here per case by spansOk); "
              "lines are separated by \\n only as in the Rust code (a lone \\r terminator is out of scope); a token piece keeps its line feed, i.e. its length may "
              "reach one unit past the end of its line, which clients clamp.")
PARTIAL = ["u32 truncation of offsets (documents >= 4 GiB) is not modelled",
           "hypothesis isBoundary page 0 (the text does not start with a UTF-8 continuation byte) is true of every Rust String and is not proved from a UTF-8 validity predicate",
           "positions that designate no byte offset (beyond the end of a line, inside a surrogate pair) are outside the property: the model still has to agree with the code on them"]
ASSUMPTIONS = ["str::char_indices / encode_utf16 / split_inclusive behave as modelled on valid UTF-8 (a continuation byte is never a line feed and carries no UTF-16 unit)",
               "the LSP client uses the default UTF-16 position encoding (the server negotiates none)"]


def _lits(req):
    f = req.split("\t")
    return [] if len(f) < 3 or f[2] == "-" else f[2].split(";")


def nontrivial(req, impl):
    op = req.split("\t", 1)[0]
    if op == "pos.doc":
        return any(l.split(":")[2] == "A" for l in _lits(req))
    return impl not in ("panic", "none", "")


def classify(req, impl):
    f = req.split("\t")
    op = f[0]
    out = [op]
    if op == "pos.doc":
        try:
            content = bytes.fromhex(f[1]) if f[1] != "-" else b""
        except ValueError:
            return out
        lits = _lits(req)
        acc = [l for l in lits if l.split(":")[2] == "A"]
        if acc:
            out.append("doc:accepted-literal")
        if len(acc) > 1:
            out.append("doc:several-literals")
        for l in acc:
            p = l.split(":")
            start = int(p[0])
            line_start = content.rfind(b"\n", 0, start) + 1
            if any(b >= 0x80 for b in content[line_start:start]):
                out.append("doc:non-ascii-before-literal-on-line")
            if any(b >= 0xF0 for b in content[line_start:start]):
                out.append("doc:astral-before-literal-on-line")
            for t in p[3].split(","):
                if not t:
                    continue
                s, e = t.split("-")[:2]
                piece = content[start + int(s):start + int(e)]
                if b"\n" in piece:
                    out.append("doc:multi-line-token")
                if any(b >= 0x80 for b in piece):
                    out.append("doc:non-ascii-inside-token")
        if b"\r\n" in content:
            out.append("doc:crlf")
        return sorted(set(out))
    if impl == "panic":
        out.append(op + ":panic")
    return out


def check_distribution(dist, cases):
    need = {"class:doc:accepted-literal": cases // 10, "class:doc:several-literals": 5, "class:doc:multi-line-token": 5,
            "class:doc:non-ascii-before-literal-on-line": 5, "class:doc:astral-before-literal-on-line": 2,
            "class:doc:non-ascii-inside-token": 5, "class:pos.hover": cases // 20, "class:pos.idx": cases // 20,
            "class:pos.loc": cases // 40, "class:pos.goto": cases // 40}
    for k, n in need.items():
        if dist.get(k, 0) < n:
            return f"{k} = {dist.get(k, 0)} < {n} of {cases} cases"
    return None
