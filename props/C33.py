from translators import t7_signed

ID = "C33"
TITLE = "Signed generated files verify, and any edit breaks the signature"
TRANSLATORS = [t7_signed.translate]
LEAN_MODULES = ["IsoVerif.Props.C33"]
THEOREMS = ["IsoVerif.Props.C33.C33_consts", "IsoVerif.Props.C33.C33_verify",
            "IsoVerif.Props.C33.C33_tamper", "IsoVerif.Props.C33.C33_append_detected"]
HARNESS = ("hx_text", {"HX_ENGINE": "signed"})
DRIVER = "drv_text"
CASES = {"quick": 3000, "thorough": 200000}
TECHNIQUE = "Lean 4 theorems over an executable model of signedsource (literals regenerated from the Rust source) + differential correspondence and direct oracle against the real crate"
LEVEL_TEXT = ("Kernel-checked theorems: a freshly signed single-token file verifies (C33_verify); two different verifying texts that agree on "
              "every signature are a collision of the hash (C33_tamper, no injectivity assumed); the source constants fit together (C33_consts, re-proved "
              "against the regenerated literals). The model is tied to the crate by regenerating its literals on every run and by running sign/verify/edit "
              "cases through both (real MD5 on the implementation side, a Lean MD5 in the driver).")
LEVEL_NOTE = ("Trusted: Lean kernel; translator t7_signed (regex shape LIT(?:LIT([a-f0-9]{N})LIT), leftmost-first matching of a fixed-length pattern); "
              "MD5 is an opaque function in the theorems. Multi-token contents are covered by correspondence+oracle, not by C33_verify.")
PARTIAL = ["C33_verify is proved for contents with exactly one signing token and no other place where the signature regex matches; contents with several tokens are decided by the oracle on the implementation only",
           "collision resistance of MD5 is not a theorem: C33_tamper reduces an accepted edit to a collision"]
ASSUMPTIONS = ["regex crate: leftmost-first match of the fixed-length pattern", "md-5/hex crates compute lower-case hex MD5"]


def nontrivial(req, impl):
    return impl not in ("none", "panic", "")


def classify(req, impl):
    if impl == "none":
        return "unsignable"
    f = impl.split(" ")
    return f"verify={f[1]},edited={f[2]}" if len(f) == 3 else "other"


def check_distribution(dist, cases):
    signable = cases - dist.get("class:unsignable", 0)
    if signable * 10 < cases * 3:
        return f"only {signable}/{cases} generated contents contain a signing token"
    return None


def focus(req):
    """Neighbourhood of a disagreeing case: the same content, every edit position, a few replacements."""
    f = req.split("\t")
    if len(f) != 4 or f[0] != "signed.c33":
        return []
    n = (0 if f[1] == "-" else len(f[1]) // 2) + 64
    reps = ["20", "09", "0a", "78", "30", "-"]
    return [f"signed.c33\t{f[1]}\t{pos}\t{rep}" for pos in range(n) for rep in reps]
