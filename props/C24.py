from translators import t_iso_overload
from props import _arts

ID = "C24"
TITLE = "Each iso literal resolves to its own generated overload"
TRANSLATORS = [t_iso_overload.translate]
LEAN_MODULES = ["IsoVerif.Props.C24", "IsoVerif.Props.C24ws"]
THEOREMS = ["IsoVerif.Props.C24." + t for t in ("C24_order", "C24_total", "C24_first_match", "C24_witness_double_space",
                                                "C24_whitespace_set", "C24_witness_formfeed", "C24_witness_bom")]
HARNESS = ("hx_arts", {"HX_ENGINE": "overloads"})
DRIVER = "drv_arts"
CASES = {"quick": 600, "thorough": 20000}
TECHNIQUE = ("Lean 4 theorems over an executable model of iso_overload_file.rs (sort_field_name, the two sort_by comparators, the pattern text) and of the two TypeScript rules "
             "iso.ts relies on (first accepting overload wins; Whitespace<T> extends `${P}${string}`); correspondence: generated projects whose type and field names are prefixes of one "
             "another are compiled by the real compiler, the ordered MatchesWhitespaceAndString<'…', T> patterns AND the members of `WhitespaceCharacter` are read back from the IMPLEMENTATION's iso.ts "
             "and compared with the model's overload list and with the set that translator t_iso_overload extracts from the Rust source; oracle: the matcher, stripping leading white space with the "
             "implementation's own set, run over the implementation's pattern list for every declaration, every canonical header variant (leads drawn from what parse_iso_literal accepts before the keyword: "
             "space, tab, LF, CR/CR LF as cooked by the template literal) and, in separate cases compiled by the real compiler, literals led by tab, tabs, CR, CR LF, form feed, U+FEFF")
LEVEL_TEXT = ("Kernel-checked: sort_field_name is a strict total order on distinct names in which a name that extends another sorts first (C24_order); every declaration has an overload and nothing "
              "else does (C24_total); for every program with GraphQL names and unique Type.field per group, every declaration, any leading white space and any continuation that does not extend "
              "the field name, the first overload whose pattern accepts the literal is the declaration's own (C24_first_match); the `WhitespaceCharacter` union in the source today is exactly the set the "
              "model strips (C24_whitespace_set, regenerated from iso_overload_file.rs on every run). The order and text of the patterns are tied to the compiler by reading "
              "them back from the iso.ts it writes for every generated project (model list = implementation list), and the matcher is evaluated on the implementation's list.")
LEVEL_NOTE = ("Trusted: Lean kernel; the reading of TypeScript overload resolution and template-literal inference as the two modelled rules (tsc is not installed and is not run); hx_projgen's renderer. "
              "Open finding F17 (C24_witness_double_space): headers the parser accepts but the compiler does not print that way match no specific overload; confirmed by compiling such literals with the real compiler.")
PARTIAL = ["white space the iso lexer skips but `WhitespaceCharacter` lacks (form feed, U+FEFF) before the keyword: the property is false there (C24_witness_formfeed, C24_witness_bom; open findings); CR is harmless "
           "because a template literal's value has CR LF / CR normalised to LF",
           "TypeScript's checker is not run; its two rules (first accepting overload, Whitespace<T> extends `${P}${string}`) are the modelled part",
           "C24_first_match carries the hypothesis that the header is canonical (keyword, one space, Type.field); for non-canonical headers the property is false (F17, open)"]
ASSUMPTIONS = ["TypeScript picks the first overload whose parameter type accepts the argument", "Whitespace<T> strips exactly ' ', '\\t', '\\n'"]


def run(ctx):
    return _arts.run(ctx, ID, "overloads", shards=4)


def nontrivial(req, impl):
    return impl.startswith("ok ") and impl.split(" ")[-1].count(",") >= 1


def classify(req, impl):
    op = req.split("\t", 1)[0]
    out = [op + ":" + impl.split(" ")[0]]
    f = req.split("\t")
    if op == "ovlws":
        out.append("ws=" + f[1][3:])
    if impl.startswith("ok "):
        n = impl.split(" ")[2].count(",") + 1
        out.append("patterns=" + ("1-3" if n <= 3 else "4-8" if n <= 8 else "9+"))
    return out


def check_distribution(dist, cases):
    ok = dist.get("class:ovl:ok", 0) + dist.get("class:ovlnc:ok", 0) + dist.get("class:ovlws:ok", 0)
    if ok * 10 < cases * 9:
        return f"only {ok}/{cases} generated projects are accepted by the compiler"
    if dist.get("class:ovlnc:ok", 0) == 0:
        return "no non-canonical header case was accepted by the real parser"
    tabs = dist.get("class:ws=tab", 0) + dist.get("class:ws=tabs", 0)
    if tabs < max(3, cases // 40):
        return f"only {tabs} cases with tab-led literals compiled by the real compiler"
    for w in ("cr", "crlf", "ff", "bom"):
        if dist.get("class:ws=" + w, 0) == 0:
            return f"no case with leading white space {w}"
    if dist.get("class:patterns=4-8", 0) + dist.get("class:patterns=9+", 0) < cases // 4:
        return "too few projects with several overloads"
    return None
