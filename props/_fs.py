"""Shared by props/C17.py, C18.py, C19.py: the extra run against the REAL compile() (engine fs.real)."""
from vlib import core


def real_run(ctx, harness_bin, driver_bin, engine, base_env, n, want):
    """`want`: list of (substring of an implementation answer field, minimal number of cases having it)."""
    env = dict(base_env)
    env["HX_ENGINE"] = engine
    before = dict(ctx.cov["correspondence"].get("distribution", {}))
    problems, results = core.correspond(ctx, harness_bin, driver_bin, n, env=env, shards=min(8, core.NCPU),
                                        classify=lambda req, impl: (["real:" + w for w, _ in want if w in impl] if req.startswith("fs.real") else None),
                                        nontrivial=lambda req, impl: req.startswith("fs.real") and "ok:" in impl)
    real = [r for r in results if r[0].startswith("fs.real")]
    ctx.cov["real_compile"] = {
        "engine": engine, "cases": len(real),
        "what": "sessions of the real batch_compile::compile on generated projects (valid, single-fault invalid, declarations dropped), sources switched through update_sources, "
                "faults injected at operation k, process restarts; the artifact list of every compile is read back with get_artifact_path_and_content and replayed in the model",
        "with": {w: sum(1 for r in real if w in r[1]) for w, _ in want},
    }
    for w, least in want:
        if ctx.cov["real_compile"]["with"][w] < least:
            raise core.MachineryFault(f"degenerate generator distribution (engine {engine}): only {ctx.cov['real_compile']['with'][w]}/{len(real)} cases contain {w}")
    core.decide(ctx, problems, harness_bin, driver_bin, env)
