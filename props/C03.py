"""C03 — garbage collection keeps retained results and never breaks reads (M-PICO)."""
from props import C01 as _b

ID = "C03"
TITLE = "Garbage collection keeps retained results and never breaks reads"
TRANSLATORS = []
LEAN_MODULES = ["IsoVerif.Props.C03"]
THEOREMS = [
    "IsoVerif.Props.C03.C03_witness_lru_evicted",
    "IsoVerif.Props.C03.C03_witness_gc_panic_stale_retain",
    "IsoVerif.Props.C03.C03_witness_gc_panic_after_failed_call",
    "IsoVerif.Props.C03.C03_statement_false",
]
HARNESS = ("hx_pico", {"HX_ENGINE": "c03"})
DRIVER = "drv_pico"
CASES = {"quick": 2400, "thorough": 120000}
TECHNIQUE = _b.TECHNIQUE.replace("every call's value = from-scratch evaluation on the current sources",
                                 "after gc, a retained / LRU-recent top-level query (roots computed from the history alone) executes nothing and returns the same value; lookups do not fail; gc does not panic")
PARTIAL = []
ASSUMPTIONS = _b.ASSUMPTIONS
run = _b.run
classify = _b.classify
nontrivial = _b.nontrivial


def check_distribution(dist, cases):
    h = dist.get("class:hist", 0)
    if h < 100:
        return None
    for k, pct in {"hist-gc": 40, "hist-retain": 10, "hist-reuse": 30, "hist-nested": 30}.items():
        got = dist.get("class:" + k, 0)
        if got * 100 < pct * h:
            return f"only {got}/{h} histories have {k} (need {pct}%)"
    return None


LEVEL_TEXT = ("Kernel-checked: C03_statement (no collection panics; every collection keeps every node reachable from retained ∪ last-cap-distinct "
              "top-level queries with unchanged value, stamps and dependencies) over all programs and histories; witness theorems that it fails on "
              "today's code (LRU eviction of a re-verified query by its own dependencies; two collector panics), replayed on the real crate; and the "
              "theorems listed in THEOREMS about the collector. Model = implementation op by op with capacities 1, 2, 3, 10.")
LEVEL_NOTE = _b.LEVEL_NOTE + (" Memory safety (raw pointers of intern_ref, Miri) is not carried by this model.")
