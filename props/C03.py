"""C03 — garbage collection keeps retained results and never breaks reads (M-PICO)."""
from props import C01 as _b

ID = "C03"
TITLE = "Garbage collection keeps retained results and never breaks reads"
TRANSLATORS = []
LEAN_MODULES = ["IsoVerif.Props.C03"]
THEOREMS = [
    "IsoVerif.Props.C03.C03_witness_gc_panic_stale_retain",
    "IsoVerif.Props.C03.C03_witness_gc_panic_after_failed_call",
    "IsoVerif.Props.C03.C03_statement_false",
    "IsoVerif.Props.C03.C03_lru_spec",
    "IsoVerif.Props.C03.C03_gc_only_removes",
    "IsoVerif.Props.C03.C03_gc_frame",
    "IsoVerif.Props.C03.C03_gc_keeps_reachable",
    "IsoVerif.Props.C03.C03_roots_are_spec",
    "IsoVerif.Props.C03.C03_lru_invariant",
    "IsoVerif.Props.C03.C03_retention_partial",
    "IsoVerif.Props.C03.C03_pushes_are_calls",
    "IsoVerif.Props.C03.C03_roots_are_calls",
    "IsoVerif.Props.C03.C03_retention",
    "IsoVerif.Props.C03.C03_served_without_execution",
    "IsoVerif.Props.C03.C03_witness_intern_alias",
    "IsoVerif.Props.C03.C03_memsafe_false",
]
HARNESS = ("hx_pico", {"HX_ENGINE": "c03"})
DRIVER = "drv_pico"
CASES = {"quick": 2400, "thorough": 120000}
TECHNIQUE = _b.TECHNIQUE.replace("every call's value = from-scratch evaluation on the current sources",
                                 "after gc, a retained / LRU-recent top-level query (roots computed from the history alone) executes nothing and returns the same value; lookups do not fail; gc does not panic")
PARTIAL = [
    "C03_statement is false of today's code: the collector panics on a retained reference to a node an earlier collection removed, and after a first call that panicked (open known findings with witness theorems). The LRU eviction of a re-verified top-level query by its own dependencies (and its two consequences) was repaired together with F22 (/repo 340414a)",
    "C03_retention carries the retention clause for ALL programs and histories (the roots are retained ∪ the cap most recent distinct top-level calls actually made, C03_roots_are_calls) — for a collection that RETURNS; that a collection returns is exactly what the two open collector-panic findings violate",
    "C03_served_without_execution carries 'served without re-execution' for roots (and what they depend on) verified in the current epoch, i.e. called since the last source change; across a source change, whether a kept node re-executes is C02's clause, carried only by the C02 theorems",
    "memory safety: intern_ref is modelled as a layer over the core model (allocation liveness of value boxes, re-pointing rules); C03_memsafe is false of today's code (F19, witness theorem, pointer identity re-confirmed on the real crate on every run) and no _partial memory-safety theorem is proved; intern_value and MemoRef parameters are not modelled; stacked-borrows / provenance rules beyond 'allocation alive' and Miri runs are out of scope of this check",
]
ASSUMPTIONS = _b.ASSUMPTIONS
run = _b.run
classify = _b.classify
nontrivial = _b.nontrivial


def check_distribution(dist, cases):
    h = dist.get("class:hist", 0)
    if h < 100:
        return None
    for k, pct in {"hist-gc": 40, "hist-retain": 10, "hist-reuse": 30, "hist-nested": 30}.items():
        got = dist.get("class:" + k, 0)
        if got * 100 < pct * h:
            return f"only {got}/{h} histories have {k} (need {pct}%)"
    return None


LEVEL_TEXT = ("Kernel-checked: C03_statement (no collection panics; every collection keeps every node reachable from retained ∪ last-cap-distinct "
              "top-level queries with unchanged value, stamps and dependencies) over all programs and histories; witness theorems that it fails on "
              "today's code (two collector panics), replayed on the real crate; and the "
              "theorems listed in THEOREMS about the collector. Model = implementation op by op with capacities 1, 2, 3, 10.")
LEVEL_NOTE = _b.LEVEL_NOTE + (" The harness never dereferences an interned reference: it compares addresses (pointer identity); the UB itself is not exhibited (no Miri).")
