from translators import t2_gql_tokens
from vlib import core
from props import _ops

ID = "C09"
TITLE = "Every generated operation is valid GraphQL for the schema"
TRANSLATORS = [t2_gql_tokens.translate]
LEAN_MODULES = ["IsoVerif.Props.C09"]
_P = "IsoVerif.Props.C09."
THEOREMS = [_P + t for t in (
    "C09_witness_negative_int_alias", "C09_statement_false", "C09_fixed_apostrophe", "C09_fixed_undeclared_nested_variable",
    "C09_fixed_object_replaced_by_variable", "C09_witness_alias_collision", "C09_fixed_non_null_list_variable",
    "C09_fixed_unused_pointer_variable", "C09_plain_valid", "C09_js_embedding", "C09_js_embedding_before_repair",
    "C09_distinct_keys_merge", "C09_declared_eq_used", "C09_declared_eq_used_before_repair",
    "C09_fixed_nested_variable_not_collected", "C09_valid_partial")]
HARNESS = ("hx_ops", {"HX_ENGINE": "c09"})
DRIVER = "drv_ops"
CASES = {"quick": 200, "thorough": 6000}
TECHNIQUE = ("Lean 4: ECMAScript string-literal evaluation of the generated module (jsValue), the gql family's reference lexer/parser "
             "written from the June-2018 specification, and a validator for executable documents written from §5 of the specification "
             "(field existence, leaf/composite shape, arguments, input coercion, fragments, variables, FieldsInSetCanMerge); theorems for "
             "the JavaScript embedding, mergeability and declared = used variables; kernel-evaluated witnesses; direct oracle on every "
             "operation the REAL compiler generates for generated projects and the checked-in demos, the module evaluated under node")
LEVEL_TEXT = ("Kernel-checked for every input: the file the compiler writes for an operation text (export default + the text with ' and \\ escaped, "
              "transcribed as queryTextFile) evaluates under ECMAScript string-literal semantics to exactly that text with the printer's "
              "backslash+LF continuations removed, for EVERY text of BMP characters without carriage return or stray line feed — apostrophes and "
              "backslashes included (C09_js_embedding; before the repair dc59a0f only for texts without them: C09_js_embedding_before_repair); a selection set with pairwise distinct response names passes FieldsInSetCanMerge for every schema "
              "(C09_distinct_keys_merge); the variables the compiler collects from a merged selection map (and declares) are exactly the "
              "variables the printed operation uses, for every map (C09_declared_eq_used; before the repair af3b32d only without nested "
              "variables: C09_declared_eq_used_before_repair, with the F12 map as the counterexample); composition C09_valid_partial. Kernel-evaluated closed facts: the "
              "operations the real compiler prints for the F11 witness programs do not parse / are invalid; the files and operations it "
              "wrote for the F13, F12/F12b, non-null-list and pointer-variable programs before the repairs are not JavaScript / invalid, the "
              "ones it writes now are valid. The property itself is evaluated by the driver on every query_text.ts / "
              "__refetch__query_text__N.ts the real compiler writes: node's value of the module must equal the model's jsValue, must parse "
              "with the reference parser and pass validation against the schema file the compiler read.")
LEVEL_NOTE = ("Trusted: Lean kernel; t2_gql_tokens (the reference lexer itself is hand-written from the spec and does not use the table); "
              "the reading of §5 of the June-2018 specification as GqlValid.validate (tied to no second implementation: no GraphQL library "
              "is installed; kernel-evaluated positive and negative witnesses only); " + _ops.TRUST_RUNTIME + "; hx_projgen's generator "
              "bounds what is seen. The printer/parser round trip on merged maps (printQuery ↦ parseDoc) is NOT proved: the oracle parses "
              "the implementation's strings on every run instead.")
PARTIAL = ["no model of the whole compile step: the theorems are about the artifact text, the merged selection map and the validator; "
           "C09_valid_partial takes the parse and validity of the text as hypotheses",
           "open findings with witness theorems or corpus cases: F11 (negative int / collapsing string aliases), user variable named like the "
           "refetch machinery's `$id` or like an argument of an exposed mutation field, required input-object fields, `__typename` next to the "
           "field of a subscription, same-named fields of different types in sibling `asConcreteType` selections, a selection set that holds "
           "only client pointers (printed empty); F13 (apostrophe), F12 / F12b (variables inside object arguments), non-null list variables "
           "and unused variables below client pointers were repaired (dc59a0f, af3b32d, e06371c, 31b992f)",
           "custom scalars accept any literal; directives other than @skip/@include are reported as unknown (the compiler emits none)",
           "persisted documents (compact text in persisted_documents.json) are covered by C26, not here"]
ASSUMPTIONS = ["ECMAScript 2019+ string literal semantics in strict mode (U+2028/2029 allowed unescaped, octal escapes are errors)",
               "the schema file is read with the gql family's reference SDL parser with post-2018 syntax switched on",
               "an inline fragment on the parent type itself always applies (graphql-js doTypesOverlap), also for an interface without implementors"]


def run(ctx):
    ctx.known_findings = lambda: _ops.merged_known(ctx, ID)
    _ops.install_case_replays(ctx)
    return core.standard_run(ctx)


def nontrivial(req, impl):
    return req.startswith("c09\t") and " v:" in impl


# a variable whose only use is at depth 2 of an object argument (stream `nested`, witness nested-object-var)
_NESTED_GEN = "{ inner: { id: $nstv } }".encode().hex()
_NESTED_WIT = "{ owner: { id: $ownerId } }".encode().hex()


def classify(req, impl):
    k = _ops.case_classes(req, impl)
    if k is not None:
        return k
    if req.startswith("c09\t"):
        name = "refetch-query" if "__refetch__query_text__" in req else "entrypoint-query"
        out = [name, "value" if " v:" in impl else "no-value"]
        if _NESTED_GEN in impl or _NESTED_WIT in impl:
            out.append("nested-object-var")
        return out
    return None


def check_distribution(dist, cases):
    msg = _ops.base_distribution(dist, cases)
    if msg:
        return msg
    n_cases = dist.get("case", 0)
    if dist.get("c09", 0) < n_cases:
        return f"only {dist.get('c09', 0)} operations for {n_cases} projects"
    if dist.get("class:refetch-query", 0) * 20 < dist.get("c09", 0):
        return "too few refetch / mutation queries"
    for tag in ("default", "safe", "objvar", "risky", "refetch"):
        if dist.get(f"class:tag={tag}", 0) == 0:
            return f"stream {tag} missing"
    if dist.get("class:nested-object-var", 0) < 3:
        return (f"only {dist.get('class:nested-object-var', 0)} operations use a variable at depth 2 of an object argument "
                "(stream `nested`, witness nested-object-var)")
    return None
