"""C01 — memoised results equal a from-scratch evaluation (M-PICO).  Also holds what C02/C03 share."""
import json, os
from vlib import core

ID = "C01"
TITLE = "Memoized results always equal a from-scratch evaluation"
TRANSLATORS = []
LEAN_MODULES = ["IsoVerif.Props.C01"]
THEOREMS = [
    "IsoVerif.Props.C01.C01_witness_after_panic",
    "IsoVerif.Props.C01.C01_statement_false",
    "IsoVerif.Props.C01.C01_stage1_partial",
    "IsoVerif.Props.C01.C01_stage2_single_epoch_partial",
    "IsoVerif.Props.C01.C01_incremental_partial",
]
HARNESS = ("hx_pico", {"HX_ENGINE": "c01"})
DRIVER = "drv_pico"
CASES = {"quick": 2400, "thorough": 120000}
TECHNIQUE = ("Lean 4 theorems over an executable model of pico (fuel-indexed execute_memoized_function, dependency stack, stamps, GC) "
             "+ differential correspondence op by op against the real crate (values, panic classes, per-function run counters) "
             "+ direct oracle: every call's value = from-scratch evaluation on the current sources")
LEVEL_TEXT = ""
LEVEL_NOTE = ""
PARTIAL = [
    "C01_statement (all programs, all histories) is false of today's code only through CAUGHT PANICS: a call that panics leaves stale verified nodes behind (C01_witness_after_panic, open known finding). F1, F2 (/repo 79c6822) and F22 with its consequences — spurious panic, re-entrant stale read — (/repo 340414a) were repaired; the model follows the repaired code",
    "C01_incremental_partial carries ALL histories (sources, singletons, tracked fields, nested calls, retain, gc, any capacity) for programs whose call graph is acyclic by a rank on function indices, under CleanCalls only: every call of the history evaluates from scratch without panicking at the moment it is made, and the fuel exceeds every rank. Stored nodes that would panic if re-executed (a node holding a removed SourceId behind a guard) are allowed: the proof shows they are never reached. Not carried: cyclic programs (pico panics with `Cyclic dependency detected`), histories containing a call that panics (caught panics — the open finding lives exactly there)",
    "C01_stage1_partial (nesting depth 0, no acyclicity hypothesis needed) and C01_stage2_single_epoch_partial (any program incl. cyclic ones, writes-then-reads histories) are kept as independent stages",
    "intern_ref appears only as ref functions (kind 3) whose value is the callee's value; intern_value and MemoRef parameters are not in the model",
]
ASSUMPTIONS = [
    "user functions are programs of the model's expression language (reads of keyed sources, singletons, tracked fields; nested calls with u64 / SourceId / no parameter; add, eq, if, half); values are naturals below 2^64",
    "DefaultHasher collisions between distinct keys / parameters do not occur",
    "after a panic inside run_garbage_collection the storage is half-moved; model and harness stop the case there (answer `dead`)",
]

FAMILY_FINDINGS = os.path.join(core.VERIF, "known_findings.d", "pico.json")


def _known(ctx):
    """known_findings.json is generated from known_findings.d/*.json by the coordinator; read this
    family's own file as well so the check does not depend on when that was last regenerated."""
    seen, out = set(), []
    for path in (os.path.join(core.VERIF, "known_findings.json"), FAMILY_FINDINGS):
        if os.path.exists(path):
            for k in json.load(open(path)):
                key = (k.get("property"), k.get("signature"), k.get("status"))
                if k.get("property") == ctx.id and k.get("status") == "open" and key not in seen:
                    seen.add(key)
                    out.append(k)
    return out


def run(ctx):
    """standard run, with two additions local to this family: the family's own known-findings file is
    read too, and a replay holds the whole case (case + prog + history up to the failing line), not
    only the failing line — a pico request line means nothing without its history."""
    ctx.known_findings = lambda: _known(ctx)
    stash = {}
    orig_correspond = core.correspond

    def correspond(c, *a, **kw):
        problems, results = orig_correspond(c, *a, **kw)
        stash["results"] = results
        return problems, results

    orig_violation = ctx.violation

    def violation(obj, no_input=False):
        res = stash.get("results")
        if res and "request" in obj and "\n" not in obj["request"]:
            for i, (req, impl, model, verdict) in enumerate(res):
                if req == obj["request"] and impl == obj.get("impl") and verdict == obj.get("verdict"):
                    j = i
                    while j > 0 and not res[j][0].startswith("case"):
                        j -= 1
                    obj = dict(obj, request="\n".join(r[0] for r in res[j:i + 1]), failing_line=req)
                    break
        return orig_violation(obj, no_input)

    ctx.violation = violation
    core.correspond = correspond
    try:
        return core.standard_run(ctx)
    finally:
        core.correspond = orig_correspond


# ---------------------------------------------------------------- distribution (per history)
_cur = {"flags": set(), "called": set(), "runs": None, "keyed": {}, "n": 0}


def _flush():
    f = sorted(_cur["flags"])
    _cur.update(flags=set(), called=set(), runs=None, keyed={})
    return ["hist"] + ["hist-" + x for x in f]


def classify(req, impl):
    fs = req.split("\t")
    op = fs[0]
    if op == "case":
        out = _flush() if _cur["n"] else None
        _cur["n"] += 1
        return out
    fl = _cur["flags"]
    if op == "prog":
        body = " ".join(fs[2:])
        if " g" in " " + body.replace(":", " "):
            fl.add("reads-singleton")
        if " t" in " " + body.replace(":", " "):
            fl.add("reads-tracked")
        if " c" in " " + body.replace(":", " "):
            fl.add("nested")
        return None
    a = impl.split(" ")
    if a[0] in ("dead", "bad-op", ""):
        return None
    if op == "call":
        runs = a[-1]
        key = (fs[1], fs[2])
        if a[0].startswith("panic"):
            fl.add("call-panic")
        else:
            tot = sum(int(x) for x in runs.split(",")) if runs != "-" else 0
            prev = _cur["runs"]
            if key in _cur["called"]:
                if prev is not None and tot > prev:
                    fl.add("reexec")
                elif prev is not None:
                    fl.add("reuse")
            _cur["called"].add(key)
            _cur["runs"] = tot
    elif op == "gc":
        fl.add("gc")
        if a[0].startswith("panic"):
            fl.add("gc-panic")
    elif op in ("retain", "unretain", "nevergc") and a[0] == "ok":
        fl.add("retain")
    elif op == "set":
        if _cur["keyed"].get(fs[1]) == fs[2]:
            fl.add("equal-write")
        _cur["keyed"][fs[1]] = fs[2]
    elif op == "rem":
        _cur["keyed"].pop(fs[1], None)
        fl.add("remove")
    elif op in ("srem",):
        fl.add("remove")
    elif op in ("tins", "trem"):
        fl.add("tracked-write")
    elif op == "look" and a[0] == "val":
        fl.add("lookup")
    return None


def nontrivial(req, impl):
    return req.startswith("call") and impl.startswith("val")


def check_distribution(dist, cases):
    h = dist.get("class:hist", 0)
    if h < 100:
        return None  # replay / tiny runs
    need = {"hist-reexec": 20, "hist-reuse": 30, "hist-gc": 15, "hist-nested": 30, "hist-reads-singleton": 15,
            "hist-equal-write": 10, "hist-remove": 10}
    for k, pct in need.items():
        got = dist.get("class:" + k, 0)
        if got * 100 < pct * h:
            return f"only {got}/{h} histories have {k} (need {pct}%)"
    return None


LEVEL_TEXT = ("Kernel-checked: C01_incremental_partial — for every acyclic program and every history whose stored nodes evaluate without panicking, every memoised call returns the from-scratch value (invariant proof over the executable model: stamps, dependency verification, backdating, absent sources, gc); witness theorems showing that the full statement C01_statement (all programs, all histories) is false of today's "
              "code on one concrete history (a caught panic leaves stale verified nodes), "
              "each replayed on the real crate on every run, and the _partial theorems listed in THEOREMS. The model agrees with the real crate "
              "op by op (values, panic classes, run counters) on every generated history.")
LEVEL_NOTE = ("Trusted: Lean kernel; the hand-written model M-PICO (tied by correspondence only: >= 2 000 generated histories per quick run, "
              "scripted patterns + random); the harness's interpreter functions; generator bounds (<= 6 functions, keys 0..4, <= 40 ops, LRU capacity 1,2,3,10).")
