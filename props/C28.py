import json, os, subprocess
from translators import t7_swc
from vlib import core

ID = "C28"
TITLE = "The SWC transform resolves each literal to the artifact the compiler wrote"
TRANSLATORS = [t7_swc.translate]
LEAN_MODULES = ["IsoVerif.Props.C28"]
THEOREMS = ["IsoVerif.Props.C28.C28_consts", "IsoVerif.Props.C28.C28_classify", "IsoVerif.Props.C28.C28_kind",
            "IsoVerif.Props.C28.C28_path", "IsoVerif.Props.C28.C28_entrypoint", "IsoVerif.Props.C28.C28_identity",
            "IsoVerif.Props.C28.C28_errors_keep", "IsoVerif.Props.C28.C28_witness_bare_specifier",
            "IsoVerif.Props.C28.C28_witness_absolute_specifier", "IsoVerif.Props.C28.C28_specifier_partial",
            "IsoVerif.Props.C28.C28_fixed_witness_F16"]
HARNESS = ("hx_swc", {"HX_ENGINE": "swc"})
DRIVER = "drv_swc"
CASES = {"quick": 4000, "thorough": 200000}
TECHNIQUE = ("Lean 4 theorems over an executable model of the SWC plugin (list-of-successes backtracking matcher = leftmost-first, run on the regex AST "
             "that a translator regenerates from OPERATION_REGEX on every run; pathdiff + format string as path-component arithmetic; the visitor's decision table), "
             "of the header of parse_iso_literal and of the compiler's artifact path; differential correspondence and direct oracle against the real visitor "
             "(compile_iso_literal_visitor run in-process on generated modules), the real parse_iso_literal and the compiler's own create_config / FileSystemState")
LEVEL_TEXT = ("Kernel-checked theorems, for all literals, names, directory depths and both module settings: whenever the first four tokens of a literal are "
              "`keyword Identifier . Identifier` (every literal the compiler accepts), OPERATION_REGEX under leftmost-first semantics captures exactly the parser's keyword, "
              "type and field (C28_classify, by induction over the matcher, not by enumeration) and so classifies entrypoint vs field/pointer the same way (C28_kind); the emitted "
              "relative path, appended to the file's directory and normalised, is <artifact_dir>/__isograph/<Type>/<field>/entrypoint.ts for a file at any depth (C28_path, C28_entrypoint: "
              "import under esmodule, require(..).default under commonjs); field and pointer calls are replaced by their argument / the identity (C28_identity). The regex, "
              "white-space and identifier tables, keyword tables, path format and ENTRYPOINT_FILE_NAME are regenerated from the sources on every run, so a changed regex re-opens the proof.")
LEVEL_NOTE = ("Trusted: Lean kernel; translator t7_swc (regex syntax subset -> AST, `\\s` = White_Space table, shape checks of path_for_artifact / the decision table / the header of the three "
              "declaration parsers); the regex crate's leftmost-first semantics = first success of a backtracking matcher; logos longest-match for Identifier; pathdiff 0.2 diff_paths as modelled. "
              "The hypothesis of the theorems is acceptance of the header (weaker than acceptance of the literal). 'All other code is left as is' is not a theorem: the harness compares the "
              "transformed module with the original, AST node by AST node, on every case (oracle other-code-changed). Open finding: specifier form (C28_witness_bare_specifier, C28_specifier_partial).")
PARTIAL = ["C28_specifier_partial: the emitted path starts with ./ or ../ only for files in or below the directory holding __isograph; for a file above it the specifier is bare (open finding, witness theorem)",
           "config paths with `..` and absolute config paths are covered by correspondence only (C28_path assumes ordinary directory names)",
           "that code outside iso calls is untouched is checked on every generated module by the oracle, not proved (the swc Fold traversal is not modelled)"]
ASSUMPTIONS = ["regex crate: leftmost-first (Perl-like) match and captures = first success of backtracking in priority order; `\\s` = Unicode White_Space",
               "logos: an identifier-start character starts an Identifier token of maximal length; white space token skipped; no comment tokens",
               "pathdiff::diff_paths as in pathdiff 0.2.x; Path::components drops `.` and empty components",
               "a JS module specifier is resolved relative to the importing file iff it starts with ./ or ../"]


def _merged_known(ctx):
    """known_findings.json is generated from known_findings.d/*.json by tools/gen_manifest.py; read the family
    file as well so that the check does not depend on when the aggregate was last regenerated."""
    base = core.Ctx.known_findings(ctx)
    p = os.path.join(core.VERIF, "known_findings.d", "swc.json")
    extra = [k for k in json.load(open(p)) if k.get("property") == ID and k.get("status") == "open"]
    seen = {k["signature"] for k in base}
    return base + [k for k in extra if k["signature"] not in seen]


def run(ctx):
    ctx.known_findings = lambda: _merged_known(ctx)
    return core.standard_run(ctx)


def nontrivial(req, impl):
    return impl.startswith("hdr:") and not impl.startswith("hdr:none")


def classify(req, impl):
    f = impl.split(" ")
    if len(f) != 4:
        return "other"
    r = req.split("\t")
    hdr = f[0].split(":")[1]
    swc = f[1].split(":")[0] + (":" + f[1].split(":")[1] if f[1].startswith("err") else "")
    out = [f"hdr={hdr}", f"swc={swc}", f"module={r[2]}", f"depth={0 if r[3] == '.' else len(r[3].split('/'))}", f"tag={r[7]}"]
    if hdr == "entrypoint" and swc in ("imp", "req"):
        p = bytes.fromhex(f[1].split(":")[1]).decode()
        out.append("ups=%d" % p.count("../"))
    return out


def check_distribution(dist, cases):
    acc = cases - dist.get("class:hdr=none", 0)
    if acc * 10 < cases * 6:
        return f"only {acc}/{cases} generated literals have a header the parser accepts"
    resolved = dist.get("class:swc=imp", 0) + dist.get("class:swc=req", 0)
    if resolved * 10 < cases * 2:
        return f"only {resolved}/{cases} cases reach the path computation"
    if dist.get("class:swc=arg", 0) + dist.get("class:swc=identity", 0) < cases // 10:
        return "too few field/pointer replacements"
    for m in ("esm", "cjs"):
        if dist.get(f"class:module={m}", 0) * 4 < cases:
            return f"module setting {m} under-represented"
    if sum(v for k, v in dist.items() if k.startswith("class:ups=") and k != "class:ups=0") < cases // 20:
        return "too few files below the artifact directory"
    return None


def extra(ctx, harness_bin, driver_bin):
    """Measure the generator against the REAL full parser (engine swcstats): how many generated literals the
    compiler accepts in full, and that literals the generator built as valid are."""
    n = 1500
    reqs = core.gen_requests(harness_bin, ctx.seed, n, 0, {"HX_ENGINE": "swc"})
    e = dict(os.environ); e["HX_ENGINE"] = "swcstats"
    p = subprocess.run([harness_bin, "run"], input="\n".join(reqs) + "\n", stdout=subprocess.PIPE, stderr=subprocess.PIPE,
                       env=e, text=True, errors="replace", timeout=600)
    if p.returncode != 0:
        raise core.MachineryFault("swcstats run failed: " + p.stderr[-500:])
    full_ok = claimed = claimed_bad = 0
    for line in p.stdout.splitlines():
        req, _, ans = line.partition("\t=>\t")
        tag = req.split("\t")[7]
        ok = ans.startswith("full:ok")
        full_ok += ok
        if tag.endswith("-ok"):
            claimed += 1
            claimed_bad += (not ok)
    ctx.cov["correspondence"]["generator_vs_real_parser"] = {
        "sampled": n, "accepted_in_full_by_parse_iso_literal": full_ok,
        "built_as_valid": claimed, "built_as_valid_but_rejected": claimed_bad}
    if full_ok * 2 < n:
        raise core.MachineryFault(f"degenerate generator: only {full_ok}/{n} literals are accepted in full by parse_iso_literal")
    if claimed_bad * 50 > claimed:
        raise core.MachineryFault(f"generator builds invalid literals as valid: {claimed_bad}/{claimed}")
