import json, os
from vlib import core

ID = "C15"
TITLE = "Merged operations are independent of how selections are arranged"
TRANSLATORS = []
LEAN_MODULES = ["IsoVerif.Props.C15"]
THEOREMS = ["IsoVerif.Props.C15.merge_comm", "IsoVerif.Props.C15.merge_idem", "IsoVerif.Props.C15.merge_assoc",
            "IsoVerif.Props.C15.mergeSel_sorted", "IsoVerif.Props.C15.C15_perm", "IsoVerif.Props.C15.C15_perm_list",
            "IsoVerif.Props.C15.C15_dup", "IsoVerif.Props.C15.C15_dup_alias", "IsoVerif.Props.C15.C15_extract",
            "IsoVerif.Props.C15.C15_witness_dup_object_argument", "IsoVerif.Props.C15.C15_witness_order",
            "IsoVerif.Props.C15.C15_witness_order_location_before_value"]
HARNESS = ("hx_merge", {"HX_ENGINE": "arrange"})
DRIVER = "drv_merge"
CASES = {"quick": 400, "thorough": 12000}
TECHNIQUE = ("Lean 4 theorems over an executable model of create_merged_selection_set.rs / variable_context.rs (the traversal as the list of `entry().or_insert()` insertions it performs, "
             "the merged map as a sorted association list on paths of normalization keys, client fields expanded with variable substitution); differential correspondence of the model's merged "
             "map with the map the real compiler hands to its printers (dump hook), and direct oracle on the compiler's artifacts, on generated projects and their three rearrangements "
             "(hx_projgen) and on an injected shape (one type refinement reached twice at one place, directly and through client fields, with an overlapping linked field) in its four arrangements")
LEVEL_TEXT = ("Kernel-checked: union of merged maps is idempotent, associative and (on maps that agree on common keys) commutative, sortedness is an invariant (merge_idem, merge_assoc, merge_comm, "
              "mergeSel_sorted); the map produced by merging a selection set is unchanged by permuting selections at every depth (C15_perm), by selecting again what is already selected — in "
              "particular under another alias (C15_dup, C15_dup_alias) — and by moving part of a selection set into a new client field selected at the same place with the variables passed "
              "through (C15_extract, by a substitution lemma over the whole traversal including nested client fields and pointers). Each holds for every schema, program, variable context and "
              "position, under the stated hypothesis that node data is a function of the key path (checked by the driver on every case). The model is tied to the Rust code by comparing, per "
              "entrypoint, its merged map with the one the compiler's printers receive, for every generated project and its rearrangement; the property itself (byte-identical query_text.ts and "
              "normalization_ast.ts within each pair) is evaluated on the compiler's artifacts. Two defects of the unchanged compiler are open findings with kernel-checked witnesses: a "
              "selection with an object/list literal argument selected twice is fetched twice (source locations are part of the key), and among selections of one field whose arguments are object/list literals the ORDER of entries "
              "follows the source positions of the literals, i.e. the order in which the selections were written.")
LEVEL_NOTE = ("Trusted: Lean kernel; the hand transcription of the merge (validated by correspondence only); hx_projgen's renderer and rearrangements; the dump hook's wire encoding. The "
              "iteration order of the implementation's maps (derived Ord of NormalizationKey: string contents, and the source locations embedded in object/list literals) is transcribed as Merge.cmpKey "
              "and compared entry by entry with the compiler's own iteration order; no theorem depends on it. Byte-equality of the artifacts is predicted from equality of the two ordered maps. "
              "Refetch-path numbering is excluded (C25).")
PARTIAL = ["theorems are about located selection sets (an object/list literal keeps its identity when the selection is moved); that re-numbering source positions is an injective renaming of "
           "these identities is covered by correspondence only",
           "C15_dup / C15_extract / C15_perm assume Coherent (node data is a function of the key path) for the traversal at hand; the driver evaluates it on every case",
           "the model covers: server scalar and linked fields with arguments, __typename, id, asConcreteType inline fragments, client fields (expanded, with child variable contexts, defaults, "
           "null for missing), client pointers, __link / __refetch / exposed fields / @loadable as boundaries; not: entrypoints on non-root types (wrap_merged_selection_map), refetch-path "
           "bookkeeping, the separate maps of loadable / imperatively loaded fields",
           "the theorems are about the map as a set of (path, data) entries kept in a canonical order; that the PRINTED order is the derived Ord including source locations is the open finding (C15_witness_order_location_before_value), tied by correspondence"]
ASSUMPTIONS = ["a compile does not depend on the history of the process (StringId: Ord compares string contents; in-process and fresh-process compiles gave byte-identical answers on 300 pairs; HX_MERGE_FRESH=1 compiles each project in a child process)",
               "query_text.ts and normalization_ast.ts are functions of the ordered merged map and the entrypoint's variable definitions (C11/C12 tie the printers)"]


def _merged_known(ctx):
    base = core.Ctx.known_findings(ctx)
    p = os.path.join(core.VERIF, "known_findings.d", "merge.json")
    extra = [k for k in json.load(open(p)) if k.get("property") == ID and k.get("status") == "open"]
    seen = {k["signature"] for k in base}
    return base + [k for k in extra if k["signature"] not in seen]


def run(ctx):
    ctx.known_findings = lambda: _merged_known(ctx)
    return core.standard_run(ctx)


def nontrivial(req, impl):
    return " ep=" in impl


def classify(req, impl):
    f = req.split("\t")
    out = []
    if len(f) >= 2:
        out.append("T=" + f[1])
    out.append(impl.split(" ")[0])
    if " ops=diff" in impl:
        out.append("ops-diff")
    n = impl.count(" ep=")
    out.append("entrypoints=%d" % min(n, 3))
    if "=o{" in impl:
        out.append("object-args")
    if "f(T." in impl:
        out.append("inline-fragments")
    if "c(P." in impl:
        out.append("client-pointers")
    return out


def check_distribution(dist, cases):
    # the injected shape: one asConcreteType refinement reached twice at one place (directly and through
    # client fields), the same linked field with different sub-selections on the two sides
    for t in ("overlap-perm", "overlap-extract"):
        if dist.get("class:T=" + t, 0) * 25 < cases:
            return f"injected overlap stream {t} under-represented: {dist.get('class:T=' + t, 0)}/{cases}"
    for t in ("perm", "dup", "extract"):
        if dist.get("class:T=" + t, 0) * 5 < cases:
            return f"rearrangement {t} under-represented: {dist.get('class:T=' + t, 0)}/{cases}"
    if dist.get("class:st=ok/ok", 0) * 10 < cases * 9:
        return f"only {dist.get('class:st=ok/ok', 0)}/{cases} pairs compile"
    if dist.get("class:entrypoints=0", 0) * 5 > cases:
        return "too many projects without entrypoint"
    if dist.get("class:inline-fragments", 0) * 10 < cases:
        return "too few inline fragments"
    return None
