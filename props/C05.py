from translators import t6_arena

ID = "C05"
TITLE = "Interning is a faithful bijection under every thread schedule"
TRANSLATORS = [t6_arena.translate]
LEAN_MODULES = ["IsoVerif.Props.C05"]
_P = "IsoVerif.Props.C05."
THEOREMS = [_P + n for n in [
    "C05_eq_iff", "C05_lookup", "C05_get", "C05_get_interned", "C05_dense", "C05_lock_exclusive",
    "C05_smallbytes", "C05_ord_str", "C05_ord_path", "C05_serde", "C05_serde_same_process"]]
HARNESS = ("hx_conc", {"HX_ENGINE": "intern"})
DRIVER = "drv_conc"
CASES = {"quick": 1600, "thorough": 60000}
TECHNIQUE = ("Lean 4 theorems: InternTable::intern / get_interned / get over ShardedSet + AtomicArena as a thread-indexed transition system (shard RwLock, "
             "try_write / read / write paths, arena add under the shard write lock), invariant + induction over every finite trace of any number of threads and "
             "for every hash function; sequential algebra (SmallBytes, Ord of BytesId/StringId/PathId, InternSerdes back references) as executable models with "
             "theorems. Tie: 2-3 real threads on a fresh InternTable under a deterministic scheduler (cfg-guarded yield points), same schedule drives the Lean "
             "transition system, label sequences / ids / final table compared; differential engines for intern/lookup/Ord, SmallBytes, PathId, and the serde "
             "wire (JSON back-reference structure compared with the model encoder, the implementation's wire decoded by the model decoder; bincode round trip)")
LEVEL_TEXT = ("Kernel-checked for every trace of the sequentially consistent model and every shard function: two completed interns return the same id iff the values "
              "are equal (C05_eq_iff); the id's arena slot holds the interned value and every later get returns it (C05_lookup, C05_get); at quiescence the ids are "
              "exactly the dense indices 0..len-1, one per distinct value (C05_dense); a shard's writer excludes readers and other writers (C05_lock_exclusive). "
              "Sequential: SmallBytes reads back / eq / hash / inline boundary / ByteBuf bridge (C05_smallbytes); StringId/BytesId order = byte order of the text "
              "(C05_ord_str); PathId order = top-down component order (C05_ord_path); serialise-then-deserialise with back references returns the same data with "
              "ids renumbered by the deserialising process, for repeated and nested ids of several intern types (C05_serde, C05_serde_same_process).")
LEVEL_NOTE = ("Trusted: Lean kernel; translator t6_arena; hook placement and scheduler harness; FNV-1a is re-implemented in the driver to predict shard numbers "
              "(compared with the shard the real code picks). serde's data model (JSON/bincode encodings of InternEnum) is trusted: the model's Wire is the "
              "Value/Id structure, extracted from the JSON output.")
PARTIAL = [
    "the model is sequentially consistent: Acquire/Release/Relaxed annotations are outside it",
    "OnceCell initialisation of the shards (InternTable::shards, including the insertion of the zero element) happens before the modelled trace; the harness forces it before the schedule starts",
    "parking_lot RwLock fairness (a parked writer blocking new readers, upgrade order) is outside the model: a lock is writer + set of readers, a blocked acquisition is a stutter step",
    "hashbrown's RawTable is a list of ids searched by value through the arena; rehashing and the hasher callbacks are not modelled (they only read completed slots)",
    "the arena reads performed inside set lookups (Id::get from the eq/hash closures) are atomic with the lookup step in the model; in the harness their yield points are passed straight through during intern/get_interned",
    "the pre-added zero element of with_zero tables is represented as an addition completed before the trace",
    "serde: REF_TO_INDEX/INDEX_TO_REF are thread-locals, modelled as the state threaded through one serialisation / deserialisation under fresh guards; dropping a guard mid-way (documented misuse) is not modelled; serde_json/bincode byte formats are trusted",
    "Ord of StringId/BytesId/PathId is proved relative to the lookup function (given by C05_lookup); Rust's str/[u8]/Iterator::cmp are modelled as byte-lexicographic comparison",
    "PathId interning of a path (Path::iter normalisation) is tied by differential runs on generated relative paths only (no '.', '..', root or prefix components)",
    "the arena counter wrap is excluded by hypothesis (as in C06)",
]
ASSUMPTIONS = ["64-bit target: SMALL_MAX_LEN = 3*8-2 (checked against the compiled crate by the engine arena.consts)",
               "Hash/Eq of the interned type are consistent and deterministic (the model compares values by equality and shards by an arbitrary function of the value)"]


def nontrivial(req, impl):
    return impl not in ("panic", "")


def classify(req, impl):
    op = req.split("\t", 1)[0]
    k = [op]
    if op == "intern.sched":
        if ".rd." in impl or ".wr." in impl: k.append("sched:contended")
        if ".rf." in impl: k.append("sched:found-under-read-lock")
        if ".cf." in impl: k.append("sched:found-under-write-lock")
        if ".rd.rd" in impl or ".wr.wr" in impl or ".sg.sg" in impl: k.append("sched:blocked")
        if req.split("\t")[1] == "1": k.append("sched:with-zero")
    if op == "serde.rt":
        w = impl.split(" ", 1)[0]
        if "B0:" in w or "B1:" in w: k.append("serde:backref")
        if "V0(V0" in w or "V0(P(V0" in w or "V0(P(V1" in w or "(V1" in w and "V0(" in w: k.append("serde:nested")
    if op == "small.bytes":
        k.append("small:" + impl.split(" ", 1)[0])
    return k


def check_distribution(dist, cases):
    s = dist.get("class:intern.sched", 0)
    if s * 4 < cases:
        return f"only {s}/{cases} scheduled-thread cases"
    if dist.get("class:sched:contended", 0) * 4 < s:
        return f"only {dist.get('class:sched:contended', 0)}/{s} schedules contend for a shard"
    if dist.get("class:sched:found-under-read-lock", 0) * 50 < s:
        return "too few schedules take the read path"
    sd = dist.get("class:serde.rt", 0)
    if sd and dist.get("class:serde:backref", 0) * 3 < sd:
        return "too few serde cases contain a back reference"
    return None
