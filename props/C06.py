from translators import t6_arena

ID = "C06"
TITLE = "The lock-free arena hands out each slot once and reads back what was added"
TRANSLATORS = [t6_arena.translate]
LEAN_MODULES = ["IsoVerif.Props.C06"]
_P = "IsoVerif.Props.C06."
THEOREMS = [_P + n for n in [
    "C06_consts", "C06_index_spec", "C06_index_spec_bv", "C06_index_injective", "C06_index_succ", "C06_index_order",
    "C06_index_of_base_add", "C06_capacity_tiles", "C06_drop_count",
    "C06_unique", "C06_readback", "C06_readback_expect", "C06_len_monotone", "C06_len_final", "C06_bucket_once",
    "C06_drop_exactly_once"]]
HARNESS = ("hx_conc", {"HX_ENGINE": "arena"})
DRIVER = "drv_conc"
CASES = {"quick": 1200, "thorough": 60000}
TECHNIQUE = ("Lean 4 theorems: (i) index arithmetic of atomic_arena.rs for every u32 (Nat.log2/shift lemmas, constants regenerated from the source by T6); "
             "(ii) AtomicArena as a thread-indexed transition system whose steps are the atomic operations of add_get/slice_for_slot(_slow)/get/len, "
             "invariant + induction over every finite trace of any number of threads; Drop as a function of the quiescent state. "
             "Tie: differential index/bucket_capacity over all boundaries; 2-3 real threads run under a deterministic scheduler through cfg-guarded yield points "
             "before every atomic operation, the same schedule drives the Lean transition system, label sequences / refs / len / drop counters are compared; "
             "the property's oracle is evaluated on the implementation's answers")
LEVEL_TEXT = ("Kernel-checked for every trace of the sequentially consistent model: completed adds return pairwise different refs (C06_unique); a get that starts "
              "after add returned r reads the added element, never a null bucket or an uninitialised slot (C06_readback); len never decreases and at quiescence equals "
              "initial + completed additions (C06_len_monotone, C06_len_final); every bucket pointer is stored once, never replaced, no allocation is orphaned "
              "(C06_bucket_once); Drop at quiescence visits exactly the initialised prefix, each added element at its own position (C06_drop_exactly_once). "
              "Bit level for all u32: b < capacity a, a < NUM_SIZES, i = base a + b, injectivity, monotonicity across bucket boundaries, capacities tile [MIN_SIZE, 2^32).")
LEVEL_NOTE = ("Trusted: Lean kernel; translator t6_arena (constants + shape checks of index/bucket_capacity/add_get/slice_for_slot_slow); the hook placement "
              "(one yield point before each atomic operation; with the feature off the crate is unchanged); the scheduler harness. The schedules explored by the tie "
              "are generated (runs of 2-3 threads with preemptions, prefills placing the additions at the 128/384/896 bucket boundaries); the theorems cover all schedules of the model.")
PARTIAL = [
    "the model is sequentially consistent: the Acquire/Release/Relaxed annotations of the atomics (and whether they suffice on weak memory) are outside it",
    "parking_lot::Mutex is modelled as an owner variable with a blocking acquire (stutter while held); its fairness/parking is outside the model",
    "the counter wrap (2^32 - MIN_SIZE additions, where add_get panics) is excluded by the hypothesis s.next < 2^32 of every trace theorem",
    "get of a forged Ref (never returned by add) is UB in the code; the model gives it explicit outcomes (debugPanic/null/uninit/oob) and the theorems only speak about refs returned by add",
    "Drop of a with_zero arena does not happen in Rust (statics are never dropped; it would free static memory); the model's dropArena theorem is stated for both start states but only tied for new()",
    "allocation failure / a panic between fetch_add and the slot write (Drop would then see an uninitialised slot) is outside the model",
    "the debug_assert in get (debug builds only) is part of the model because the harness builds with debug assertions; release builds skip that step",
]
ASSUMPTIONS = ["64-bit target (usize shifts of bucket_capacity do not overflow)", "Vec::with_capacity returns a fresh allocation of at least the requested capacity",
               "threads interact only through the atomics and the mutex that carry a yield point (no data race outside them: follows from the invariant in the SC model)"]


def nontrivial(req, impl):
    return impl not in ("panic", "") and not req.startswith("arena.cap")


def classify(req, impl):
    op = req.split("\t", 1)[0]
    if op != "arena.sched":
        return op
    k = ["sched"]
    if ".ss." in impl: k.append("sched:bucket-allocated")
    if ".su." in impl: k.append("sched:raced-found-under-mutex")
    if ".sl.sl" in impl: k.append("sched:blocked-on-mutex")
    if "drop=static" in impl: k.append("sched:with-zero")
    if ".gr." in impl: k.append("sched:get")
    return k


def check_distribution(dist, cases):
    s = dist.get("class:sched", 0)
    if s * 3 < cases:
        return f"only {s}/{cases} scheduled-thread cases"
    if dist.get("class:sched:raced-found-under-mutex", 0) * 40 < s:
        return f"only {dist.get('class:sched:raced-found-under-mutex', 0)}/{s} schedules race for a bucket allocation"
    if dist.get("class:sched:bucket-allocated", 0) * 5 < s:
        return "too few schedules allocate a bucket"
    return None
