from translators import t8_hash_iter
from props import _arts

ID = "C14"
TITLE = "Compilation output is deterministic"
TRANSLATORS = [t8_hash_iter.translate]
LEAN_MODULES = ["IsoVerif.Props.C14"]
THEOREMS = ["IsoVerif.Props.C14." + t for t in ("C14_perm_invariant", "C14_sites_classified", "C14_sites_invariant",
                                                "C14_witness_first_wins_order_sensitive", "C14_fixed_first_wins")]
HARNESS = ("hx_arts", {"HX_ENGINE": "det"})
DRIVER = "drv_arts"
CASES = {"quick": 40, "thorough": 900}
TECHNIQUE = ("translator T8 lists every iteration over a HashMap/HashSet in the anchored files (syntactic scan over a workspace-wide index of hash-typed functions, fields and newtypes; anything it cannot "
             "classify is a TranslateError); Lean 4: every sink shape those iterations feed (sorted set, sorted map keyed by the element, collect-then-sort, collect-then-sorted-set, path-keyed artifact list, "
             "counters, hash set to hash set) is a fold proved invariant under permutation of the iterated list, and the kernel decides that the hand-made classification covers exactly the generated sites; "
             "oracle: every generated project through the real CLI binary in 3 fresh processes (different RandomState) with the files created in reverse order in the last one, plus 4 regroupings of the "
             "declarations into other files in-process; artifacts and diagnostics byte-compared")
LEVEL_TEXT = ("Kernel-checked: for every total order and every two orders in which a hash container may hand out its elements, each sink shape yields the same result (C14_perm_invariant: BTreeSet/BTreeMap "
              "inserts, sort_by over a total order, counters, hash-set membership, path-keyed artifact lists with unique paths); the classification of the hash iterations covers exactly the sites that "
              "T8 finds in the source today, sink hints included (C14_sites_classified, C14_sites_invariant) — a new hash iteration in an anchored file or a sink changing its container type breaks the "
              "obligation. First-definition-wins folds are order-sensitive (C14_witness_first_wins_order_sensitive); the two that existed were repaired by visiting files in path order (C14_fixed_first_wins, "
              "fixes ae7fd9c, 9ce2dae). The process-level oracle compares whole compiles of the real binary byte for byte.")
LEVEL_NOTE = ("Trusted: Lean kernel; translator T8 (regex-level scan; it fails loudly on uses it cannot classify); the hand-made assignment of shapes to sites (that a loop body is of the shape it is filed under is by "
              "reading: e.g. that the value cached under a client field depends on the field only, that artifact paths are unique per element) — the process-level oracle is what ties it to the code; "
              "Ord of interned strings is the order of their text (relay intern crate, read). The theorems are about the sink shapes, not about a model of the whole compile function.")
PARTIAL = ["C14_perm_invariant is proved per sink shape; that compile() as a whole is the composition of these sinks is not a theorem (M-CORE has no end-to-end compile yet): the whole-compile statement is "
           "carried by the oracle (fresh processes, creation order, file plans)",
           "hash iterations outside the anchored files (T8's ANCHORED list: process_iso_literals.rs, isograph_literals.rs, generate_artifacts.rs, validate.rs, iso_overload_file.rs) are not listed; two such "
           "sites (client_declaration_access.rs, entrypoint_access.rs) were order-sensitive and are fixed",
           "directory enumeration order is varied only through file creation order and file names/regrouping (what the file system lets a test control)"]
ASSUMPTIONS = ["HashMap/HashSet iteration order is an arbitrary permutation, fixed for one container state", "Ord on interned string keys compares the text",
               "file plans change paths: the one artifact line that legitimately names the source file (`import { X as resolver } from '…'`) is masked in that comparison"]


def run(ctx):
    return _arts.run(ctx, ID, "det", shards=6, needs_cli=True)


def nontrivial(req, impl):
    return impl.startswith("same ok") or impl.startswith("same diagnostics")


def classify(req, impl):
    op = req.split("\t", 1)[0]
    f = impl.split(" ")
    return [op + ":" + f[0].split(":")[0], "exit=" + (f[1] if len(f) > 1 and f[0] == "same" else "-")]


def check_distribution(dist, cases):
    same_ok = dist.get("class:exit=ok", 0)
    if same_ok * 10 < cases * 4:
        return f"only {same_ok}/{cases} cases reach artifact generation"
    if dist.get("class:detdiag:same", 0) + dist.get("class:detdiag:differ", 0) == 0:
        return "no diagnostics case"
    return None
