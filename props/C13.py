from props import _arts
from vlib import core

ID = "C13"
TITLE = "All generated artifacts are syntactically valid and import-closed"
TRANSLATORS = []
LEAN_MODULES = ["IsoVerif.Props.C13"]
THEOREMS = ["IsoVerif.Props.C13." + t for t in (
    "C13_holes_partial", "C13_holes_desc", "C13_holes_strSingle", "C13_holes_strDouble", "C13_holes_name", "C13_holes_lexState",
    "C13_witness_header_cr", "C13_witness_path_quote", "C13_fixed_witness_F13b", "C13_fixed_witness_F13",
    "C13_imports_template", "C13_imports_resolver", "C13_imports",
    "C13_witness_unclosed_parameters_type", "C13_witness_unclosed_link_output_type")]
HARNESS = ("hx_arts", {"HX_ENGINE": "arts"})
DRIVER = "drv_arts"
# one case = one generated project = two request lines (parse oracle, import oracle)
CASES = {"quick": 192, "thorough": 6000}
HOLES = {"quick": 600, "thorough": 30000}
TECHNIQUE = ("Lean 4: a TypeScript lexical-context automaton (code, '…', \"…\", template, //, /* */) and, per hole through which the generators splice user-controlled text into an artifact, the theorem that the "
             "text as embedded stays inside its context and returns the automaton to its state; the path arithmetic of every import template and closure of an artifact plan. Correspondence: engine `holes` "
             "compiles a project with the text in the hole and cuts the embedded text out of the real artifact again (= the model's embedding function); engine `arts` reads every import specifier back from "
             "the implementation's artifacts and resolves it (= the model's resolve). External oracle on every artifact of every compiled generated project under all 48 option combinations: "
             "swc_ecma_parser (TypeScript module) for .ts, serde_json for .json, every relative import must name a generated artifact or the source file")
LEVEL_TEXT = ("Kernel-checked: schema descriptions (every text, after fix ce7cb8c), string arguments in the single-quoted operation text (after fix dc59a0f) and in double-quoted positions, and names never leave "
              "their lexical context and leave the automaton in the state they found it (C13_holes_desc/strSingle/strDouble/name), hence do not change the lexical reading of anything after the hole "
              "(C13_holes_lexState); for the generated file header and the resolver import path the same holds under the stated `safe` condition (C13_holes_partial) and is FALSE without it (two witnesses = open findings). Every "
              "import template resolves, from every place it is printed, to the file it is meant to name, with and without `.ts` in the specifier, and pathdiff's relative path resolves back to the "
              "source file (C13_imports_template, C13_imports_resolver); in a closed plan every import names a generated file (C13_imports). That every artifact is a TypeScript module / JSON is established "
              "by the external parsers on every artifact of every compiled generated project, not by a theorem.")
LEVEL_NOTE = ("Trusted: Lean kernel; swc_ecma_parser 3.0 (TypeScript syntax) and serde_json as the external oracle; the hole domains (what the iso lexer / schema lexer / config loader let through) are "
              "transcribed from token_kind.rs / compilation_options.rs and tied by the `holes` correspondence (texts outside a domain are answered `outside` by both sides from the same predicate). "
              "The automaton does not know regular-expression literals, `${}` in templates, JSX. Closedness of the real generator's plan is checked per compiled project; it fails for two templates (open findings).")
PARTIAL = ["that the SKELETONS of the artifacts are valid TypeScript/JSON is established by the external parsers on generated programs (and the three demos), not by a theorem",
           "C13_imports assumes a closed plan; which files the real generator emits for which declarations is not modelled — closure is checked by the oracle on every compiled project (open findings: "
           "param_type.ts → ./parameters_type of unreachable fields with variables; iso.ts → ./<Target>/__link/output_type)",
           "C13_holes is false for CR/U+2028/U+2029 in generated_file_header and for '/\\ in source file names: witnesses, open findings, `safe` hypothesis"]
ASSUMPTIONS = ["ECMAScript lexical grammar for strings, comments and line terminators as transcribed in Model/TsLex.lean",
               "a relative specifier is resolved against the directory of the importing file; an extension-less specifier names <spec>.ts"]


def run(ctx):
    return _arts.run(ctx, ID, "arts", shards=4)


def nontrivial(req, impl):
    return impl.startswith("ok")


def classify(req, impl):
    f = req.split("\t")
    op = f[0]
    out = [op + ":" + impl.split(" ")[0]]
    if op == "artsp" and len(f) > 1:
        # the option combination is part of the wire: "P O <root> <artdir> esm|cjs T|F <header> <persisted…> T|F …"
        w = f[1].split(" ")
        try:
            i = 3                                   # after `P O <project_root>`
            i += 2 if w[i] == "S" else 1            # artifact_directory: N | S <hex>
            out.append("module=" + w[i])
            out.append("ext=" + w[i + 1])
            out.append("header=" + ("yes" if w[i + 2] == "S" else "no"))
        except IndexError:
            pass
    if op == "hole":
        out.append("hole=" + f[1] + ":" + impl.split(" ")[0])
    return out


def check_distribution(dist, cases):
    ok = dist.get("class:artsp:ok", 0)
    tot = ok + dist.get("class:artsp:rejected", 0) + dist.get("class:artsp:panic", 0)
    if tot == 0 or ok * 10 < tot * 7:
        return f"only {ok}/{tot} generated projects reach artifact generation"
    for k in ("module=esm", "module=cjs", "ext=T", "ext=F", "header=yes", "header=no"):
        if dist.get("class:" + k, 0) == 0:
            return f"option value {k} never generated"
    return None


def extra(ctx, harness_bin, driver_bin):
    if not driver_bin:
        return
    res = _arts.second_engine(ctx, harness_bin, driver_bin, "holes", HOLES[ctx.tier], "holes_engine",
                              classify=classify, nontrivial=lambda req, impl: impl.startswith("ok"), shards=4)
    inside = sum(1 for r in res if r[1].startswith("ok"))
    if inside * 10 < len(res) * 6:
        raise core.MachineryFault(f"degenerate hole generator: only {inside}/{len(res)} texts inside their domain")
    for kind in ("desc", "strarg", "header", "path"):
        if not any(r[0].startswith("hole\t" + kind) and r[1].startswith("ok") for r in res):
            raise core.MachineryFault(f"hole kind {kind} never exercised")
