ID = "C27"
TITLE = "Generated TypeScript types describe the data actually provided"
TRANSLATORS = []
LEAN_MODULES = ["IsoVerif.Props.C27"]
THEOREMS = ["IsoVerif.Props.C27.C27_param", "IsoVerif.Props.C27.C27_type_text", "IsoVerif.Props.C27.C27_param_server_field",
            "IsoVerif.Props.C27.C27_param_server_object", "IsoVerif.Props.C27.C27_raw_total", "IsoVerif.Props.C27.C27_raw_partial",
            "IsoVerif.Props.C27.C27_witness_empty_selection", "IsoVerif.Props.C27.C27_witness_fragment_overlap"]
HARNESS = ("hx_printers", {"HX_ENGINE": "printers", "HX_PROP": "C27"})
DRIVER = "drv_printers"
CASES = {"quick": 70, "thorough": 6000}
TECHNIQUE = ("Lean 4 theorems over executable models of the parameter-type and raw-response-type printers: one property per selection, type text = rendering of the "
             "schema type's nullable/list structure, raw response type = keys/nesting/list structure of the operation's selection tree (fuel-indexed recursion with a termination theorem); "
             "byte-for-byte correspondence of param_type.ts and raw_response_type.ts with the real compiler; oracle parses the implementation's type texts")
LEVEL_TEXT = ("Kernel-checked: a parameter type has exactly one property per selection of the client field, named by alias-or-name (C27_param); the text printed for a type annotation is "
              "`(… | null)` exactly when it is nullable and `ReadonlyArray<…>` exactly when it is a list (C27_type_text, instantiated for server fields); the raw-response-type recursion terminates "
              "(C27_raw_total) and, for merged maps without inline fragments and empty selection sets, yields exactly the response keys, nullable/list structure and nesting that the operation's "
              "selection tree asks for (C27_raw_partial); the full statement is refuted for an empty selection set and for an inline fragment overlapping the enclosing selection (two witnesses). "
              "Tie: the dump hook records the reader selection set as the printer resolves it (descriptions, type annotations, inner texts) and the schema facts generate_raw_response_type looks up; "
              "the model's bytes of param_type.ts and raw_response_type.ts equal the compiler's; the oracle parses the implementation's type texts and compares them with the parsed operation text + schema table.")
LEVEL_NOTE = ("Trusted: Lean kernel; hand transcription of generate_updatable_and_parameter_type.rs / raw_response_type.rs (validated by bytes); the dump hook's resolution of selections against the schema; "
              "the small TypeScript type-literal parser of the oracle; the TypeScript checker itself is not involved.")
PARTIAL = ["C27_raw_statement is refuted (empty selection set; inline fragment whose fields overlap the enclosing selection): C27_raw_partial covers fragment-free maps without empty selection sets; maps with inline fragments are covered by the oracle on the implementation's files",
           "with inline fragments the expected type has one alternative per fragment (a concrete type matching none of the fragments is not represented, as in the code)",
           "unions with several variants never come out of a GraphQL schema: the type-text theorem is stated for single-variant unions",
           "format_parameter_type of @loadable provided arguments and descriptions are carried as text"]
ASSUMPTIONS = ["schema facts (type annotation, inner text, concreteness) are inputs: the table dumped by the hook"]


def _kind(req):
    f = req.split("\t")
    if len(f) > 2 and f[0].endswith(".op"):
        return {"E": "entrypoint", "R": "refetch-query"}.get(f[2][:1], "op")
    if f[0].endswith(".param"):
        return "param-type"
    return f[0].split(".")[-1]


def nontrivial(req, impl):
    return _kind(req) in ("entrypoint", "param-type") and impl not in ("missing", "")


def classify(req, impl):
    k = [_kind(req)]
    if impl == "missing":
        k.append("missing")
    return k


def check_distribution(dist, cases):
    if dist.get("class:entrypoint", 0) < 20 or dist.get("class:param-type", 0) < 20:
        return f"only {dist.get('class:entrypoint', 0)} raw response types / {dist.get('class:param-type', 0)} parameter types"
    if dist.get("class:fail", 0) > 0:
        return "a catalog project no longer compiles"
    return None
