import json, os
from vlib import core

ID = "C16"
TITLE = "Invalid selections are rejected and valid ones accepted"
TRANSLATORS = []
LEAN_MODULES = ["IsoVerif.Props.C16"]
THEOREMS = ["IsoVerif.Props.C16.C16_iff_rules", "IsoVerif.Props.C16.C16_sound", "IsoVerif.Props.C16.C16_complete",
            "IsoVerif.Props.C16.C16_partial", "IsoVerif.Props.C16.C16_partial_quirkFree",
            "IsoVerif.Props.C16.C16_witness_id_argument",
            "IsoVerif.Props.C16.C16_fixed_witness_linked_missing", "IsoVerif.Props.C16.C16_before_fix_linked_missing",
            "IsoVerif.Props.C16.C16_fixed_witness_nullable_list_variable", "IsoVerif.Props.C16.C16_before_fix_nullable_list_variable",
            "IsoVerif.Props.C16.C16_each_rule_undefined_field", "IsoVerif.Props.C16.C16_each_rule_object_without_selection_set",
            "IsoVerif.Props.C16.C16_each_rule_scalar_with_selection_set", "IsoVerif.Props.C16.C16_each_rule_undefined_argument",
            "IsoVerif.Props.C16.C16_each_rule_missing_argument", "IsoVerif.Props.C16.C16_each_rule_undeclared_variable",
            "IsoVerif.Props.C16.C16_each_rule_unused_variable", "IsoVerif.Props.C16.C16_each_rule_argument_type",
            "IsoVerif.Props.C16.C16_each_rule_duplicate_response_name"]
HARNESS = ("hx_merge", {"HX_ENGINE": "validate"})
DRIVER = "drv_merge"
CASES = {"quick": 1200, "thorough": 48000}
TECHNIQUE = ("Lean 4 theorems relating an executable transcription of the selection-set validators (validate_selection_sets.rs, validate_use_of_arguments.rs, "
             "validate_argument_types.rs, visit_selection_set.rs) to an independently written declarative judgement with one Boolean rule per item of the property; "
             "differential correspondence of the transcription with the real compiler (hx_projgen projects, compiled in-process) on generated well-typed projects, single-fault "
             "mutants of every kind, targeted classes (duplicate response names for all four pairs of selection kinds, required list-typed arguments on scalar and linked fields) and three "
             "known-defect streams; direct oracle on the compiler's own diagnostics")
LEVEL_TEXT = ("Kernel-checked, for every project and every choice of the three rule switches: the modelled validators report no diagnostic iff the declarative judgement holds "
              "(C16_iff_rules; C16_sound / C16_complete are its two directions for the rules as implemented), and for each item of the property a selection that the validators reach and that "
              "violates the item yields a diagnostic of that item's kind (C16_each_rule_*: undefined field, object without / scalar with selection set, undefined argument, missing required "
              "argument, undeclared variable, unused variable, incompatible value or variable type, duplicate response name). The property at full strength (intended rules) is the Prop "
              "C16_statement_at. On the unchanged tree it failed in three ways, each with a kernel-checked witness and a stream of generated cases replayed against the real compiler on every "
              "run; two were repaired in /repo (8835cbc: a required argument missing on a selection with a selection set is now reported; 1645c28: a variable can be passed to an argument whose "
              "type contains a nullable list) and their witnesses now satisfy the statement (C16_fixed_witness_*, with C16_before_fix_* recording the old behaviour); one is an open finding: an "
              "undefined argument called `id` is accepted (C16_witness_id_argument). C16_partial / C16_partial_quirkFree: wherever the deviations do not change the validators' output — in "
              "particular on every program without an undeclared `id` argument — the compiler decides the intended judgement. The transcription is tied to the Rust code by comparing diagnostic kinds on every generated project.")
LEVEL_NOTE = ("Trusted: Lean kernel; the hand transcription of the validators (validated by correspondence only); hx_projgen's renderer and its message-prefix table of diagnostic kinds; "
              "sets of kinds are compared, not counts or locations. Subset = what hx_projgen generates: the other validators aggregated by validate_entire_schema (entrypoint declarations, id "
              "field types, undefined types, directive deserialisation) and all parse errors are outside the model.")
PARTIAL = ["C16_statement_at (intended rules) fails on one open witness (undefined argument `id`); C16_partial carries it under the hypothesis that the deviation does not change the validators' output on the project (syntactic sufficient condition: C16_partial_quirkFree)",
           "'reached by the validators' (Reach) is a hypothesis of every C16_each_rule_* theorem: a selection below one that does not resolve is never looked at by the code",
           "enum / float / list literal values have no iso syntax: the model follows the code (`todo!()` for enum literals) but no generated case exercises them",
           "object literals are only modelled against input-object types; diagnostics are compared as sets of kinds"]
ASSUMPTIONS = ["the projects hx_projgen generates as well-typed violate none of the un-modelled validators (measured: every unmutated case must compile)",
               "diag_kinds::KIND_TABLE maps each compiler message to the kind the model names"]

# targeted classes (harness/merge: fault_duplicate_response_name, list_argument_case)
TARGETED = ["fault:duplicate-response-name:scalar-scalar", "fault:duplicate-response-name:object-object",
            "fault:duplicate-response-name:scalar-alias-vs-object", "fault:duplicate-response-name:object-alias-vs-scalar",
            "fault:missing-required-argument:list-scalar", "fault:missing-required-argument:list-linked",
            "valid:list-argument"]

FAULTS = ["undefined-field", "object-without-selection-set", "scalar-with-selection-set", "undefined-argument",
          "missing-required-argument", "undeclared-variable", "unused-variable", "incompatible-value-type",
          "incompatible-variable-type", "duplicate-response-name"]


def _merged_known(ctx):
    base = core.Ctx.known_findings(ctx)
    p = os.path.join(core.VERIF, "known_findings.d", "merge.json")
    extra = [k for k in json.load(open(p)) if k.get("property") == ID and k.get("status") == "open"]
    seen = {k["signature"] for k in base}
    return base + [k for k in extra if k["signature"] not in seen]


def run(ctx):
    ctx.known_findings = lambda: _merged_known(ctx)
    return core.standard_run(ctx)


def nontrivial(req, impl):
    return True


def classify(req, impl):
    f = req.split("\t")
    if len(f) < 2:
        return "other"
    return [f[1], "impl=" + impl.split(" ")[0]]


def check_distribution(dist, cases):
    need = 50 if cases < 5000 else 500
    for k in FAULTS:
        n = dist.get("class:fault:" + k, 0)
        if n < need:
            return f"fault kind {k} hit only {n} times (< {need})"
    need_t = 15 if cases < 5000 else 150
    for k in TARGETED:
        n = dist.get("class:" + k, 0)
        if n < need_t:
            return f"targeted class {k} hit only {n} times (< {need_t})"
    if dist.get("class:valid", 0) * 10 < cases:
        return "too few unmutated projects"
    if dist.get("class:impl=panic", 0) * 50 > cases:
        return "too many compiler panics in the generated stream"
    return None
