ID = "C31"
TITLE = "Diagnostic excerpts underline exactly the reported span"
TRANSLATORS = []
LEAN_MODULES = ["IsoVerif.Props.C31"]
THEOREMS = ["IsoVerif.Props.C31.C31_render_eq_spec", "IsoVerif.Props.C31.C31_total", "IsoVerif.Props.C31.C31_row",
            "IsoVerif.Props.C31.C31_one_cell_per_char", "IsoVerif.Props.C31.C31_carets_exact"]
HARNESS = ("hx_text", {"HX_ENGINE": "carats"})
DRIVER = "drv_text"
CASES = {"quick": 4000, "thorough": 300000}
TECHNIQUE = "Lean 4 refinement proof: executable model of text_with_carats = declarative per-line excerpt spec, for every text/span/offset; differential correspondence with the real function"
LEVEL_TEXT = ("Kernel-checked: for every text, outer offset, context size and every non-empty span inside the text on character boundaries, the model of "
              "text_with_carats does not panic and returns exactly the declaratively specified excerpt (one caret cell per character, carets under exactly the span's characters, "
              "row = 1 + line feeds before the span). The hand-written model is tied to the Rust function by running both on generated texts/spans (ASCII, BMP, astral, control, "
              "empty lines, off-boundary and out-of-range spans) and comparing output bytes, row and panics; the spec is also evaluated directly on the implementation's output.")
LEVEL_NOTE = "Trusted: Lean kernel; the hand transcription of text_with_carats.rs is validated by correspondence only; `colored` with color=false is the identity; display width (tabs, wide glyphs) is outside the property."
PARTIAL = ["colour mode (ANSI escapes) is not modelled", "u32 overflow of outer+inner offsets is not modelled (texts < 4 GiB)"]
ASSUMPTIONS = ["str::split('\\n'), slicing and chars() behave as modelled on valid UTF-8"]


def nontrivial(req, impl):
    return impl.startswith("ok ") and not impl.startswith("ok - ")


def classify(req, impl):
    if impl == "panic":
        return "panic"
    if impl.startswith("ok - "):
        return "empty-output"
    return "excerpt"


def check_distribution(dist, cases):
    if dist.get("class:excerpt", 0) * 10 < cases * 3:
        return f"only {dist.get('class:excerpt', 0)}/{cases} cases produced an excerpt"
    return None
