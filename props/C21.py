from translators import t3_legend, t_lsp_pico

ID = "C21"
TITLE = "Language-server answers match a fresh server on the same contents"
TRANSLATORS = [t3_legend.translate, t_lsp_pico.translate]   # drv_lsp links Gen/Legend.lean
LEAN_MODULES = ["IsoVerif.Props.C21"]
THEOREMS = ["IsoVerif.Props.C21.C21_maps", "IsoVerif.Props.C21.C21_effective", "IsoVerif.Props.C21.C21",
            "IsoVerif.Props.C21.C21_witness_stale_after_first_open", "IsoVerif.Props.C21.C21_partial",
            "IsoVerif.Props.C21.C21_stale_characterised"]
HARNESS = ("hx_lsp", {"HX_ENGINE": "lspstate"})
DRIVER = "drv_lsp"
CASES = {"quick": 600, "thorough": 10000}
TECHNIQUE = ("Lean 4 theorems by induction over notification/edit/request histories on a model of the server's disk map, open-buffer map and the memo layer over them; "
             "correspondence: a real LspState is driven through the same histories (didOpen/didChange/didClose handlers, update_sources for disk edits) and after every step "
             "every answer is compared with a freshly constructed real server")
LEVEL_TEXT = ("Kernel-checked, for every history of open/change/close notifications, on-disk edits and requests: the server's maps denote the same effective contents as a fresh "
              "server on the final disk and final open buffers (C21_maps, C21_effective), and what the running server answers from equals that (C21) provided pico tracks reads of "
              "absent singletons — a fact regenerated from pico's get_impl on every run (translator t_lsp_pico; true since fix 79c6822). Without it the statement is false "
              "(C21_witness_stale_after_first_open, the original F1 behaviour; its history is replayed against the real server on every run), holds only when no request precedes the "
              "first buffer notification (C21_partial), and the only possible error is answering from the disk text of an open file (C21_stale_characterised). Tie: the model's prediction "
              "of the contents the real server answers from is compared per step with read_iso_literals_source_from_relative_path, and diagnostics, semantic tokens, formatting, hover and "
              "go-to-definition of the running real server are compared with a fresh real server on the same disk and buffers.")
LEVEL_NOTE = ("Trusted: Lean kernel; the hand model of the tracked-field counter / memo interaction (pico view.rs, read_iso_literals_source), validated by correspondence only; "
              "that every answer is a function of the contents answered from is C01 + compiler determinism and is tied here by the per-step comparison with a fresh real server, "
              "not by a Lean theorem; watcher events are assumed delivered one per changed path (C20's DeliversAll).")
PARTIAL = ["panics of the running server are outside the Lean model: the harness reports them (signatures panic-after-disk-remove / panic:<request>), restarts the server and resets the model's memo layer; the panic after an on-disk removal seen before pico 79c6822 no longer reproduces",
           "OPEN FINDING fresh-servers-disagree: with duplicate erroneous declarations the diagnostics of two fresh servers differ (hash-map order); outside the Lean model",
           "start-up with no source file at all (the IsoLiteralMap counter then has the same first-write defect) is excluded from model and generator",
           "a semantic-token request for a path the server does not know panics inside the memoised function; such requests are not issued",
           "schema / config edits and folder events are C20's subject and are not part of the histories"]
ASSUMPTIONS = ["every on-disk edit reaches update_sources as one CreateOrModify/Remove event for that path",
               "the garbage collector (60 s period) does not run during a history"]


def nontrivial(req, impl):
    return req.startswith("check")


def classify(req, impl):
    op = req.split("\t", 1)[0]
    if op == "check":
        last = impl.split(" ")[-1] if impl else ""
        return ["check:" + last.split(":")[0]]
    return [op]


def check_distribution(dist, cases):
    checks = sum(v for k, v in dist.items() if k.startswith("class:check:"))
    if checks == 0:
        return "no check step generated"
    if dist.get("class:check:agree", 0) * 5 < checks:
        return f"only {dist.get('class:check:agree', 0)}/{checks} checks agree"
    for op in ("open", "change", "close", "write", "remove"):
        if dist.get("class:" + op, 0) == 0:
            return f"no {op} step generated"
    return None
