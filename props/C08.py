from props import _arts

ID = "C08"
TITLE = "The compiler never crashes on any project"
TRANSLATORS = []
LEAN_MODULES = ["IsoVerif.Props.C08"]
THEOREMS = ["IsoVerif.Props.C08." + t for t in ("C08_no_panic_partial", "C08_modelled_sites_complete", "C08_witness_cycle",
                                                "C08_witness_loadable_without_refetch_strategy")]
HARNESS = ("hx_arts", {"HX_ENGINE": "crash"})
DRIVER = "drv_arts"
CASES = {"quick": 160, "thorough": 5000}
TECHNIQUE = ("subprocess oracle: generated projects (valid; single-fault mutants; one stream per known-defect switch of hx_projgen: cycles, @loadable without refetch strategy / over nested refetch paths, "
             "variables below asConcreteType, cross-type pointers, pointer variables, pointers to unfetchable types, unparseable values), byte-level mutations of the three demo projects (sources, schemas, "
             "extensions, configs) and hand-written witnesses go through the real isograph_cli binary: exit 0 with artifacts or exit 1 with a diagnostic, never exit 101, a signal or a timeout; the same "
             "projects in-process under catch_unwind must agree; watch-mode sequences (compile, edit to a mutant, update_sources, recompile, regroup files, recompile, restore) in one CompilerState. "
             "Lean 4: the panic sites of the artifact-generation walk that structured projects reach (unbounded recursion through client fields, missing refetch strategy, list values) as explicit "
             "Except.error outcomes; theorem that none is reached inside the envelope; correspondence: for the streams valid/cycle/lwrs the model must predict exactly what the real binary does")
LEVEL_TEXT = ("Kernel-checked: inside the envelope (declaration i only selects client fields and pointers declared before it, no list values, @loadable client fields only on root types or types with id) the "
              "generator's walk reaches none of the modelled panic sites (C08_no_panic_partial; the three sites are the whole model: C08_modelled_sites_complete); outside it the property is false (C08_witness_cycle = F20, "
              "C08_witness_loadable_without_refetch_strategy). The model's outcome — no panic, stack overflow, or `Expected refetch strategy` — is compared with the real CLI binary on every project of "
              "the modelled streams. Everything else is the subprocess oracle: exit status, signal and stderr of the real binary on generated, mutated and raw-mutated projects, and catch_unwind on "
              "watch-mode recompiles.")
LEVEL_NOTE = ("Trusted: Lean kernel; hx_projgen (generator, renderer, CLI runner); the panic-signature table of harness/arts (message substring -> signature). Panic sites outside the three modelled ones — "
              "config and schema parsing, iso parser, validation, all printers, file system, watch mode — are covered by the oracle only; seven panic classes on validated programs are open findings. "
              "A malformed configuration file is rejected by create_config with a panic by design (class config-rejected, outside the property's `well-formed configuration`).")
PARTIAL = ["the theorem covers three panic sites of the artifact-generation walk (stack overflow through cyclic client fields, missing refetch strategy, list values); every other expect/panic!/index of the "
           "pipeline is covered by the subprocess oracle only",
           "termination is observed with a 120 s timeout per compile, not proved",
           "watch mode: update_sources + recompile sequences run in-process under catch_unwind (a stack overflow there would abort the harness; cyclic projects are excluded from that stream)"]
ASSUMPTIONS = ["exit code 101 = Rust panic, SIGABRT with `has overflowed its stack` = stack overflow", "the in-process driver of hx_projgen does what isograph_cli does"]


def run(ctx):
    return _arts.run(ctx, ID, "crash", shards=8, needs_cli=True)


def nontrivial(req, impl):
    return "cli=ok" in impl or "steps=ok" in impl


def classify(req, impl):
    f = req.split("\t")
    stream = f[1] if f[0] in ("cm", "co") else f[0]
    return ["stream=" + stream, "outcome=" + impl.split(" ")[0].split(":")[0], "stream=" + stream + ":" + ("nopanic" if impl.startswith("nopanic") else "other")]


def check_distribution(dist, cases):
    for s in ("valid", "cycle", "lwrs", "mutant", "raw", "watch"):
        if dist.get("class:stream=" + s, 0) == 0:
            return f"stream {s} missing"
    gen_ok = dist.get("class:stream=valid:nopanic", 0)
    if gen_ok * 10 < dist.get("class:stream=valid", 0) * 9:
        return "fewer than 90% of the valid generated projects compile"
    return None
