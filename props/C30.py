from translators import t2_gql_tokens

ID = "C30"
TITLE = "The schema parser reads the schema the specification defines"
TRANSLATORS = [t2_gql_tokens.translate]
LEAN_MODULES = ["IsoVerif.Props.C30"]
_P = "IsoVerif.Props.C30."
THEOREMS = [_P + t for t in (
    "C30_block_partial", "C30_witness_lone_cr", "C30_witness_escaped_triple_quote", "C30_block_statement_false",
    "C30_total", "C30_type", "C30_value_partial", "C30_description", "C30_directives_partial",
    "C30_inputvalue_partial", "C30_fields_partial", "C30_witness_value_alternative_resumes",
    "C30_witness_string_escapes_verbatim", "C30_witness_lone_cr_block_string", "C30_witness_escaped_triple_quote_doc",
    "C30_witness_block_string_constant", "C30_fixed_directive_definition_missing_at",
    "C30_fixed_directive_location_schema", "C30_witness_union_without_members", "C30_witness_int_overflow_i64",
    "C30_witness_empty_extension", "C30_witness_empty_document", "C30_witness_repeatable",
    "C30_witness_interface_implements", "C30_witness_schema_description", "C30_witness_variable_definition_location",
    "C30_witness_number_followed_by_name", "C30_witness_number_leading_zero",
    "C30_witness_panic_block_string_char", "C30_statement_false")]
HARNESS = ("hx_gql", {"HX_ENGINE": "schema"})
DRIVER = "drv_gql"
CASES = {"quick": 3200, "thorough": 120000}
TECHNIQUE = ("Lean 4: hand model of parse_schema.rs / description.rs function by function (explicit panic outcomes, error positions) over "
             "relay's generated token table; proofs that clean_block_string_literal equals the specification's BlockStringValue() on its "
             "domain, that no panic site is reachable, and that parse_type_annotation / parse_constant_value equal the reference grammar; "
             "differential correspondence of parse_schema / parse_schema_extensions with the hand model and direct oracle = the reference "
             "SDL parser written from the June-2018 specification")
LEVEL_TEXT = ("Kernel-checked, for every input: clean_block_string_literal = BlockStringValue() on every block-string text without a lone "
              "CR and without \\\"\"\" (both exclusions shown necessary by witnesses); parse_schema / parse_schema_extensions reach none of "
              "their expect/assert! sites on any token list; parse_type_annotation reads exactly the grammar's Type and parse_constant_value "
              "(alternatives committed) exactly the constant Value, and descriptions, directives, argument definitions and field-definition lists "
              "exactly the reference grammar's with the compiler's switches, for every token list and fuel. The hand "
              "model is tied to the crate by running both on generated SDL (descriptions with block strings and escapes, defaults of every "
              "kind, directives, extensions, mutants) and comparing accept/reject and the location-free GraphQLTypeSystemDocument tree; "
              "the reference parser is evaluated directly on the crate's answers; every deviation has a witness theorem and a known finding.")
LEVEL_NOTE = ("Trusted: Lean kernel; translator T2 (relay token table; DirectiveLocation variants); the hand transcription of parse_schema.rs "
              "(validated by correspondence only beyond types and values); the reading of the June-2018 specification in Model/GqlLex.lean + "
              "Model/GqlParse.lean (no independent GraphQL implementation is installed: the reference is this Lean model); the Rust printer "
              "of graphql_lang_types' AST in harness/gql/src/sexp.rs (floats are printed as their source text after checking that the text "
              "denotes exactly the stored f64).")
PARTIAL = [
    "C30_accept / C30_tree (hand model = reference grammar with the compiler's switches: same acceptance, same tree, same remaining tokens) are proved for type annotations, constant values, descriptions, directives, argument/input-field definitions and braced field-definition lists (C30_type, C30_value_partial, C30_description, C30_directives_partial, C30_inputvalue_partial, C30_fields_partial); for the definition keywords (implements lists, union members, enum values, schema and directive definitions), the document loop and the supported-subset filter the equality is checked differentially on every generated document (the driver evaluates hand model, reference-with-switches and reference)",
    "the step from reference-with-switches to the reference (the switches themselves) is exactly the list of known findings; that relay's lexer agrees with the specification's lexical grammar outside the two number findings is shown per token class (C29_lex_*) and differentially",
    "supported subset = definitions (schema, scalar, type, interface, union, enum, input, directive) and, in an extension document, `extend type`; a schema definition naming a root operation type twice counts as invalid SDL (§3.2)",
    "the relay lexer the parser runs on is the model shared with C29 (generated token table + hand-modelled callbacks); it is lazy in the crate and eager in the model, so a character that makes the lexer panic is only generated in otherwise valid documents",
    "source locations (spans) are not compared",
]
ASSUMPTIONS = [
    "June 2018 lexical grammar read with maximal munch; `\"\"\"` always opens a block string; `&` is a punctuator; no look-ahead restriction on numbers",
    "documents with characters outside the June-2018 SourceCharacter set are only checked for panics (a panic is reported, accept/reject is not judged)",
    "Rust str::lines, i64/f64 FromStr, strum EnumString(SCREAMING_SNAKE_CASE) as modelled",
]


def nontrivial(req, impl):
    return impl.startswith("accept")


def classify(req, impl):
    op = req.split("\t", 1)[0]
    return [op + ":" + impl.split(" ", 1)[0]]


def check_distribution(dist, cases):
    acc = dist.get("class:schema:accept", 0) + dist.get("class:ext:accept", 0)
    if cases < 2000:
        return f"only {cases} documents"
    if acc * 10 < cases * 4:
        return f"only {acc}/{cases} documents accepted"
    if dist.get("class:schema:reject", 0) + dist.get("class:ext:reject", 0) < cases // 20:
        return "almost no rejected documents"
    return None
