from translators import t4_memo

ID = "C04"
TITLE = "Distinct memoized functions never share cached results"
TRANSLATORS = [t4_memo.translate]
LEAN_MODULES = ["IsoVerif.Props.C04"]
THEOREMS = ["IsoVerif.Props.C04." + t for t in (
    "C04_isolation", "C04_noninterference", "C04_key_injective", "C04_recipe_includes_site",
    "C04_statement_current", "C04_isolation_partial", "C04_witness_same_sig", "C04_witness_isolation_fails",
    "C04_witness_macro_generated",
    "C04_repo_keys_consistent", "C04_repo_nodup", "C04_repo_nodup_all", "C04_repo_nonempty")]
HARNESS = ("hx_memo", {"HX_ENGINE": "samesig"})
DRIVER = "drv_memo"
CASES = {"quick": 2000, "thorough": 100000}
TECHNIQUE = ("Lean 4 theorems over an executable model of the memo table keyed by (function key, parameter ids), with the key recipe and the "
             "table of every #[memo] site regenerated from the Rust sources on every run (the signature strings and DefaultHasher values are "
             "computed inside rustc by a proc macro of the harness, exactly as pico_macros::memo computes them) + differential correspondence "
             "and direct oracle against the real pico / pico_macros on functions with textually identical signatures")
LEVEL_TEXT = ("Kernel-checked theorems: for every program and every history of calls over one database, if the function key is injective on the "
              "program then every call returns its own function's value and no call changes what another function returns (C04_isolation, "
              "C04_noninterference, induction over the history); the key of the macro as it is in the source today -- DefaultHasher of the signature "
              "text folded with module_path:line:column of the definition -- is injective under two stated facts, a Rust language fact (two function "
              "items do not share module, line and column) and absence of 64-bit collisions on the program (C04_key_injective; the site text is proved "
              "to determine module path, line and column); for the concrete repository the real 64-bit keys of all #[memo] functions are pairwise "
              "distinct in every group of functions that can meet in one database, and even across the whole repository (C04_repo_nodup, "
              "C04_repo_nodup_all, kernel evaluation over the table regenerated from the current sources), and the model's own computation of the key "
              "reproduces the harness's (C04_repo_keys_consistent). The unrepaired recipe (signature text only, defect F4) is refuted by "
              "C04_witness_same_sig / C04_witness_isolation_fails; the repair is /repo commit d265481.")
LEVEL_NOTE = ("Trusted: Lean kernel; translator t4_memo + proc macro hx_memo_probe (module-tree walk, recognition of the key recipe in memo_macro.rs by exact "
              "shape); DefaultHasher is an opaque function in the general theorems and a table of real values for the repository theorems. The keys T4 "
              "predicts (module path, line, column, signature string, hash, fold) are compared on every run with the keys the real macro built for the "
              "31 table functions of the harness (op samesig.key), not for the functions of /repo themselves.")
PARTIAL = ["OPEN FINDING same-signature-collision:macro-generated: the hypothesis SiteUnique of C04_key_injective / C04_isolation_partial is a real restriction -- "
           "one macro_rules! invocation that defines the function twice in one module yields one key (Lean witness C04_witness_macro_generated, replayed on the real crate on every run)",
           "the store model has no sources, epochs or garbage collection: a function's value depends on its arguments only (invalidation is C01/C02's subject); "
           "parameter ids are identified with the parameters (collisions of parameter hashes are outside C04)",
           "T4 refuses (TranslateError) sources of /repo where a #[memo] is hidden in a macro body or an include!-d file, so the repository theorems are not affected by that finding; "
           "the harness's own macro-generated / include!-d functions are excluded from the table by a stated marker (T4-EXCLUDE) and carry their site in the request",
           "HashInjectiveOn (no 64-bit collision on the program) is a hypothesis of C04_key_injective; it is a theorem only for this repository's functions"]
ASSUMPTIONS = ["rustc: line!()/column!() in the output of an attribute macro are those of the `#` of the attribute (checked on every run by samesig.key)",
               "one database per group: library-target functions are grouped by the name of their database type, test-target functions by the module that defines their database struct"]


def nontrivial(req, impl):
    if req.startswith("samesig.key"):
        return impl.startswith("found")
    if impl in ("bad-request", "panic", ""):
        return False
    # a history is non-trivial when two different functions with the same signature family are called
    calls = req.split("\t", 1)[1].split(";") if "\t" in req else []
    names = {}
    for c in calls:
        q = c.split("/")[0]
        short = q.rsplit("::", 1)[-1]
        names.setdefault(short, set()).add(q)
    return any(len(v) > 1 for v in names.values())


def classify(req, impl):
    if impl == "bad-request":
        return "malformed"
    if req.startswith("samesig.key"):
        return "key-" + impl.split(" ")[0]
    out = ["hist"]
    calls = req.split("\t", 1)[1].split(";")
    if len(set(calls)) < len(calls):
        out.append("hist-with-cache-hit")
    if nontrivial(req, impl):
        out.append("hist-same-signature-pair")
    return out


def check_distribution(dist, cases):
    pairs = dist.get("class:hist-same-signature-pair", 0)
    if pairs * 4 < cases:
        return f"only {pairs}/{cases} histories call two functions with identical signatures"
    if dist.get("class:key-found", 0) == 0 or dist.get("class:key-missing", 0) == 0:
        return "key probes do not exercise both outcomes"
    if dist.get("class:hist-with-cache-hit", 0) * 5 < cases:
        return "too few histories repeat a call (cache hits)"
    return None


def extra(ctx, harness_bin, driver_bin):
    try:
        ctx.cov["memo_sites"] = t4_memo.summary()
    except Exception as e:  # the translator step already reported a broken tie
        ctx.notes.append(f"memo site summary unavailable: {e}")
