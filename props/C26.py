ID = "C26"
TITLE = "Persisted document ids match the documents they name"
TRANSLATORS = []
LEAN_MODULES = ["IsoVerif.Props.C26"]
THEOREMS = ["IsoVerif.Props.C26.C26_ids", "IsoVerif.Props.C26.C26_docs_hashed", "IsoVerif.Props.C26.C26_exact",
            "IsoVerif.Props.C26.C26_records", "IsoVerif.Props.C26.C26_same_tree", "IsoVerif.Props.C26.C26_same_partial",
            "IsoVerif.Props.C26.C26_backslash_repaired", "IsoVerif.Props.C26.C26_witness_quote"]
HARNESS = ("hx_printers", {"HX_ENGINE": "printers", "HX_PROP": "C26"})
DRIVER = "drv_printers"
# projects x {md5, sha256, md5+extra info, sha256+extra info, sha256+custom file name}
CASES = {"quick": 70, "thorough": 5000}
TECHNIQUE = ("Lean 4 theorems about the plumbing of operation ids through generate_operation_text and the persisted-documents map (hash = opaque parameter), "
             "and an induction over the selection tree showing that compact and pretty operation texts differ only in insignificant characters outside string literals; "
             "byte-for-byte correspondence of entrypoint.ts / __refetch__N.ts / persisted documents JSON with the real compiler; real MD5/SHA-256 recomputed by the harness")
LEVEL_TEXT = ("Kernel-checked: every operation id written into an artifact names a recorded document whose hash it is, every recorded document sits under its own hash, and the documents "
              "file records exactly the referenced ids (C26_ids, C26_docs_hashed, C26_exact, C26_records; H is a parameter); the recorded (compact) text and the JavaScript value of the "
              "pretty text of query_text.ts are renderings of one selection tree (C26_same_tree) and are equal up to insignificant characters outside string literals whenever names and "
              "strings contain no quote, backslash or line terminator (C26_same_partial); a backslash in a string used to make them differ and no longer does since the text is escaped when embedded (C26_backslash_repaired, /repo dc59a0f); an unescaped double quote in a string still does (C26_witness_quote; not writable in an iso literal). Tie: projects compiled in-process with "
              "md5/sha256 x extra info x custom file name; the model's bytes of the artifacts and of the documents file equal the compiler's; the oracle recomputes the real digests of the recorded "
              "documents (md-5 / sha2 crates in the harness), compares the id sets, and compares each recorded document with the operation text of the non-persisted build of the same project.")
LEVEL_NOTE = ("Trusted: Lean kernel; MD5/SHA-256 are opaque in the theorems (real digests come from the harness); serde_json's string escaping and pretty layout are hand-modelled and validated by bytes; "
              "JavaScript evaluation of the embedded single-quoted text is hand-modelled (oracle side).")
PARTIAL = ["C26_same_statement is refuted for a string holding an unescaped double quote (C26_witness_quote; the iso lexer does not produce such strings): C26_same_partial needs names/strings without quote, backslash, apostrophe and line terminators; strings with well-formed backslash escapes are covered by the oracle on the implementation only",
           "collision freedom of the hash is not assumed: two operations with one hash share an entry (C26_records states which text is recorded)"]
ASSUMPTIONS = ["md-5 / sha2 / hex crates compute lower-case hex digests", "serde_json::to_string_pretty layout as modelled (two-space indent, `\": \"` separators)"]


def _kind(req):
    f = req.split("\t")
    if f[0].endswith(".persisted"):
        return "documents-file"
    if len(f) > 2 and f[0].endswith(".op"):
        return {"E": "entrypoint", "R": "refetch-query"}.get(f[2][:1], "op")
    return f[0].split(".")[-1]


def nontrivial(req, impl):
    return _kind(req) in ("documents-file", "entrypoint", "refetch-query") and impl not in ("missing", "")


def classify(req, impl):
    k = [_kind(req)]
    f = req.split("\t")
    if len(f) > 1 and "@" in f[1]:
        k.append("cfg:" + f[1].rsplit("@", 1)[1])
    if impl == "missing":
        k.append("missing")
    return k


def check_distribution(dist, cases):
    if dist.get("class:documents-file", 0) < 20:
        return f"only {dist.get('class:documents-file', 0)} persisted-documents files"
    for cfg in ("md5", "sha256", "md5x", "sha256x", "sha256f"):
        if dist.get("class:cfg:" + cfg, 0) == 0:
            return f"configuration {cfg} never exercised"
    if dist.get("class:project-failed", 0) > 0 or dist.get("class:fail", 0) > 0:
        return "a catalog project no longer compiles"
    return None
