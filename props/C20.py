import json, os
from translators import t7_watch
from vlib import core

ID = "C20"
TITLE = "Watch mode produces what a fresh batch compile would"
TRANSLATORS = [t7_watch.translate]
LEAN_MODULES = ["IsoVerif.Props.C20"]
THEOREMS = ["IsoVerif.Props.C20." + t for t in (
    "C20_facts", "C20_refine", "C20_fresh", "C20_session", "C20_alive",
    "C20_fixed_witness_F10", "C20_fixed_witness_events")]
HARNESS = ("hx_watch", {"HX_ENGINE": "watch"})
DRIVER = "drv_watch"
CASES = {"quick": 400, "thorough": 12000}
TECHNIQUE = ("Lean 4 refinement theorems over an executable model of the watch-mode source database (event categorisation of watch.rs, update_sources and its handlers, "
             "initialize_sources, the filters of read_files.rs; the literals and six repaired decision points regenerated from the Rust source on every run) + differential "
             "correspondence against the REAL categorize_and_filter_events / update_sources / compile in one CompilerState on a generated project in a temp directory, with a fresh "
             "CompilerState compiling a copy of the resulting tree as implementation-vs-implementation oracle")
LEVEL_TEXT = ("Kernel-checked, for every configuration, database, pair of file systems and event batch: if the database holds path for path what initialize_sources (a fresh batch compile) "
              "reads from the old tree and the batch delivers all changes (DeliversAll: the last thing the batch says about each path, read literally, is true of the new tree; untouched paths "
              "did not change; schema files are edited in place), then after update_sources it holds what a fresh batch compile reads from the new tree (C20_refine; C20_fresh ties Reflects to "
              "initialize_sources; C20_session lifts it to every sequence of batches by induction), and update_sources returns no error - the only exit of the watch loop - whatever the files are "
              "(non-source, __isograph, non-UTF-8) as long as nothing reported as created has vanished again (C20_alive). C20_facts re-proves on every run that the source still has the six repairs "
              "the proofs need (component-wise prefix, filtered single-file events, rename reads its target, non-UTF-8 skipped, From/To and Create(Folder) handled); C20_fixed_witness_* show the "
              "original decision points failing on concrete batches. Equal databases give equal artifacts and diagnostics by C01 (pico); that composition is not proved here but observed on every case: "
              "the watch-mode compile (with garbage collections interleaved) and the fresh compile agree on artifacts (names, bytes) and diagnostics.")
LEVEL_NOTE = ("Trusted: Lean kernel; translator t7_watch (syntactic shapes of the six decision points, the categorisation order, the handlers' arms); the event table of harness/watch/src/tree.rs "
              "(recorded from notify 7.0.0 inotify.rs + notify-debouncer-full 0.4.0 and replayed once against a real debounced inotify watcher with `hx_watch probe`) - the theorem's hypothesis "
              "DeliversAll/NoRace is evaluated in its decidable form (sound by Lemmas/WatchCheck) on every generated batch, so a row of the table that is not truthful fails the check; file contents are "
              "abstracted to an identifier plus the UTF-8 bit; one file-system state serves categorisation and update (no change in between); permission errors and symbolic links are not modelled; "
              "diagnostics are compared as (kind, message) multisets because which of two files holding the same declaration a diagnostic points at follows HashMap iteration order in batch mode as well.")
PARTIAL = ["the debouncer is an assumption (DeliversAll): every change is reported, and the last report about a path is consistent with the final tree; coalescing of several edits of one path inside one debounce window is not modelled beyond the rows of the event table",
           "C20_alive excludes races (a path reported as created is gone when the batch is handled) and removal / renaming / unreadability of the schema and its extensions: there update_sources still returns the error that ends the watch loop (a batch compile of such a tree cannot start either)",
           "config changes (a new CompilerState is created) and a schema placed below project_root (categorised as a source file, reading only) are outside the generated layouts",
           "equal sources => equal artifacts and diagnostics is property C01 composed by observation (fresh CompilerState oracle in the same process, so interning order is shared), not by a theorem here"]
ASSUMPTIONS = ["notify 7.0.0 (inotify) + notify-debouncer-full 0.4.0 deliver the events of the table in harness/watch/src/tree.rs for the listed edits (DeliversAll)",
               "the working directory's absolute path does not contain `__isograph`",
               "get_artifact_path_and_content is a function of the source database (C01)"]


def _merged_known(ctx):
    base = core.Ctx.known_findings(ctx)
    p = os.path.join(core.VERIF, "known_findings.d", "watch.json")
    extra = [k for k in json.load(open(p)) if k.get("property") == ID and k.get("status") == "open"]
    seen = {k["signature"] for k in base}
    return base + [k for k in extra if k["signature"] not in seen]


def run(ctx):
    ctx.known_findings = lambda: _merged_known(ctx)
    return core.standard_run(ctx)


def nontrivial(req, impl):
    """at least one batch reached update_sources and was compared with a fresh compile"""
    return "us:ok" in impl and " A:" in impl


def classify(req, impl):
    out = []
    f = impl.split(" ")
    if any(x.startswith("init-error") for x in f):
        return ["initial-compile-failed"]
    kinds = set()
    for x in f:
        if x.startswith("ev:") and x != "ev:none":
            for e in x[3:].split(";"):
                kinds.add(e.split(":")[0])
    out += ["event=" + k for k in sorted(kinds)]
    if "ev:none" in f:
        out.append("batch-ignored")
    r = req.split("\t")
    raw = set()
    for st in r[3:]:
        parts = st.split("|")
        if len(parts) == 3:
            for e in parts[1].split(";"):
                raw.add(e.split(":")[0])
            if parts[2] == "g" and "gc" not in out:
                out.append("gc")
    out += ["raw=" + k for k in sorted(raw) if k != "-"]
    if any((":b" in st.split("|")[0] or "+b" in st.split("|")[0]) for st in r[3:]):
        out.append("non-utf8-written")
    if "us:ok" in f:
        out.append("recompiled")
    return out


def check_distribution(dist, cases):
    need = {"class:recompiled": 0.8, "class:event=D-": 0.15, "class:event=D>": 0.03, "class:event=F>": 0.05, "class:event=F+": 0.5,
            "class:event=S+": 0.1, "class:raw=f": 0.02, "class:raw=t": 0.03, "class:raw=cd": 0.05, "class:raw=a": 0.05,
            "class:non-utf8-written": 0.1, "class:gc": 0.3}
    for k, frac in need.items():
        if dist.get(k, 0) < cases * frac:
            return f"only {dist.get(k, 0)}/{cases} cases have {k[6:]}"
    return None
