"""Shared by props/C08.py, C13.py, C14.py, C24.py (family `arts`)."""
import json, os, time
from vlib import core

FAMILY_FINDINGS = os.path.join(core.VERIF, "known_findings.d", "arts.json")
CLI_TARGET = os.path.join(core.HARNESS, "target", "isograph_cli")


def merged_known(ctx, pid):
    """known_findings.json is generated from known_findings.d/*.json at development time; read the family
    file as well, so that the check does not depend on when the aggregate was last regenerated."""
    base = core.Ctx.known_findings(ctx)
    extra = [k for k in json.load(open(FAMILY_FINDINGS)) if k.get("property") == pid and k.get("status") == "open"]
    seen = {k["signature"] for k in base}
    return base + [k for k in extra if k["signature"] not in seen]


def rebuild_cli(ctx):
    """The subprocess oracle runs /repo's CURRENT isograph_cli: (re)build it, incrementally."""
    with core.BuildLock():
        t = time.time()
        rc, out = core.sh(["cargo", "build", "-q", "-p", "isograph_cli", "--offline", "--target-dir", CLI_TARGET],
                          cwd=core.REPO, timeout=3600)
        ctx.cov.setdefault("build", {})["isograph_cli_s"] = round(time.time() - t, 1)
    if rc != 0:
        ctx.tie_broken = "isograph_cli no longer builds from /repo:\n" + out[-3000:]
        return False
    return True


def run(ctx, pid, engine, shards=None, needs_cli=False):
    ctx.known_findings = lambda: merged_known(ctx, pid)
    if needs_cli:
        rebuild_cli(ctx)
    orig_correspond, orig_corpus = core.correspond, core.corpus_lines
    nshards = shards

    def sharded(c, hb, db, n, env=None, classify=None, nontrivial=None, shards=None):
        return orig_correspond(c, hb, db, n, env=env, classify=classify, nontrivial=nontrivial,
                               shards=shards if shards is not None else nshards)

    def corpus_of_engine(c):
        return [l for l in orig_corpus(c) if l.split("\t", 1)[0] in ENGINE_OPS[engine]]
    core.correspond = sharded
    core.corpus_lines = corpus_of_engine
    try:
        return core.standard_run(ctx)
    finally:
        core.correspond, core.corpus_lines = orig_correspond, orig_corpus


def second_engine(ctx, harness_bin, driver_bin, engine, n, key, classify=None, nontrivial=None, shards=None):
    """Corpus-free extra correspondence run on another engine of hx_arts; results are decided like the main run.
    Statistics go to ctx.cov[key]."""
    env = {"HX_ENGINE": engine}
    before = dict(ctx.cov["correspondence"].get("distribution", {}))
    # the corpus belongs to the main engine: run only generated cases here
    saved = core.corpus_lines
    core.corpus_lines = lambda c: [l for l in raw_corpus_lines(c) if l.split("\t", 1)[0] in ENGINE_OPS.get(engine, ())]
    try:
        problems, results = core.correspond(ctx, harness_bin, driver_bin, n, env=env, classify=classify,
                                            nontrivial=nontrivial, shards=shards)
    finally:
        core.corpus_lines = saved
    after = ctx.cov["correspondence"].get("distribution", {})
    ctx.cov[key] = {"engine": engine, "cases": len(results),
                    "distribution": {k: v - before.get(k, 0) for k, v in after.items() if v - before.get(k, 0)}}
    core.decide(ctx, problems, harness_bin, driver_bin, env)
    return results


# which corpus ops belong to which engine (a corpus directory is shared by the engines of one property)
ENGINE_OPS = {
    "holes": ("hole",),
    "arts": ("artsp", "artsi", "artsdemop", "artsdemoi"),
    "det": ("det", "detdiag", "detdup", "detep"),
    "crash": ("cm", "co", "cof", "raw", "watch"),
    "overloads": ("ovl", "ovlnc", "ovlws"),
}


def raw_corpus_lines(ctx):
    d = os.path.join(core.VERIF, "corpus", ctx.id)
    lines = []
    if os.path.isdir(d):
        for fn in sorted(os.listdir(d)):
            if fn.endswith(".txt"):
                for l in open(os.path.join(d, fn), encoding="utf-8").read().splitlines():
                    if l and not l.startswith("#"):
                        lines.append(l)
    return lines
