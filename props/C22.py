from translators import t3_legend, t_lsp_pico

ID = "C22"
TITLE = "Formatting preserves meaning and is idempotent"
TRANSLATORS = [t3_legend.translate, t_lsp_pico.translate]
LEAN_MODULES = ["IsoVerif.Props.C22", "IsoVerif.Props.C23"]
THEOREMS = ["IsoVerif.Props.C22.C22_table", "IsoVerif.Props.C22.C22_kept_only", "IsoVerif.Props.C22.C22_idem",
            "IsoVerif.Props.C22.C22_tokens", "IsoVerif.Props.C22.C22_separated", "IsoVerif.Props.C22.C22_breaks",
            "IsoVerif.Props.C22.C22_total", "IsoVerif.Props.C22.C22_meaning_partial", "IsoVerif.Props.C23.C23_edit"]
HARNESS = ("hx_lsp", {"HX_ENGINE": "format"})
DRIVER = "drv_lsp"
CASES = {"quick": 3000, "thorough": 150000}
TECHNIQUE = ("Lean 4 theorems over an executable model of format_extraction (a fold over the literal's semantic tokens) and the semantic-token legend "
             "regenerated from the Rust source on every run; differential correspondence with the real formatter; oracle = real re-parse of the formatted text")
LEVEL_TEXT = ("Kernel-checked, for every token list: the formatter's output is exactly the kept (non-comma) tokens' texts in order, separated by spaces/line feeds only "
              "(C22_tokens); it is a function of the kept tokens alone, hence formatting a text with the same kept tokens changes nothing (C22_kept_only, C22_idem); for every "
              "grammar-adjacent pair of legend entries either a separator is written or gluing cannot change a token boundary (C22_table, decided over the regenerated "
              "legend; C22_separated); a line feed is written before every token at which the parser consults 'comma or line break' (C22_breaks), so the same declaration is "
              "parsed for any parser that depends only on tokens and those separators (C22_meaning_partial); the edit range is the literal's extent under UTF-16 (C23_edit). "
              "Tie: the model's output is compared byte for byte with the real formatter on generated documents; on the implementation the real parser re-parses every "
              "formatted literal (accepted, same location-free declaration, same kept tokens with the same legend entries, formatting again changes nothing).")
LEVEL_NOTE = ("Trusted: Lean kernel; translator T3; the hand transcription of format_extraction; the two hand tables next/classesOf (grammar adjacency of legend entries, lexical "
              "classes) and glueSafe, which are validated on every real token stream by the oracle (signature grammar-table) but not derived from a parser model in Lean.")
PARTIAL = ["C22_meaning_partial is relative to the explicit hypothesis ParserDependsOnlyOnTokens (and to the lexical reading of glueSafe); it is discharged by correspondence: the real "
           "parser re-parses every formatted literal and the location-free declarations are compared. No Lean parser model is used.",
           "idempotence on text level (format (format s) = format s) is C22_idem + 'the tokens of the output are the kept tokens with the same entries', the latter checked on the real parser per case",
           "release builds wrap the i8 indent counter instead of panicking; the model has the debug-build behaviour (nesting depth >= 127 only)"]
ASSUMPTIONS = ["the parser assigns legend entries by grammar position only, so re-parsing the same kept token sequence yields the same entries (checked per case)",
               "format_extraction is applied to accepted literals only (it returns None otherwise)"]


def _lits(req):
    f = req.split("\t")
    return [] if len(f) < 3 or f[2] == "-" else f[2].split(";")


def nontrivial(req, impl):
    return any(l.split(":")[2] == "A" for l in _lits(req))


def classify(req, impl):
    out = []
    lits = _lits(req)
    acc = [l for l in lits if l.split(":")[2] == "A"]
    if not acc:
        return ["no-accepted-literal"]
    out.append("accepted-literal")
    if len(acc) > 1:
        out.append("several-literals")
    toks = [t for l in acc for t in l.split(":")[3].split(",") if t]
    if any(t.split("-")[2].split(".")[1] == "R" for t in toks):
        out.append("has-comma")
    if any(t.split("-")[2].split(".")[1] == "O" and t.split("-")[2].split(".")[0] == "17" for t in toks):
        out.append("has-description")
    if len(toks) > 25:
        out.append("long")
    try:
        content = bytes.fromhex(req.split("\t")[1])
        if any(b >= 0x80 for b in content):
            out.append("non-ascii-document")
    except ValueError:
        pass
    return out


def check_distribution(dist, cases):
    need = {"class:accepted-literal": cases * 3 // 10, "class:has-comma": cases // 10, "class:has-description": 10,
            "class:several-literals": 10, "class:non-ascii-document": cases // 10}
    for k, n in need.items():
        if dist.get(k, 0) < n:
            return f"{k} = {dist.get(k, 0)} < {n} of {cases} cases"
    return None
