"""Shared pieces of the ops family checks (C09, C10, C25)."""
import json, os
from vlib import core


def merged_known(ctx, prop_id):
    """known_findings.json is generated from known_findings.d/*.json by tools/gen_manifest.py; the family
    file is authoritative for its own signatures (an entry that was repaired since the aggregate was last
    regenerated must not stay open), entries only the aggregate has are kept."""
    base = core.Ctx.known_findings(ctx)
    p = os.path.join(core.VERIF, "known_findings.d", "ops.json")
    family = [k for k in json.load(open(p)) if k.get("property") == prop_id]
    family_sigs = {k["signature"] for k in family}
    return [k for k in base if k["signature"] not in family_sigs] + [k for k in family if k.get("status") == "open"]


def case_classes(req, impl):
    f = req.split("\t")
    if f[0] == "case":
        status = impl.split(" ")[0] if impl else "none"
        return [f"tag={f[2] if len(f) > 2 else '?'}", f"compile={status}"]
    return None


def base_distribution(dist, cases):
    n_cases = dist.get("case", 0)
    if n_cases == 0:
        return "no cases"
    ok = dist.get("class:compile=ok", 0)
    if ok * 10 < n_cases * 7:
        return f"only {ok}/{n_cases} generated projects are accepted by the compiler"
    if dist.get("class:tag=demo", 0) < 3:
        return "the three checked-in demo projects were not run"
    return None


TRUST_RUNTIME = ("js/ops_eval.mjs evaluates the generated .ts artifacts as JavaScript modules after removing the fixed set of "
                 "TypeScript-only constructs the artifact writers emit (anything else is a SyntaxError); user code is a stub")


def install_case_replays(ctx):
    """Op lines refer to their case by id; a replay must carry the `case` (and `casegraph`) line with it."""
    cases = {}
    orig = core.run_pipeline

    def wrapped(hb, db, req_lines, env=None, timeout=3600):
        for l in req_lines:
            f = l.split("\t")
            if f[0] == "case" and len(f) > 1:
                cases[f[1]] = [l]
            elif f[0] == "casegraph" and len(f) > 1 and f[1] in cases and len(cases[f[1]]) == 1:
                cases[f[1]].append(l)
        return orig(hb, db, req_lines, env, timeout)

    core.run_pipeline = wrapped
    origv = ctx.violation

    def violation(obj, no_input=False):
        req = obj.get("request")
        if isinstance(req, str) and "\n" not in req:
            f = req.split("\t")
            if len(f) > 1 and f[0] != "case" and f[1] in cases:
                obj = dict(obj)
                obj["request"] = "\n".join(cases[f[1]] + ([] if f[0] == "casegraph" else [req]))
        return origv(obj, no_input)

    ctx.violation = violation
