from translators import t1_iso_tokens

ID = "C07"
TITLE = "The iso literal parser is total and reports well-formed locations"
TRANSLATORS = [t1_iso_tokens.translate]
LEAN_MODULES = ["IsoVerif.Props.C07"]
THEOREMS = ["IsoVerif.Props.C07.C07_lex_nonempty", "IsoVerif.Props.C07.C07_lex_sorted", "IsoVerif.Props.C07.C07_lex_inside",
            "IsoVerif.Props.C07.C07_lex_boundaries", "IsoVerif.Props.C07.C07_string_tokens", "IsoVerif.Props.C07.C07_no_panic",
            "IsoVerif.Props.C07.C07_total",
            "IsoVerif.Props.C07.C07_spans", "IsoVerif.Props.C07.C07_diag_span", "IsoVerif.Props.C07.C07_tokens_sorted"]
HARNESS = ("hx_iso", {"HX_ENGINE": "isoparse"})
DRIVER = "drv_iso"
CASES = {"quick": 4000, "thorough": 600000}
TECHNIQUE = ("Lean 4 invariant proof over an executable model of the logos lexer (token tables regenerated from token_kind.rs, generic "
             "Brzozowski-derivative longest-match lexer) and of PeekableLexer + the recursive-descent parser (every Rust panic site an explicit "
             "outcome), + differential correspondence against the real parse_iso_literal (outcome, declaration tree with every span, semantic "
             "tokens, diagnostic kind and span) and a direct span/token oracle on the implementation's answers")
LEVEL_TEXT = ("Kernel-checked, for EVERY input byte string: the parser model reaches no Rust panic site (C07_no_panic) and always returns a declaration "
              "or a diagnostic - its recursion budget |text|+2 is never exhausted (C07_total); every span of a returned "
              "declaration - AST nodes, arguments, values, types, directives, selections and semantic tokens - and of a returned diagnostic satisfies "
              "start <= end <= |text| on character boundaries (C07_spans, C07_diag_span); semantic tokens are non-empty, non-overlapping and increasing "
              "(C07_tokens_sorted). For EVERY token table: lexer spans are non-empty, consecutive, inside the input and on character boundaries "
              "(C07_lex_*); string / block-string tokens have one-byte quotes at both ends, which is what makes the parser's slicing safe "
              "(C07_string_tokens). Proof = an invariant on the PeekableLexer state threaded through one parseX spec lemma per parse function.")
LEVEL_NOTE = ("Trusted: Lean kernel; T1 (regexes, priorities, callback pins, legend); the hand-modelled callbacks lex_string/lex_block_string and the "
              "logos-0.12 number scanner (pinned by T1; logos 0.12's generated automaton does not backtrack, `1.5` is ONE IntegerLiteral token - "
              "reproduced and validated on ~500k strings incl. all strings of length <= 5 over a number alphabet); the harness's canonical tree printer "
              "and diagnostic-kind table. The model is the code AFTER fixes 1759df9 and d3ab1d7; the harness is a debug build, so Span::new's "
              "debug_assert is a modelled panic site.")
PARTIAL = ["recursion depth: the model's recursion budget is proved sufficient (C07_total), but the real parser recurses on the native stack; a stack "
           "overflow on pathologically deep nesting cannot be exhibited by the model and inputs nested deeper than the generator's bound (6) are not exercised",
           "the theorems are about the model; the real code is tied to it by translation + correspondence on generated inputs"]
ASSUMPTIONS = ["Rust strings are valid UTF-8 (the boundary theorems themselves need no validity hypothesis)",
               "logos 0.12.x generated-automaton behaviour for the four number regexes as transcribed in Model/IsoLex.lean"]


def nontrivial(req, impl):
    return impl.startswith("ok") or impl.startswith("diag")


_TRIM = "\t\n\x0b\x0c\r \x85\xa0\u1680\u2000\u2001\u2002\u2003\u2004\u2005\u2006\u2007\u2008\u2009\u200a\u2028\u2029\u202f\u205f\u3000"


def classify(req, impl):
    r = req.split("\t")
    out = []
    if r[0] == "iso.parse" and len(r) > 3:
        out.append("gen:" + r[3])          # generator class of the case
    f = impl.split(" ")
    if f[0] == "ok":
        out += ["ok", "decl:" + f[1][0]]
    elif f[0] == "diag":
        out += ["diag", "diag:" + f[1]]
        if f[1] == "leftover" and r[0] == "iso.parse":
            # inputs on which an end computed from `trim_end()` would lie before the start of the span
            try:
                text = bytes.fromhex(r[1].replace("-", "")).decode()
                if len(text.rstrip(_TRIM).encode()) < int(f[2].split(":")[0]):
                    out.append("hit:leftover-start-beyond-trim_end")
            except Exception:
                pass
        if f[1] == "selset" and len(r) > 3 and r[3] == "trunc-header-glued-multibyte":
            out.append("hit:selset-header-glued-to-multibyte")
    else:
        out.append(f[0])
    return out


def check_distribution(dist, cases):
    ok, diag = dist.get("class:ok", 0), dist.get("class:diag", 0)
    if ok * 10 < cases * 4:
        return f"only {ok}/{cases} generated literals parse successfully"
    if diag * 10 < cases * 2:
        return f"only {diag}/{cases} generated literals are diagnostics"
    kinds = [k for k in dist if k.startswith("class:diag:")]
    if len(kinds) < 10:
        return f"only {len(kinds)} different diagnostic kinds were produced"
    # the input classes behind two regressions that an earlier generator never produced
    need = {"class:hit:leftover-start-beyond-trim_end": 100, "class:hit:selset-header-glued-to-multibyte": 30,
            "class:gen:trail-uniws": 20, "class:gen:trail-mix": 20, "class:gen:trunc-glued-multibyte": 40,
            "class:gen:insert-glued-multibyte": 20, "class:gen:insert-uniws": 20}
    for k, n in need.items():
        if dist.get(k, 0) * 4000 < n * cases:
            return f"{k[6:]}: only {dist.get(k, 0)} of {cases} cases (at least {n} per 4000 expected)"
    return None


# sources the hand-written models were written against (DESIGN 3.4): a changed pin is not a violation,
# it is recorded in the evidence and the lexer correspondence below runs on the thorough budget
PINS = {
    "crates/isograph_lang_parser/src/parse_iso_literal.rs": "70ca84de",
    "crates/isograph_lang_parser/src/peekable_lexer.rs": "a2a7789a",
    "crates/isograph_lang_parser/src/description.rs": "ecd9e61e",
    "crates/isograph_lang_types/src/isograph_directives.rs": "9c4d1062",
    "crates/isograph_lang_types/src/selection_directive_set.rs": "7a7ba37a",
    "crates/common_lang_types/src/span.rs": "d6bf385b",
}


def extra(ctx, harness_bin, driver_bin):
    """(1) source pins; (2) the lexer model against the real logos lexer on arbitrary strings."""
    from vlib import core
    from translators.t1_iso_tokens import rust_items, norm_hash, read
    drifted = []
    for f, pin in PINS.items():
        try:
            code = "".join(v if k == "code" else '"' + v + '"' for k, v in rust_items(read(f)))
            if norm_hash(code) != pin:
                drifted.append(f)
        except Exception as e:
            drifted.append(f"{f}: {e}")
    ctx.cov.setdefault("pins", {})["drifted_items"] = drifted
    if not driver_bin:
        return
    n = 3000 if (ctx.tier == "quick" and not drifted) else 300000
    env = {"HX_ENGINE": "isolex"}
    problems, _ = core.correspond(ctx, harness_bin, driver_bin, n, env=env)
    ctx.cov["correspondence"]["lexer_cases"] = n
    core.decide(ctx, problems, harness_bin, driver_bin, env)
