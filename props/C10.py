from translators import t2_gql_tokens
from vlib import core
from props import _ops

ID = "C10"
TITLE = "Readers only read data that the entrypoint fetches and normalizes"
TRANSLATORS = [t2_gql_tokens.translate]
LEAN_MODULES = ["IsoVerif.Props.C10"]
_P = "IsoVerif.Props.C10."
THEOREMS = [_P + t for t in (
    "C10_fixed_object_argument", "C10_fixed_variable_default", "C10_witness_duplicate_variable_names", "C10_merge_covers_partial",
    "C10_read_eq_merge_partial", "C10_witnesses_envelope", "C10_witness_store_keys")]
HARNESS = ("hx_ops", {"HX_ENGINE": "c10"})
DRIVER = "drv_ops"
CASES = {"quick": 120, "thorough": 3000}
TECHNIQUE = ("Lean 4: (a) executable semantics of the runtime's normalizeData / readData over the evaluated artifacts (store, store-key "
             "functions transcribed from cache.ts, every reader node kind), in differential correspondence with the runtime's OWN functions "
             "sliced out of cache.ts / read.ts and run under node on the same artifacts, variables and generated conforming responses "
             "(store dump, outcome, innermost MissingData reason and selected refetch artifacts compared); (b) a model of the compiler's "
             "merge with variable contexts and of the readers' run-time substitution, with the theorem that inside the SafeArgs envelope the "
             "keys read are exactly the merged keys (structural induction over selections and client-field chains), and witnesses outside it")
LEVEL_TEXT = ("Kernel-checked for every program of the model (server scalar / linked fields, eagerly read client fields with arguments, any "
              "nesting, any chain of client fields): when client fields declare distinct variable names, defaults are constants and every variable "
              "an argument uses (at any depth, objects included) is declared — i.e. what validation accepts — every (path, store key) the entrypoint's reader and the readers "
              "it reaches look up is an entry of the merged selection map, and conversely (C10_merge_covers_partial, C10_read_eq_merge_partial); "
              "the object-argument case (F12b) and the defaulted-variable case failed for the compiler before af3b32d / 901ffd9 and hold now "
              "(C10_fixed_object_argument, C10_fixed_variable_default: old and new functions side by side). On the "
              "real code: for every entrypoint of every generated project, four generated conforming responses each (no nulls / random / sparse; "
              "lists 0-3; concrete types of abstract fields cycled) are normalized and read by the REAL normalizeDataIntoRecord / readData under "
              "node; the oracle requires that no read reports missing data or throws, that the same holds for @component readers, and that "
              "statically every key a reader reads is in the normalization AST; the Lean runtime model must give the identical store, outcome, "
              "reason and refetch selections.")
LEVEL_NOTE = ("Trusted: Lean kernel; " + _ops.TRUST_RUNTIME + "; js/ops_runtime.mjs: the functions of cache.ts / read.ts are cut out by "
              "bracket matching and their TypeScript annotations removed by a fixed set of rewrites (a failure to compile is a broken tie), the "
              "store proxy, getLink/assertLink, component rendering (read at once) and user resolvers are stand-ins listed in the file; the three "
              "closures that would start a refetch are replaced by a record of the artifact the real code selected. The compiler-side model "
              "(OpsCover) is hand-written from create_merged_selection_set.rs / variable_context.rs / reader_ast.rs; it is tied to the code by a "
              "differential run on every entrypoint of the modelled subset (`c10m` lines: the model's mergeKeys / readKeys of the project, "
              "translated by harness/ops/src/tie.rs, must equal the keys of the normalization AST / the keys the reader ASTs read in the "
              "artifacts the REAL compiler wrote; `id`/`__typename` excluded), by the witnesses and by the static oracle on all artifacts.")
PARTIAL = ["the compiler-side model covers server scalar/linked fields and eagerly read client fields (≈ half of the generated entrypoints; "
           "abstract types / asConcreteType, pointers, __link/__refetch, exposed fields, @loadable are outside it and covered by the oracles only)",
           "the theorem is about the compiler-side model (keys); that a covered key is found in the store after normalizing a conforming "
           "response is checked by running the real runtime and the Lean runtime model, not proved",
           "responses: no interface-typed `node(id)` answered with a type other than the one the compiler's own wrapper refines to; equal "
           "field+arguments under one parent get one value",
           "loadable / imperatively loaded fields and client pointers are boundaries: only their refetch reader (`id`) is read",
           "open findings: inline fragment on an abstract type, null variable inside an object argument "
           "(runtime: store key `{\"id\":\"null\"}` written, `{}` read), pointer target whose id was not selected; F12b (af3b32d) and the defaulted variable (901ffd9) repaired"]
ASSUMPTIONS = ["JSON numbers are integers or x.5 (printed alike by JavaScript and serde_json)",
               "a client pointer's resolver returns the first link of the target type found in its data, else null; an eager resolver returns its data"]


def run(ctx):
    ctx.known_findings = lambda: _ops.merged_known(ctx, ID)
    _ops.install_case_replays(ctx)
    return core.standard_run(ctx)


def nontrivial(req, impl):
    return (req.startswith("c10\t") and "norm:ok" in impl) or (req.startswith("c10m\t") and impl.startswith("in "))


def classify(req, impl):
    k = _ops.case_classes(req, impl)
    if k is not None:
        return k
    if req.startswith("c10m\t"):
        return ["tie=in" if impl.startswith("in ") else "tie=out"]
    if req.startswith("c10\t"):
        f = req.split("\t")
        out = ["shape=" + (f[4] if len(f) > 4 else "?")]
        if "out:ok" in impl:
            out.append("read=ok")
        elif "out:missing" in impl:
            out.append("read=missing")
        elif "norm:ok" not in impl:
            out.append("read=not-run")
        if " cm:0 " not in impl and " cm:" in impl:
            out.append("component-missing")
        if impl.rstrip().endswith(" -") is False and "out:ok" in impl:
            out.append("refetch-selected")
        return out
    return None


def check_distribution(dist, cases):
    msg = _ops.base_distribution(dist, cases)
    if msg:
        return msg
    reads = dist.get("c10", 0)
    if reads < dist.get("case", 0):
        return f"only {reads} reads"
    if dist.get("class:read=ok", 0) * 10 < reads * 6:
        return f"only {dist.get('class:read=ok', 0)}/{reads} reads ran to the end"
    for s in ("full", "random", "sparse"):
        if dist.get(f"class:shape={s}", 0) == 0:
            return f"no {s} responses"
    if dist.get("class:refetch-selected", 0) == 0:
        return "no read reached a refetchable selection"
    ties = dist.get("class:tie=in", 0)
    if ties * 5 < dist.get("c10m", 0) or ties == 0:
        return f"only {ties}/{dist.get('c10m', 0)} entrypoints are in the subset of the compiler-side model"
    return None
