from vlib import core

ID = "C12"
TITLE = "Response keys are unique per field+arguments and agree with the runtime"
TRANSLATORS = []
LEAN_MODULES = ["IsoVerif.Props.C12"]
THEOREMS = ["IsoVerif.Props.C12.C12_witness_negative_int", "IsoVerif.Props.C12.C12_witness_collapse",
            "IsoVerif.Props.C12.C12_witness_underscore", "IsoVerif.Props.C12.C12_witness_astral",
            "IsoVerif.Props.C12.C12_witness_js_escape", "IsoVerif.Props.C12.C12_witness_int53",
            "IsoVerif.Props.C12.C12_alias_total", "IsoVerif.Props.C12.C12_legal_partial",
            "IsoVerif.Props.C12.C12_runtime_partial", "IsoVerif.Props.C12.C12_inj_partial",
            "IsoVerif.Props.C12.C12_alias_factor", "IsoVerif.Props.C12.C12_char"]
HARNESS = ("hx_printers", {"HX_ENGINE": "alias", "HX_PROP": "C12"})
DRIVER = "drv_printers"
CASES = {"quick": 3000, "thorough": 300000}
PROJECT_CASES = {"quick": 30, "thorough": 3000}
TECHNIQUE = ("Lean 4 theorems over executable models of the compiler's alias function (Rust, per char) and of the runtime's getNetworkResponseKey "
             "(cache.ts, UTF-16 code units, JavaScript literal evaluation and Number formatting): witnesses refuting the three clauses, proofs on the argument "
             "classes on which they hold, exact characterisation of key equality; correspondence with the Rust functions in-process and with the functions cut out "
             "of cache.ts run under node; oracle on real projects' generated files")
LEVEL_TEXT = ("Kernel-checked: (1) all three clauses of the property are false on the unchanged tree — six witness theorems (negative integer, \"a b\"/\"a_b\", "
              "underscore separators, U+1F600, JS escape, 2^53+1); (2) on SafeArgs (variables, integers in [0,2^53), booleans, enum values, null, objects thereof, "
              "strings over [A-Za-z0-9_], names GraphQL names) every key is a GraphQL Name and equals the key the runtime computes (C12_legal_partial, C12_runtime_partial); "
              "(3) on the tight class (no underscore in names/enum values/inner strings, non-empty objects, top-level strings with isolated inner underscores) the key is "
              "injective (C12_inj_partial), and in general the key depends on the arguments only through the collapse of their strings and determines it exactly "
              "(C12_alias_factor, C12_char). The models are tied to /repo by running arbitrary names/argument lists through normalization_alias, the two printers and — under node — "
              "the getNetworkResponseKey/getArgumentValueChunk functions sliced out of cache.ts, comparing all four outputs byte for byte.")
LEVEL_NOTE = ("Trusted: Lean kernel; hand transcription of to_alias_str_chunk/get_aliased_mutation_field_name and of getNetworkResponseKey incl. the JavaScript semantics used "
              "(string-literal escapes in strict mode, /\\W/g per UTF-16 unit, Number->String for integers via nearest double + shortest digits, for floats from Rust's shortest digits) — "
              "all validated by correspondence only; node 20 as the reference JavaScript engine; the slicer of js/alias_runtime.mjs.")
PARTIAL = ["C12_legal_statement, C12_inj_statement, C12_runtime_statement are refuted (F11/F11b); the _partial theorems carry them on SafeArgs / the tight class",
           "f64 Display is not modelled: floats enter the model as the text Rust printed (the JS side re-formats that text)",
           "uniqueness inside real selection sets is checked by the oracle on generated operation texts (C12.op) and on pairs of selections (C12.alias2)"]
ASSUMPTIONS = ["char-wise mapping of Rust strings, UTF-16 semantics of JavaScript strings as modelled", "node 20 evaluates the printed normalization AST as an ES-module expression would be"]


def _kind(req):
    f = req.split("\t")
    if f[0].endswith(".alias") or f[0].endswith(".alias2"):
        return f[0].split(".")[-1]
    if len(f) > 2 and f[0].endswith(".op"):
        return {"E": "entrypoint", "R": "refetch-query"}.get(f[2][:1], "op")
    return f[0].split(".")[-1]


def nontrivial(req, impl):
    k = _kind(req)
    if k == "alias":
        return not impl.startswith("none") and not impl.startswith("panic")
    return k in ("alias2", "entrypoint", "refetch-query")


def classify(req, impl):
    k = [_kind(req)]
    if k[0] == "alias":
        if impl.startswith("panic"):
            k.append("alias:list-panic")
        elif impl.startswith("none"):
            k.append("alias:no-arguments")
        elif impl.endswith("syntax-error"):
            k.append("alias:js-syntax-error")
        else:
            k.append("alias:keyed")
    return k


def check_distribution(dist, cases):
    keyed = dist.get("class:alias:keyed", 0)
    total = dist.get("class:alias", 0)
    if total and keyed * 2 < total:
        return f"only {keyed}/{total} alias cases produced a key on both sides"
    return None


def extra(ctx, harness_bin, driver_bin):
    """second engine: whole projects (keys inside real selection sets, runtime key from the real normalization AST)"""
    env = {"HX_ENGINE": "printers", "HX_PROP": "C12"}
    n = PROJECT_CASES[ctx.tier]
    problems, _ = core.correspond(ctx, harness_bin, driver_bin, n, env=env, classify=classify, nontrivial=nontrivial)
    before = list(ctx.cov["oracle"].get("known_findings", []))
    core.decide(ctx, problems, harness_bin, driver_bin, env)
    ctx.cov["oracle"]["known_findings"] = sorted(set(before) | set(ctx.cov["oracle"].get("known_findings", [])))
    ctx.known = list(dict.fromkeys(ctx.known))
    d = ctx.cov["correspondence"]["distribution"]
    if d.get("class:entrypoint", 0) < 10:
        raise core.MachineryFault("degenerate generator distribution: fewer than 10 entrypoints in the project engine")
