from translators import t2_gql_tokens
from vlib import core
from props import _ops

ID = "C25"
TITLE = "Refetch references resolve to the refetch query for that field"
TRANSLATORS = [t2_gql_tokens.translate]
LEAN_MODULES = ["IsoVerif.Props.C25"]
_P = "IsoVerif.Props.C25."
THEOREMS = [_P + t for t in ("C25_resolves", "C25_fixed_reorder", "C25_fixed_keys_merge", "C25_before_repair_partial",
                                "C25_sort_commutes", "C25_witnesses_not_order_preserving")]
HARNESS = ("hx_ops", {"HX_ENGINE": "c25"})
DRIVER = "drv_ops"
CASES = {"quick": 200, "thorough": 6000}
TECHNIQUE = ("Lean 4: the refetch bookkeeping as sorted key lists (the child's numbering by its own key order, the parent's usedRefetchQueries, "
             "the composition at run time) with the theorem that composing the indices selects the query of the transformed key for EVERY "
             "argument substitution (after the repair 34522e4), and, for the bookkeeping before the repair, the F18 witnesses and the partial "
             "theorem under order preservation; on the real code an oracle follows the indices in the generated entrypoint.ts / "
             "resolver_reader.ts / __refetch__N.ts (evaluated under node) from every entrypoint through every chain of eagerly read client "
             "fields and compares the selected query with the selection the entrypoint's own query makes at that position; the same walk is "
             "done by js/ops_eval.mjs and, through C10, by the real read.ts")
LEVEL_TEXT = ("Kernel-checked for all key lists and ALL substitutions (order-reversing and key-merging ones included): the query the runtime ends "
              "up with for the child's selection σ is the one generated for the transformed key f σ (C25_resolves). For the bookkeeping before "
              "34522e4: the two counterexamples (order swapped = F18; two keys merged) and the theorem that it was right exactly under order "
              "preservation (C25_fixed_reorder, C25_fixed_keys_merge, C25_before_repair_partial, C25_sort_commutes). On every run the oracle walks "
              "the implementation's artifacts for all generated projects (client fields with __refetch / exposed mutation fields / client "
              "pointers / @loadable reused at several positions and by several entrypoints) and the demos: index in range, operation named "
              "<entrypoint type>__<field>, re-fetched selection = the entrypoint's selection at the selection's position (for a pointer: covers "
              "the pointer's reads; for a loadable field: its own entrypoint).")
LEVEL_NOTE = ("Trusted: Lean kernel; " + _ops.TRUST_RUNTIME + "; the abstract bookkeeping model (keys as ranks) is hand-written from "
              "reader_ast.rs (find_imperatively_fetchable_query_index, get_nested_refetch_query_text, user_written_variant_ast_node) and "
              "create_merged_selection_set.rs (incorporate_results_of_iterating_into_child); it is tied to the code through the witness replays "
              "(which failed before the repair and pass now) and the oracle on the artifacts, not through a differential run of the key lists "
              "(no hook dumps RefetchedPathsMap).")
PARTIAL = ["the abstract model assumes that the set of paths the child's reader numbers equals the set the parent transforms (both come from the "
           "child's selection set: traversal_state.refetch_paths vs refetched_paths_with_path) and that every transformed path is a key of the "
           "parent's map; the oracle checks the composition on the artifacts",
           "client pointers with variables are outside the generator's envelope (the compiler panics on them)",
           "when the compiler's merged map holds several entries for one store key (its keys also compare the source locations inside object "
           "values: `all(n: $n)` with n = {score: $s} next to `all(n: {score: $s})`; a C15 finding of the merge family) the refetch query is "
           "built from one of them; the oracle accepts the selection of any one entry as well as their union",
           "the order of the keys is an input of the abstract model"]
ASSUMPTIONS = ["a refetch query's wrapping fields form a chain of single linked fields / inline fragments above the re-fetched selection",
               "the selection of a refetchable type contains `id`, so the chain ends at the re-fetched selection"]


def run(ctx):
    ctx.known_findings = lambda: _ops.merged_known(ctx, ID)
    _ops.install_case_replays(ctx)
    return core.standard_run(ctx)


def nontrivial(req, impl):
    return req.startswith("c25\t") and not impl.startswith("0") and impl != "nograph"


# one reader with refetchable selections at [.., sfxa, sfxb] and [.., sfxb] (stream `suffix`) / [best, friend] and [friend] (witness
# suffix-paths): the second path is a proper suffix of the first, which sorts before it
_SFX_GEN = "/sfxa/sfxb/__refetch".encode().hex()
_SFX_WIT = "/Card/best/friend/__refetch".encode().hex()


def classify(req, impl):
    k = _ops.case_classes(req, impl)
    if k is not None:
        return k
    if req.startswith("c25\t"):
        n = impl.split(" ")[0]
        if not n.isdigit():
            return ["walk=none"]
        n = int(n)
        out = ["refetchables=0" if n == 0 else ("refetchables=1-3" if n <= 3 else "refetchables=4+")]
        if "656e7472793a" in impl:
            out.append("loadable")
        if _SFX_GEN in impl or _SFX_WIT in impl:
            out.append("suffix-paths")
        return out
    return None


def check_distribution(dist, cases):
    msg = _ops.base_distribution(dist, cases)
    if msg:
        return msg
    eps = dist.get("c25", 0)
    if eps < dist.get("case", 0) // 2:
        return f"only {eps} entrypoints"
    some = dist.get("class:refetchables=1-3", 0) + dist.get("class:refetchables=4+", 0)
    if some * 5 < eps:
        return f"only {some}/{eps} entrypoints reach a refetchable selection"
    if dist.get("class:refetchables=4+", 0) == 0:
        return "no entrypoint with several refetchable selections"
    if dist.get("class:suffix-paths", 0) < 3:
        return (f"only {dist.get('class:suffix-paths', 0)} entrypoints reach a reader whose refetch paths contain a proper suffix of an "
                "earlier-sorting path (stream `suffix`, witness suffix-paths)")
    return None
