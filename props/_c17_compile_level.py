"""Compile-level half of C17 (built by the watch family, to be called from props/C17.py's `extra`):

    from props import _c17_compile_level
    def extra(ctx, harness_bin, driver_bin):
        ...
        _c17_compile_level.run(ctx)

Engine `failkeeps` of harness/watch (package hx_watch): a generated valid project is compiled by the REAL
`batch_compile::compile` in a temp directory; it is then edited into a single-fault mutant (hx_projgen
`mutate_single_fault`) and recompiled - batch mode: new CompilerState on top of the directory; watch mode: same
CompilerState, the changed files pushed through the real `categorize_and_filter_events` + `update_sources`.  The
artifact directory is snapshotted before and after the failing compile (names, bytes, modification times); then the
valid sources are restored and the next compile must succeed and leave exactly the first compile's artifacts.
No Lean driver is involved: the answers are judged here.
"""
import os, subprocess
from vlib import core

CASES = {"quick": 80, "thorough": 3000}
ENV = {"HX_ENGINE": "failkeeps"}


def run(ctx, n=None):
    harness_bin = core.build_harness(ctx, "hx_watch")
    if not harness_bin:
        return  # ctx.tie_broken is set: the standard run reports the broken tie
    n = n or CASES[ctx.tier]
    reqs = core.gen_requests(harness_bin, ctx.seed, n, 0, ENV)
    e = dict(os.environ)
    e.update(ENV)
    p = subprocess.run([harness_bin, "run"], input="\n".join(reqs) + "\n", stdout=subprocess.PIPE, stderr=subprocess.PIPE,
                       env=e, text=True, errors="replace", timeout=3600)
    if p.returncode != 0:
        raise core.MachineryFault(f"hx_watch run (failkeeps) exited {p.returncode}: {p.stderr[-2000:]}")
    stats = {"cases": 0, "first_not_ok": 0, "mutant_accepted": 0, "skipped": 0, "failing_compiles_checked": 0,
             "batch": 0, "watch": 0, "kinds": {}}
    bad = []
    for line in p.stdout.splitlines():
        if "\t=>\t" not in line:
            continue
        req, ans = line.split("\t=>\t", 1)
        f = ans.split("\t")
        stats["cases"] += 1
        mode = req.split("\t")[-1]
        if f[0] != "first:ok":
            stats["first_not_ok"] += 1
            continue
        if len(f) < 2 or f[1].startswith("second:skip") or "panic" in f[1]:
            if len(f) >= 2 and "panic" in f[1]:
                bad.append((req, ans, "the failing compile panicked"))
            stats["skipped"] += 1
            continue
        kind, summary = f[1].split(":")[1], f[1].split(":", 2)[2]
        if summary == "ok":
            stats["mutant_accepted"] += 1
            continue
        stats["failing_compiles_checked"] += 1
        stats[mode] = stats.get(mode, 0) + 1
        stats["kinds"][kind] = stats["kinds"].get(kind, 0) + 1
        rest = f[2:]
        if not rest or rest[0] != "snap:same":
            bad.append((req, ans, "a compile that reported diagnostics changed the artifact directory: " + (rest[0] if rest else "no snapshot")))
        elif len(rest) < 3 or rest[1] != "third:ok" or rest[2] != "conv:ok":
            bad.append((req, ans, "after the failed compile the next valid compile did not converge to the first compile's artifacts"))
    ctx.cov["compile_level"] = {
        "engine": "hx_watch/failkeeps",
        "what": "real compile() of a single-fault mutant on top of the directory of a successful compile, batch (new CompilerState) and watch "
                "(same CompilerState + update_sources); artifact directory snapshot (names, bytes, mtimes) before/after; next valid compile converges",
        **stats, "violations": len(bad),
    }
    for req, ans, what in bad[:3]:
        ctx.violation({"kind": "oracle-failure", "what": what, "engine": "hx_watch/failkeeps", "request": req, "impl": " ".join(ans.split("\t")),
                       "replay_cmd": f"printf '%s\\n' '{req}' | HX_ENGINE=failkeeps {harness_bin} run"})
    if not bad:
        checked = stats["failing_compiles_checked"]
        if checked * 2 < stats["cases"] or stats["batch"] == 0 or stats["watch"] == 0:
            raise core.MachineryFault(f"degenerate generator distribution (engine failkeeps): {stats}")
