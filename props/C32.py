from translators import t1_iso_tokens, t5_resolve

ID = "C32"
TITLE = "Cursor positions resolve to the innermost syntax node"
TRANSLATORS = [t1_iso_tokens.translate, t5_resolve.translate]
LEAN_MODULES = ["IsoVerif.Props.C32"]
THEOREMS = ["IsoVerif.Props.C32.C32_innermost", "IsoVerif.Props.C32.C32_chain_contains",
            "IsoVerif.Props.C32.C32_unique", "IsoVerif.Props.C32.C32_parsed"]
HARNESS = ("hx_iso", {"HX_ENGINE": "resolve"})
DRIVER = "drv_iso"
CASES = {"quick": 2400, "thorough": 200000}
TECHNIQUE = ("Lean 4 structural induction over a generic span rose tree modelling the derived ResolvePosition::resolve "
             "(#[resolve_field] shapes regenerated from the Rust source) + differential correspondence for EVERY offset of generated "
             "literals against the real resolve through a span-tree dump hook, and a direct innermost-ness oracle on the dumped tree")
LEVEL_TEXT = ("Kernel-checked theorems over every span tree: the chain returned by resolve is a path of the tree from the declaration to a node none of "
              "whose resolvable children contains the offset, every node on it (below the root; all of them when the declaration contains the offset) "
              "contains the offset (C32_innermost, C32_chain_contains); with nested spans and siblings disjoint at the offset that node is THE unique "
              "innermost one (C32_unique). The tree model is tied to the code by T5 (resolve fields, derive macro and Span::contains pinned) and by "
              "comparing, for every byte offset of every generated literal, the real resolved node + parent chain with the model run on the model's own parse.")
LEVEL_NOTE = ("Trusted: Lean kernel; T5 and the hook verif_dump_tree/verif_resolve_chain (hand-written walk of the resolve fields; the driver checks the dumped "
              "tree against T5's field table); the parser model (tied by C07's correspondence). `contains` is inclusive at both span ends, so touching "
              "siblings (`\"d\"{`, `a,b`) both contain the touching offset and the first in field order wins: C32_unique needs siblings disjoint at the offset.")
PARTIAL = ["WellNested (astOf (parseIso s)) — nesting of the spans the parser produces — is not a theorem yet; it is checked by the oracle on the tree dumped "
           "from the real AST for every generated literal (verdict bad:not-nested)",
           "offsets on the `field`/`pointer`/`entrypoint` keyword lie outside every node (the declaration's span starts at the parent type): resolve returns the "
           "declaration itself there; the theorems state containment only below the root / when the root contains the offset"]
ASSUMPTIONS = ["the LSP calls resolve with Span::new(offset, offset) (isograph_lsp hover/goto/completion/highlight)"]


def nontrivial(req, impl):
    return impl.startswith("tree")


def classify(req, impl):
    if impl.startswith("tree"):
        depth = max((c.count(">") for c in impl.split(" ")[2].split(";")), default=0)
        return ["parsed", f"depth{min(depth, 6)}"]
    return impl.split(" ")[0]


def check_distribution(dist, cases):
    parsed = dist.get("class:parsed", 0)
    if parsed * 10 < cases * 4:
        return f"only {parsed}/{cases} generated literals parse"
    deep = sum(v for k, v in dist.items() if k.startswith("class:depth") and int(k[11:]) >= 4)
    if deep * 20 < cases:
        return f"only {deep}/{cases} literals have a resolve chain of length >= 5"
    return None
