"""C02 — memoised functions re-run only when something they read changed (M-PICO)."""
from props import C01 as _b

ID = "C02"
TITLE = "Memoized functions re-run only when something they read changed"
TRANSLATORS = []
LEAN_MODULES = ["IsoVerif.Props.C02"]
THEOREMS = [
    "IsoVerif.Props.C02.C02_equal_write_noop",
    "IsoVerif.Props.C02.C02_equal_write_noop_singleton",
    "IsoVerif.Props.C02.C02_equal_write_no_rerun",
    "IsoVerif.Props.C02.C02_unrelated_write_partial",
    "IsoVerif.Props.C02.C02_quiet_no_rerun",
    "IsoVerif.Props.C02.C02_unrelated_writes_nested_partial",
    "IsoVerif.Props.C02.C02_backdating_partial",
    "IsoVerif.Props.C02.C02_runs_justified_partial",
]
HARNESS = ("hx_pico", {"HX_ENGINE": "c02"})
DRIVER = "drv_pico"
CASES = {"quick": 2400, "thorough": 120000}
TECHNIQUE = _b.TECHNIQUE.replace("every call's value = from-scratch evaluation on the current sources",
                                 "the implementation's per-function run-counter deltas must lie within what an ideal memoiser (semantic direct dependencies, no stamps) executes")
PARTIAL = [
    "C02_statement (history level: every execution is a first run, follows a collection, or has a DIRECT semantic dependency whose observation differed at some moment since the last run) is not proved in that form; no history is known on which today's code violates it: F3 (/repo b7bfe5c) and F22 (/repo 340414a) were repaired, their former witness histories are kernel-checked to satisfy the statement, and the correspondence + ideal-memoiser oracle find nothing",
    "what IS proved for any nesting depth (acyclic call graph, fuel above every rank, clean calls — caught panics excluded): C02_runs_justified_partial, the stamp-level form of the statement for one call from any reachable state: every body that runs belongs to a node that was not stored, or has a recorded dependency that is stale (source re-stamped / absent source now present / callee re-stamped, before the call or during it by a re-execution with a DIFFERENT value); C02_backdating_partial: a node whose value is unchanged by the call keeps its time_updated exactly, re-executed or not — so it is not a reason to run its dependents; C02_unrelated_writes_nested_partial: source operations outside the recorded dependency closure cause no re-execution at all. The bridge from stamps to the history-level semantic statement (a re-stamp of a source means its value differed at some moment) is given by C02_equal_write_noop (an equal write does not re-stamp) but the composed history-level theorem is not stated",
    "C02_equal_write_noop / _no_rerun and C02_quiet_no_rerun hold for ALL programs and states (no acyclicity, no cleanliness). C02_unrelated_write_partial is the older depth-0 stage",
]
ASSUMPTIONS = _b.ASSUMPTIONS + [
    "which nodes a collection discarded is taken from the (agreeing) model: the implementation does not expose it",
    "the oracle makes no claim after the first call of a case that panicked, returned a stale value (C01) or ran a different set of bodies than the ideal memoiser",
]
run = _b.run
classify = _b.classify
nontrivial = _b.nontrivial


def check_distribution(dist, cases):
    m = _b.check_distribution(dist, cases)
    if m:
        return m
    h = dist.get("class:hist", 0)
    if h >= 100 and dist.get("class:hist-equal-write", 0) * 100 < 30 * h:
        return f"only {dist.get('class:hist-equal-write', 0)}/{h} histories contain an equal-value write (need 30%)"
    return None


LEVEL_TEXT = ("Kernel-checked: C02_statement (every execution of a body is a first run, follows a collection, or has a changed DIRECT semantic dependency) "
              "as a decidable Prop over all programs and histories; the former witness histories of F3 and F22 kernel-checked to satisfy it on the repaired code; "
              "and the theorems listed in THEOREMS about the repaired code (F3 /repo b7bfe5c, F22 /repo 340414a): equal writes are no-ops, quiet nodes are served without running, unrelated writes at any nesting depth, backdating, and every run is justified by a stale recorded dependency. Model = implementation on run counters, op by op.")
LEVEL_NOTE = _b.LEVEL_NOTE
