"""C02 — memoised functions re-run only when something they read changed (M-PICO)."""
from props import C01 as _b

ID = "C02"
TITLE = "Memoized functions re-run only when something they read changed"
TRANSLATORS = []
LEAN_MODULES = ["IsoVerif.Props.C02"]
THEOREMS = [
    "IsoVerif.Props.C02.C02_equal_write_noop",
    "IsoVerif.Props.C02.C02_equal_write_noop_singleton",
    "IsoVerif.Props.C02.C02_equal_write_no_rerun",
    "IsoVerif.Props.C02.C02_unrelated_write_partial",
    "IsoVerif.Props.C02.C02_quiet_no_rerun",
    "IsoVerif.Props.C02.C02_unrelated_writes_nested_partial",
]
HARNESS = ("hx_pico", {"HX_ENGINE": "c02"})
DRIVER = "drv_pico"
CASES = {"quick": 2400, "thorough": 120000}
TECHNIQUE = _b.TECHNIQUE.replace("every call's value = from-scratch evaluation on the current sources",
                                 "the implementation's per-function run-counter deltas must lie within what an ideal memoiser (semantic direct dependencies, no stamps) executes")
PARTIAL = [
    "C02_statement (every execution is a first run, follows a collection, or has a changed DIRECT semantic dependency) is not proved in general; no history is known on which today's code violates it: F3 (/repo b7bfe5c) and F22 (/repo 340414a) were repaired, their former witness histories are kernel-checked to satisfy the statement, and the correspondence + ideal-memoiser oracle find nothing",
    "C02_equal_write_noop / _no_rerun hold for ALL programs and states. C02_quiet_no_rerun holds for ALL programs and states: a stored node whose recorded dependencies are transitively un-restamped is served without running any body. C02_unrelated_writes_nested_partial carries any nesting depth for acyclic programs with clean calls: after a call, any sequence of source operations (keyed, singleton, tracked-field; any values) on keys outside the RECORDED dependency closure of the node, then the same call again, runs no body. C02_unrelated_write_partial is the older depth-0 stage",
    "backdating (a re-executed intermediate with an equal value does not re-execute its dependents) is not carried by a theorem: for nested programs it rests on the correspondence + ideal-memoiser oracle",
]
ASSUMPTIONS = _b.ASSUMPTIONS + [
    "which nodes a collection discarded is taken from the (agreeing) model: the implementation does not expose it",
    "the oracle makes no claim after the first call of a case that panicked, returned a stale value (C01) or ran a different set of bodies than the ideal memoiser",
]
run = _b.run
classify = _b.classify
nontrivial = _b.nontrivial


def check_distribution(dist, cases):
    m = _b.check_distribution(dist, cases)
    if m:
        return m
    h = dist.get("class:hist", 0)
    if h >= 100 and dist.get("class:hist-equal-write", 0) * 100 < 30 * h:
        return f"only {dist.get('class:hist-equal-write', 0)}/{h} histories contain an equal-value write (need 30%)"
    return None


LEVEL_TEXT = ("Kernel-checked: C02_statement (every execution of a body is a first run, follows a collection, or has a changed DIRECT semantic dependency) "
              "as a decidable Prop over all programs and histories; the former witness histories of F3 and F22 kernel-checked to satisfy it on the repaired code; "
              "and the theorems listed in THEOREMS about the repaired code (F3 /repo b7bfe5c, F22 /repo 340414a). Model = implementation on run counters, op by op.")
LEVEL_NOTE = _b.LEVEL_NOTE
