"""Shape classes of a dumped operation (wire line of the printers family), for the distribution
floors of C11: which merged maps hold only client pointers, which inline fragments sit directly
inside an inline fragment."""


class _T:
    def __init__(self, toks):
        self.t = toks
        self.i = 0

    def next(self):
        x = self.t[self.i]
        self.i += 1
        return x

    def value(self):
        k = self.next()
        if k in ("V", "I", "B", "S", "F", "E"):
            self.next()
        elif k == "L":
            for _ in range(int(self.next())):
                self.value()
        elif k == "O":
            for _ in range(int(self.next())):
                self.next()
                self.value()

    def args(self):
        for _ in range(int(self.next())):
            self.next()
            self.value()

    def type_(self):
        k = self.next()
        if k == "s":
            self.next()
        elif k == "p":
            self.type_()
        elif k == "u":
            self.next()
            for _ in range(int(self.next())):
                self.type_()

    def vars(self):
        for _ in range(int(self.next())):
            self.next()
            self.type_()
            if self.next() == "d":
                self.value()

    def map(self, classes, parent_kind):
        """parent_kind: 'top' | 'l' | 'f' | 'c' (maps under client pointers are not printed)"""
        n = int(self.next())
        kinds = []
        for _ in range(n):
            self.next()  # rank
            k = self.next()
            if k in ("F", "P"):
                self.next()
                self.args()
            elif k == "T":
                self.next()
            sel = self.next()
            kinds.append(sel)
            if sel == "s":
                self.next(); self.next(); self.args()
            elif sel in ("l", "c"):
                self.next(); self.next(); self.args()
                if self.next() == "C":
                    self.next()
                self.map(classes, sel if parent_kind != "c" else "c")
            elif sel == "f":
                self.next()
                if parent_kind == "f":
                    classes.add("nested-inline-fragment")
                self.map(classes, "f" if parent_kind != "c" else "c")
        if parent_kind != "c" and n > 0 and all(k == "c" for k in kinds):
            classes.add("pointer-only-selection")
        if parent_kind != "c" and n == 0:
            classes.add("empty-selection")


def shape_classes(wire):
    """wire: the third field of a `<prop>.op` request"""
    classes = set()
    try:
        toks = wire.split(" ")
        t = _T(toks)
        kind = t.next()
        # header up to `Q`
        while t.next() != "Q":
            pass
        t.next()  # query name
        t.vars()
        t.map(classes, "top")
    except Exception:
        classes.add("wire-unparsed")
    return sorted(classes)
