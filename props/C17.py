from translators import t_fs
from props import _fs

ID = "C17"
TITLE = "A failed compile leaves the artifact directory untouched"
TRANSLATORS = [t_fs.translate]
LEAN_MODULES = ["IsoVerif.Props.C17"]
THEOREMS = ["IsoVerif.Props.C17." + t for t in ("C17_untouched", "C17_batch", "C17_watch", "C17_keeps_last_success")]
HARNESS = ("hx_fs", {"HX_ENGINE": "c17", **t_fs.harness_env()})
DRIVER = "drv_fs"
CASES = {"quick": 1500, "thorough": 40000}
TECHNIQUE = ("Lean 4 theorems over the model of compile(): diagnostics are returned before anything is planned or applied; that order is pinned from the current source by translator t_fs; "
             "sessions with failing compiles on top of directories left by earlier compiles are run against the real planner/writer and the model, and the real compile() is run on generated invalid programs "
             "on top of the directory of a successful compile, in the same CompilerState (watch-mode recompile through update_sources) and in a new process, with directory snapshots before and after")
LEVEL_TEXT = ("Kernel-checked: in every session state and for every directory, a compile whose validation reports diagnostics returns the session unchanged - same directory, same in-memory state "
              "(C17_untouched, C17_batch) - and a history containing such a compile behaves exactly like the history without it (C17_watch). What makes the model's first match the code's behaviour is the "
              "translator t_fs: it fails (tie broken) unless compile() reads `let (artifacts, stats) = get_artifact_path_and_content(db)?;` before get_file_system_operations(.., &mut state.file_system_state) "
              "before apply_file_system_operations, with no access to the state or std::fs before; and the real compile() on generated invalid programs is observed to leave directory and state flag unchanged.")
LEVEL_NOTE = ("Trusted: Lean kernel; translator t_fs (syntactic pin of compile()'s statement order); that get_artifact_path_and_content itself does not write files is by reading (it is a pure memoised "
              "function of the database) and is not modelled.")
PARTIAL = ["the invalid programs compiled by the real compile() (engine fs.real) are hx_projgen's single-fault mutants and projects with dropped declarations (one rule violated at a time); "
           "that every invalid program makes validation return Err rather than Ok with partial artifacts belongs to the validation properties",
           "create_config (process start-up, before any compile) creates the artifact directory if it is missing; that is outside compile() and is kept out of the before/after comparison"]
ASSUMPTIONS = ["get_artifact_path_and_content has no file-system side effect"]


def nontrivial(req, impl):
    a = impl.split(" ")
    return any(x.startswith("diag:") for x in a) and any(x.startswith("ok:") for x in a)


def classify(req, impl):
    a = impl.split(" ")
    seen_ok = False
    for x in a:
        if x.startswith("ok:"):
            seen_ok = True
        if x.startswith("diag:") and seen_ok:
            return "diag-after-success"
    return "diag-first" if any(x.startswith("diag:") for x in a) else "no-diag"


def check_distribution(dist, cases):
    if dist.get("class:diag-after-success", 0) * 2 < cases:
        return f"only {dist.get('class:diag-after-success', 0)}/{cases} sessions have a failing compile after a successful one"
    return None


REAL_CASES = {'quick': 64, 'thorough': 2000}


def extra(ctx, harness_bin, driver_bin):
    """the same property against the real compile() on generated projects"""
    if not driver_bin:
        return
    n = REAL_CASES[ctx.tier]
    _fs.real_run(ctx, harness_bin, driver_bin, "real17", HARNESS[1], n, [('diag:same:SS', int(n * 0.3)), ('diag:same:NN', int(n * 0.1))])
    # compile-level half built by the watch family: the real compile() (batch and watch recompiles) on
    # single-fault mutants must leave the artifact directory byte- and mtime-identical
    from props import _c17_compile_level
    _c17_compile_level.run(ctx)
