"""Check driver core: one code path for every property (DESIGN.md section 2).

regenerate Gen/*.lean  ->  build harness  ->  build proofs + driver, audit axioms
   ->  correspondence (corpus first, then generated)  ->  direct oracle  ->  decide, write evidence
"""
import fcntl, hashlib, json, os, re, shutil, subprocess, sys, tempfile, time
from concurrent.futures import ThreadPoolExecutor

VERIF = os.path.dirname(os.path.dirname(os.path.abspath(__file__)))
REPO = os.environ.get("VERIF_REPO", "/repo")
LEAN = os.path.join(VERIF, "lean")
HARNESS = os.path.join(VERIF, "harness")
WORK = os.path.join(VERIF, ".work")
ALLOWED_AXIOMS = {"propext", "Classical.choice", "Quot.sound"}
FORBIDDEN = re.compile(r"\bsorry\b|\badmit\b|^\s*axiom\s|native_decide|bv_decide|implemented_by|\bunsafe\s|maxHeartbeats\s+0\b")
NCPU = os.cpu_count() or 4

BASE_TRUST = [
    "Lean 4.33.0 kernel (thorough tier: leanchecker re-check of the property module)",
    "axioms allowed: propext, Classical.choice, Quot.sound (audited with #print axioms on every run); no sorry/admit/native_decide/bv_decide/own axioms",
    "the reading of the property as the Lean statements in lean/IsoVerif/Props/<id>.lean",
    "the correspondence harness (harness/*, canonicalisation, generators) and the translators (translators/*.py): they bound what the tie to /repo sees",
]


class MachineryFault(Exception):
    """The check itself is broken (exit 2, no VIOLATION line)."""


class HarnessCrash(Exception):
    """The harness process (which runs the real code in-process) died while running requests."""
    def __init__(self, req_lines, rc, stderr):
        super().__init__(f"harness died with status {rc}")
        self.req_lines, self.rc, self.stderr = req_lines, rc, stderr


def isolate_crash(harness_bin, req_lines, env):
    """Bisect a crashing request stream down to one case (case = `case` header + its lines)."""
    cases = split_cases(req_lines)
    e = dict(os.environ)
    if env:
        e.update(env)

    def crashes(cs):
        inp = "\n".join(l for c in cs for l in c) + "\n"
        p = subprocess.run([harness_bin, "run"], input=inp, stdout=subprocess.PIPE, stderr=subprocess.PIPE,
                           env=e, text=True, errors="replace", timeout=3600)
        return p.returncode != 0
    lo = cases
    while len(lo) > 1:
        half = len(lo) // 2
        a, b = lo[:half], lo[half:]
        if crashes(a):
            lo = a
        elif crashes(b):
            lo = b
        else:
            break       # needs the combination: keep the current window
    return [l for c in lo for l in c]


class BuildLock:
    def __enter__(self):
        os.makedirs(WORK, exist_ok=True)
        self.f = open(os.path.join(VERIF, ".build.lock"), "w")
        fcntl.flock(self.f, fcntl.LOCK_EX)
        return self

    def __exit__(self, *a):
        fcntl.flock(self.f, fcntl.LOCK_UN)
        self.f.close()


def sh(cmd, cwd=None, env=None, timeout=None, input=None):
    e = dict(os.environ)
    e.setdefault("CARGO_NET_OFFLINE", "true")
    if env:
        e.update(env)
    p = subprocess.run(cmd, cwd=cwd, env=e, stdout=subprocess.PIPE, stderr=subprocess.STDOUT,
                       timeout=timeout, input=input, text=True, errors="replace")
    return p.returncode, p.stdout


class Ctx:
    def __init__(self, prop, tier, seed):
        self.prop = prop            # module from props/
        self.id = prop.ID
        self.tier = tier
        self.seed = seed
        self.t0 = time.time()
        self.violations = []        # (replay_path, suffix)
        self.known = []             # strings
        self.notes = []
        self.cov = {
            "obligations": 0, "discharged": 0, "checker_cmd": "", "trusted_base": list(BASE_TRUST),
            "theorems": [], "translators": [], "correspondence": {}, "oracle": {}, "samples": [],
            "partial": list(getattr(prop, "PARTIAL", [])),
        }
        self.proof_broken = None    # description when a proof obligation no longer checks
        self.tie_broken = None
        self._replay_n = 0
        self.workdir = tempfile.mkdtemp(prefix=f"{self.id}_", dir=_ensure(WORK))

    # ---------------------------------------------------------------- replay / violations
    def write_replay(self, obj):
        d = _ensure(os.path.join(VERIF, "replays", self.id))
        self._replay_n += 1
        path = os.path.join(d, f"{self.tier}_{self.seed}_{self._replay_n}.json")
        obj = dict(obj)
        obj["property"] = self.id
        with open(path, "w") as f:
            json.dump(obj, f, indent=1)
        return os.path.relpath(path, VERIF)

    def violation(self, obj, no_input=False):
        path = self.write_replay(obj)
        self.violations.append((path, " no-failing-input-found" if no_input else ""))

    # ---------------------------------------------------------------- known findings
    def known_findings(self):
        with open(os.path.join(VERIF, "known_findings.json")) as f:
            allf = json.load(f)
        return [k for k in allf if k.get("property") == self.id and k.get("status") == "open"]

    def finish(self):
        ev = {
            "property_id": self.id, "tier": self.tier, "seed": self.seed, "level": "proof",
            "coverage": self.cov, "assumptions": list(getattr(self.prop, "ASSUMPTIONS", [])),
            "wall_s": round(time.time() - self.t0, 2), "violations": len(self.violations),
        }
        if self.notes:
            ev["coverage"]["notes"] = self.notes
        if self.cov["discharged"] < self.cov["obligations"] and not self.violations:
            raise MachineryFault("proof obligations undischarged but no violation reported")
        if self.cov["obligations"] == 0 and not self.violations:
            raise MachineryFault("no proof obligation listed")
        _ensure(os.path.join(VERIF, "evidence"))
        with open(os.path.join(VERIF, "evidence", f"{self.id}.json"), "w") as f:
            json.dump(ev, f, indent=1)
        shutil.rmtree(self.workdir, ignore_errors=True)
        # one KNOWN-FINDING line per LISTED open finding: those re-observed by this run (ctx.known) and
        # those listed but not hit by this run's sample (their witnesses live in corpus/ and run first)
        printed = set()
        for k in self.known:
            print(f"KNOWN-FINDING: property={self.id} {k}")
            printed.add(k)
        try:
            listed = self.known_findings()
        except Exception:
            listed = []
        for k in listed:
            sig = k.get("signature", "")
            if any(f"[signature={sig}]" in line or f"signature={sig}" in line for line in printed):
                continue
            print(f"KNOWN-FINDING: property={self.id} {k.get('what', '')} [signature={sig}] (listed; not re-observed in this run's sample)")
        for path, suffix in self.violations:
            print(f"VIOLATION property={self.id} replay={path}{suffix}")
        return 1 if self.violations else 0


def _ensure(d):
    os.makedirs(d, exist_ok=True)
    return d


# -------------------------------------------------------------------- step 1: translators
def regenerate(ctx):
    for t in getattr(ctx.prop, "TRANSLATORS", []):
        name = t.__module__.split(".")[-1]
        try:
            with BuildLock():
                path = t()
            ctx.cov["translators"].append({"name": name, "output": os.path.relpath(path, VERIF), "status": "ok"})
        except Exception as e:  # TranslateError or a crash of the translator: the tie is broken
            ctx.cov["translators"].append({"name": name, "status": "failed", "error": str(e)})
            ctx.tie_broken = f"translator {name} cannot translate the current source: {e}"
            return False
    return True


# -------------------------------------------------------------------- step 2: harness
def build_harness(ctx, pkg):
    with BuildLock():
        lock_src = os.path.join(REPO, "Cargo.lock")
        lock_dst = os.path.join(HARNESS, "Cargo.lock")
        stamp = os.path.join(HARNESS, ".lock.sha")
        h = hashlib.sha256(open(lock_src, "rb").read()).hexdigest()
        if not os.path.exists(lock_dst) or not os.path.exists(stamp) or open(stamp).read() != h:
            shutil.copy(lock_src, lock_dst)
            open(stamp, "w").write(h)
        t = time.time()
        rc, out = sh(["cargo", "build", "-q", "-p", pkg, "--offline"], cwd=HARNESS, timeout=3600)
        ctx.cov.setdefault("build", {})["harness_s"] = round(time.time() - t, 1)
    if rc != 0:
        ctx.tie_broken = f"harness package {pkg} no longer builds against /repo:\n" + out[-3000:]
        return None
    return os.path.join(os.environ.get("CARGO_TARGET_DIR", os.path.join(HARNESS, "target")), "debug", pkg)


# -------------------------------------------------------------------- step 3: proofs
def build_lean(ctx, targets):
    """Returns (ok, output)."""
    with BuildLock():
        t = time.time()
        if ctx.tier == "thorough" and os.environ.get("VERIF_CLEAN_LEAN") == "1":
            shutil.rmtree(os.path.join(LEAN, ".lake", "build"), ignore_errors=True)
        rc, out = sh(["lake", "build"] + targets, cwd=LEAN, timeout=7200)
        ctx.cov.setdefault("build", {})["lean_s"] = round(time.time() - t, 1)
    return rc == 0, out


def strip_comments(src):
    src = re.sub(r"/-.*?-/", "", src, flags=re.S)
    src = re.sub(r"--.*", "", src)
    return src


def module_files(mods):
    """Transitive closure (inside IsoVerif/) of the imports of the given modules."""
    seen, todo = {}, list(mods)
    while todo:
        m = todo.pop()
        if m in seen or not m.startswith("IsoVerif."):
            continue
        p = os.path.join(LEAN, *m.split(".")) + ".lean"
        if not os.path.exists(p):
            continue
        src = open(p, encoding="utf-8").read()
        seen[m] = p
        todo += re.findall(r"^import\s+(\S+)", src, flags=re.M)
    return seen


def audit(ctx, modules, theorems):
    """grep for forbidden constructs + #print axioms for every listed theorem."""
    bad = []
    for m, p in module_files(modules).items():
        for i, line in enumerate(strip_comments(open(p, encoding="utf-8").read()).splitlines()):
            if FORBIDDEN.search(line):
                bad.append(f"{m}:{line.strip()[:80]}")
    d = _ensure(os.path.join(LEAN, ".audit"))
    path = os.path.join(d, f"Audit_{ctx.id}.lean")
    with open(path, "w") as f:
        for m in modules:
            f.write(f"import {m}\n")
        for t in theorems:
            f.write(f"#print axioms {t}\n")
    rc, out = sh(["lake", "env", "lean", path], cwd=LEAN, timeout=1800)
    results = {}
    for t in theorems:
        m = re.search(r"'" + re.escape(t) + r"' depends on axioms: \[([^\]]*)\]", out, flags=re.S)
        if m:
            results[t] = [a.strip() for a in m.group(1).replace("\n", " ").split(",") if a.strip()]
        elif re.search(r"'" + re.escape(t) + r"' does not depend on any axioms", out):
            results[t] = []
        else:
            results[t] = None
    ctx.cov["obligations"] = len(theorems)
    ok = 0
    problems = []
    for t in theorems:
        ax = results[t]
        if ax is None:
            problems.append(f"{t}: not found / does not elaborate")
        elif not set(ax) <= ALLOWED_AXIOMS:
            problems.append(f"{t}: disallowed axioms {sorted(set(ax) - ALLOWED_AXIOMS)}")
        else:
            ok += 1
        ctx.cov["theorems"].append({"name": t, "axioms": ax})
    ctx.cov["discharged"] = ok
    ctx.cov["checker_cmd"] = ("cd /verif/lean && lake build " + " ".join(modules) +
                              f" && lake env lean .audit/Audit_{ctx.id}.lean   # #print axioms of every listed theorem")
    if bad:
        problems.append("forbidden constructs in proof sources: " + "; ".join(bad[:5]))
    if rc != 0 and not problems:
        problems.append("audit file failed to elaborate: " + out[-500:])
    return problems


def leancheck(ctx, modules):
    problems = []
    for m in modules:
        rc, out = sh(["lake", "env", "leanchecker", m], cwd=LEAN, timeout=3600)
        if rc != 0:
            problems.append(f"leanchecker {m}: {out[-400:]}")
    ctx.cov["leanchecker"] = {"modules": modules, "ok": not problems}
    return problems


# -------------------------------------------------------------------- step 4/5: correspondence + oracle
def split_cases(lines):
    """A case is a `case ...` header line plus the lines up to the next header; if the stream has
    no headers every line is its own case."""
    if not any(l.startswith("case\t") or l == "case" for l in lines):
        return [[l] for l in lines]
    cases, cur = [], None
    for l in lines:
        if l.startswith("case\t") or l == "case":
            cur = [l]
            cases.append(cur)
        elif cur is not None:
            cur.append(l)
    return cases


def run_pipeline(harness_bin, driver_bin, req_lines, env=None, timeout=3600):
    """req_lines -> list of (request, impl_answer, model_answer, verdict)."""
    e = dict(os.environ)
    if env:
        e.update(env)
    inp = "\n".join(req_lines) + "\n"
    p1 = subprocess.run([harness_bin, "run"], input=inp, stdout=subprocess.PIPE, stderr=subprocess.PIPE,
                        env=e, text=True, errors="replace", timeout=timeout)
    if p1.returncode != 0:
        if p1.returncode < 0 or p1.returncode in (101, 134, 139):
            # the real code died (signal / abort / uncaught panic) while running these requests
            raise HarnessCrash(req_lines, p1.returncode, p1.stderr[-1500:])
        raise MachineryFault(f"harness run exited {p1.returncode}: {p1.stderr[-2000:]}")
    p2 = subprocess.run([driver_bin], input=p1.stdout, stdout=subprocess.PIPE, stderr=subprocess.PIPE,
                        text=True, errors="replace", timeout=timeout)
    if p2.returncode != 0:
        raise MachineryFault(f"lean driver exited {p2.returncode}: {p2.stderr[-2000:]}")
    il = p1.stdout.splitlines()
    ml = p2.stdout.splitlines()
    if len(il) != len(ml):
        raise MachineryFault(f"driver answered {len(ml)} lines for {len(il)} requests")
    out = []
    for a, b in zip(il, ml):
        if "\t=>\t" in a:
            req, impl = a.split("\t=>\t", 1)
        elif a.endswith("\t=>"):
            req, impl = a[:-3], ""
        else:
            req, impl = a, ""
        model, _, verdict = b.rpartition("\t")
        out.append((req, " ".join(impl.split("\t")), model, verdict))
    return out


def gen_requests(harness_bin, seed, n, start, env):
    e = dict(os.environ)
    if env:
        e.update(env)
    p = subprocess.run([harness_bin, "gen", str(seed), str(n), str(start)], stdout=subprocess.PIPE,
                       stderr=subprocess.PIPE, env=e, text=True, errors="replace", timeout=3600)
    if p.returncode != 0:
        raise MachineryFault(f"harness gen exited {p.returncode}: {p.stderr[-2000:]}")
    return [l for l in p.stdout.splitlines() if l]


def corpus_lines(ctx):
    d = os.path.join(VERIF, "corpus", ctx.id)
    lines = []
    if os.path.isdir(d):
        for fn in sorted(os.listdir(d)):
            if fn.endswith(".txt"):
                for l in open(os.path.join(d, fn), encoding="utf-8").read().splitlines():
                    if l and not l.startswith("#"):
                        lines.append(l)
    return lines


def correspond(ctx, harness_bin, driver_bin, n, env=None, classify=None, nontrivial=None, shards=None):
    """Runs corpus + n generated cases.  Returns list of result tuples flagged as problems:
       ('disagree'|'oracle', request, impl, model, verdict)."""
    env = env or {}
    shards = shards or min(NCPU, max(1, n // 200))
    per = (n + shards - 1) // shards
    jobs = []
    corp = corpus_lines(ctx)

    crashes = []

    def job(k):
        reqs = gen_requests(harness_bin, ctx.seed, per, k * per, env)
        try:
            return run_pipeline(harness_bin, driver_bin, reqs, env)
        except HarnessCrash as hc:
            crashes.append(hc)
            return []

    results = []
    if corp:
        try:
            results += run_pipeline(harness_bin, driver_bin, corp, env)
        except HarnessCrash as hc:
            crashes.append(hc)
    ncorp = len(results)
    with ThreadPoolExecutor(max_workers=shards) as ex:
        for r in ex.map(job, range(shards)):
            results += r
    problems = []
    dist = {}
    nontriv = set()
    for hc in crashes[:2]:
        culprit = isolate_crash(harness_bin, hc.req_lines, env)
        ctx.violation({"kind": "implementation-crash",
                       "what": f"the real code, run in-process by the harness, killed the process (status {hc.rc}: signal/abort/uncaught panic) on this request",
                       "request": "\n".join(culprit)[:200000], "stderr": hc.stderr})
    for (req, impl, model, verdict) in results:
        op = req.split("\t", 1)[0]
        dist[op] = dist.get(op, 0) + 1
        if impl != model and not (req.startswith("case") or req.startswith("#")):
            problems.append(("disagree", req, impl, model, verdict))
        elif verdict != "ok":
            problems.append(("oracle", req, impl, model, verdict))
        if nontrivial is None or nontrivial(req, impl):
            nontriv.add(hashlib.sha1(req.encode()).hexdigest())
        k = classify(req, impl) if classify else None
        if k:
            for kk in (k if isinstance(k, list) else [k]):
                dist["class:" + kk] = dist.get("class:" + kk, 0) + 1
    c = ctx.cov["correspondence"]
    c["cases"] = c.get("cases", 0) + len(results)
    c["corpus_cases"] = c.get("corpus_cases", 0) + ncorp
    c["disagreements"] = c.get("disagreements", 0) + sum(1 for p in problems if p[0] == "disagree")
    c["distribution"] = {**c.get("distribution", {}), **{k: c.get("distribution", {}).get(k, 0) + v for k, v in dist.items()}}
    c["distinct_nontrivial"] = c.get("distinct_nontrivial", 0) + len(nontriv)
    o = ctx.cov["oracle"]
    o["evaluated"] = o.get("evaluated", 0) + len(results)
    o["failed"] = o.get("failed", 0) + sum(1 for p in problems if p[0] == "oracle")
    if not ctx.cov["samples"]:
        ctx.cov["samples"] = [{"request": r[0][:400], "impl": r[1][:300], "model": r[2][:300], "oracle": r[3]}
                              for r in results[ncorp:ncorp + 3]]
    ctx.cov["evaluations"] = c["cases"]
    ctx.cov["distinct_nontrivial"] = c["distinct_nontrivial"]
    return problems, results


def decide(ctx, problems, harness_bin=None, driver_bin=None, env=None):
    """DESIGN section 4."""
    known = ctx.known_findings()
    seen_known = {}
    new_oracle = []
    disagreements = []
    for p in problems:
        kind, req, impl, model, verdict = p
        if kind == "disagree":
            disagreements.append(p)
            continue
        sig = verdict[4:] if verdict.startswith("bad:") else verdict
        match = [k for k in known if sig == k["signature"] or sig.startswith(k["signature"] + ":")]
        if match:
            seen_known.setdefault(match[0]["signature"], (match[0], req))
        else:
            new_oracle.append(p)
    for sig, (k, req) in seen_known.items():
        ctx.known.append(f"{k['what']} [signature={sig}]")
    ctx.cov["oracle"]["known_findings"] = sorted(seen_known.keys())
    # oracle failures not covered by a known finding: violations with the input as replay
    seen_sigs = set()
    for kind, req, impl, model, verdict in new_oracle:
        if verdict in seen_sigs:
            continue
        seen_sigs.add(verdict)
        ctx.violation({"kind": "oracle-failure", "what": "the property's oracle fails on the implementation's own output",
                       "request": req, "impl": impl, "model": model, "verdict": verdict})
    # disagreements: the oracle already ran on them; if it passed, no failing input is known
    reported = 0
    for kind, req, impl, model, verdict in disagreements:
        if reported >= 3:
            break
        if verdict != "ok":
            sig = verdict[4:] if verdict.startswith("bad:") else verdict
            if any(sig == k["signature"] for k in known):
                # a known finding never suppresses a case on which model and implementation disagree
                pass
            ctx.violation({"kind": "correspondence+oracle", "what": "model and implementation disagree and the oracle fails on the implementation's output",
                           "request": req, "impl": impl, "model": model, "verdict": verdict})
            reported += 1
    # disagreement but the oracle passes: focused search around the disagreeing cases
    focus = getattr(ctx.prop, "focus", None)
    if disagreements and reported == 0 and not new_oracle and focus and harness_bin and driver_bin:
        tried = 0
        for kind, req, impl, model, verdict in disagreements[:8]:
            variants = focus(req)
            if not variants:
                continue
            res = run_pipeline(harness_bin, driver_bin, variants, env)
            tried += len(res)
            bad = [r for r in res if r[3] != "ok" and not any(
                (r[3][4:] if r[3].startswith("bad:") else r[3]) == k["signature"] for k in known)]
            if bad:
                r = bad[0]
                ctx.violation({"kind": "correspondence+focused-search", "what": "model and implementation disagree on `disagreeing_request`; a focused search around it found an input on which the property's oracle fails on the implementation's output",
                               "disagreeing_request": req, "request": r[0], "impl": r[1], "model": r[2], "verdict": r[3]})
                reported += 1
                break
        ctx.cov["oracle"]["focused_search_cases"] = tried
    if disagreements and reported == 0 and not new_oracle:
        kind, req, impl, model, verdict = disagreements[0]
        ctx.violation({"kind": "correspondence", "what": "model and implementation disagree; the oracle passes on every explored input, so the property is no longer shown to hold",
                       "engine": getattr(ctx.prop, "HARNESS", None) and ctx.prop.HARNESS[0],
                       "disagreements": len(disagreements),
                       "request": req, "impl": impl, "model": model, "verdict": verdict}, no_input=True)


# -------------------------------------------------------------------- the standard run
def standard_run(ctx):
    prop = ctx.prop
    ok_tr = regenerate(ctx)
    harness_bin = None
    if getattr(prop, "HARNESS", None):
        harness_bin = build_harness(ctx, prop.HARNESS[0])
    modules = list(getattr(prop, "LEAN_MODULES", []))
    theorems = list(getattr(prop, "THEOREMS", []))
    driver = getattr(prop, "DRIVER", None)
    proof_problems = []
    driver_bin = None
    if ok_tr:
        ok, out = build_lean(ctx, modules + ([driver] if driver else []))
        if not ok:
            # which part broke?  try the driver alone so the search can still run
            errs = re.findall(r"^error: (.*)$", out, flags=re.M)
            proof_problems.append("lake build failed: " + "; ".join(errs[:6]) + "\n" + out[-1500:])
            if driver:
                ok2, out2 = build_lean(ctx, [driver])
                if ok2:
                    driver_bin = os.path.join(LEAN, ".lake", "build", "bin", driver)
            ctx.cov["obligations"] = len(theorems)
            # discharged = those theorems that still elaborate (audit what we can)
            proof_problems += audit_safe(ctx, modules, theorems)
        else:
            if driver:
                driver_bin = os.path.join(LEAN, ".lake", "build", "bin", driver)
            proof_problems += audit(ctx, modules, theorems)
            if ctx.tier == "thorough" and not proof_problems:
                proof_problems += leancheck(ctx, modules)
    else:
        # translator failed: the proofs are about a stale table and are NOT counted; the driver is
        # still built on the stale table so that the search for a failing input can run
        ctx.cov["obligations"] = len(theorems)
        if driver:
            ok2, out2 = build_lean(ctx, [driver])
            if ok2:
                driver_bin = os.path.join(LEAN, ".lake", "build", "bin", driver)
    if hasattr(prop, "extra_proof_checks") and ok_tr:
        proof_problems += prop.extra_proof_checks(ctx)
    broken = bool(proof_problems) or ctx.tie_broken is not None
    n = prop.CASES[ctx.tier]
    if broken:
        n = max(n, prop.CASES["thorough"] // 4)   # the search for a failing input
    problems = []
    if harness_bin and driver_bin:
        env = dict(prop.HARNESS[1])
        problems, results = correspond(ctx, harness_bin, driver_bin, n, env=env,
                                       classify=getattr(prop, "classify", None),
                                       nontrivial=getattr(prop, "nontrivial", None))
        decide(ctx, problems, harness_bin, driver_bin, env)
        if hasattr(prop, "check_distribution") and not ctx.violations and not broken:
            msg = prop.check_distribution(ctx.cov["correspondence"]["distribution"], ctx.cov["correspondence"]["cases"])
            if msg:
                raise MachineryFault("degenerate generator distribution: " + msg)
    if hasattr(prop, "extra") and harness_bin:
        prop.extra(ctx, harness_bin, driver_bin)
    if broken and not ctx.violations:
        what = ctx.tie_broken or ("proof obligations no longer check: " + " | ".join(proof_problems))
        ctx.violation({"kind": "tie-broken" if ctx.tie_broken else "proof-broken",
                       "what": what, "theorems": theorems,
                       "searched_cases": ctx.cov["correspondence"].get("cases", 0)}, no_input=True)
    elif broken:
        ctx.notes.append("also broken: " + (ctx.tie_broken or " | ".join(proof_problems))[:1500])
    return ctx.finish()


def audit_safe(ctx, modules, theorems):
    try:
        return audit(ctx, modules, theorems)
    except Exception as e:
        return [f"audit failed: {e}"]


def replay(ctx, path):
    prop = ctx.prop
    obj = json.load(open(path if os.path.isabs(path) else os.path.join(VERIF, path)))
    print(json.dumps(obj, indent=1))
    if "request" not in obj:
        print("(no concrete input in this replay: it names the broken theorem / tie)")
        return 0
    regenerate(ctx)
    hb = build_harness(ctx, prop.HARNESS[0])
    ok, out = build_lean(ctx, [prop.DRIVER])
    db = os.path.join(LEAN, ".lake", "build", "bin", prop.DRIVER)
    res = run_pipeline(hb, db, obj["request"].split("\n"), dict(prop.HARNESS[1]))
    bad = False
    for req, impl, model, verdict in res:
        print(f"request: {req}\n  implementation: {impl}\n  model:          {model}\n  oracle:         {verdict}")
        bad |= (impl != model) or verdict != "ok"
    shutil.rmtree(ctx.workdir, ignore_errors=True)
    return 1 if bad else 0
