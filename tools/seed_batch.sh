#!/bin/bash
# tools/seed_batch.sh <seed-id>:<prop>[,<prop>] ...   -> appends one line per run to seeded/RESULTS.txt
for spec in "$@"; do
  id=${spec%%:*}; props=${spec#*:}
  /verif/tools/seed_check.sh $id ${props//,/ } 2>&1 | grep "exit=" >> /verif/seeded/RESULTS.txt
done
