#!/usr/bin/env python3
"""Development-time: render DESIGN.md section 12.3 (seeded changes and which checks catch them)
from seeded/*/meta.json and seeded/RESULTS.txt."""
import json, os, glob, re
os.chdir(os.path.dirname(os.path.dirname(os.path.abspath(__file__))))
res = {}
for l in open("seeded/RESULTS.txt"):
    f = l.split()
    if len(f) < 3: continue
    sid, prop, ex = f[0], f[1], f[2]
    res[(sid, prop)] = (ex, "no-failing-input-found" in l)   # later lines override earlier ones
rows = []
for d in sorted(glob.glob("seeded/C*-*")):
    sid = os.path.basename(d)
    m = json.load(open(d + "/meta.json"))
    prop = m.get("property", sid.split("-")[0])
    how = "not run"
    for (s, p), (ex, noinp) in res.items():
        if s == sid:
            kinds = []
            for rp in glob.glob(f"{d}/results/replays/{p}.*.json"):
                try: kinds.append(json.load(open(rp)).get("kind", "?"))
                except Exception: pass
            k = ", ".join(sorted(set(kinds))) or "-"
            if ex == "exit=1":
                how = f"caught by {p}: " + ("proof/tie/correspondence broken, no failing input found" if noinp else f"failing input ({k})")
            elif ex == "exit=0":
                how = f"MISSED by {p}"
            else:
                how = f"{p}: check did not complete ({ex})"
    summ = re.sub(r"\s+", " ", str(m.get("summary", "")))[:150]
    rows.append(f"| {sid} | {summ} | {how} |")
out = ["| seed | change (one line) | outcome of `./check` on the seeded tree |", "|---|---|---|"] + rows
open("seeded/TABLE.md", "w").write("\n".join(out) + "\n")
print("\n".join(out))
