#!/usr/bin/env python3
"""Print the brief for a mutation-seeding sub-agent: property text + scratch worktree only."""
import json, sys
pid, wt = sys.argv[1], sys.argv[2]
for l in open('/verif/properties.jsonl'):
    p = json.loads(l)
    if p['id'] == pid:
        break
rec = {k: p[k] for k in ('id', 'title', 'statement', 'quantifier', 'why_tests_cant', 'anchors')}
print(f"""You are a software engineer helping to evaluate a verification effort by planting realistic defects. You have your own scratch git worktree of the Rust repository isographlabs/isograph at {wt} (a detached checkout; work ONLY inside it; never touch /repo or /verif; do not read anything under /verif). The repository builds offline (`CARGO_NET_OFFLINE=true cargo build --offline`, `cargo test --offline`; there is no network; the worktree's own default `target/` directory is used, which is fine).

Here is a semantic property that the repository is supposed to satisfy (JSON record):

{json.dumps(rec, indent=1)}

Task: produce TWO different, independent changes to the repository's source (each a separate patch against the worktree's HEAD) such that each one:
  (a) BREAKS the property above (for some input / history / schedule the statement becomes false),
  (b) still COMPILES, and the repository's existing test suite still PASSES with the change (at minimum `CARGO_NET_OFFLINE=true cargo test -p <every crate you touched> --offline`, and preferably `cargo test --workspace --offline`; report exactly what you ran),
  (c) is REALISTIC — the kind of slip a maintainer could make in a refactor or optimisation (an off-by-one, a dropped case, a reordered step, a wrong comparison, a cache key that forgets a component, a `<` for `<=`, handling only the first of several, …), not sabotage that any use would expose at once,
  (d) needs something SPECIFIC to manifest: a particular interleaving, a fault at a particular point, a multi-step sequence of operations, an unusual input, or two cooperating sites that each look fine alone. Ordinary use and the existing tests must not trip over it.
The two changes should break the property in different ways (different code paths or different clauses of the property).

For each change also write a DEMONSTRATION: a small Rust test or program (placed inside the worktree, e.g. a new `#[test]` in a new file under the touched crate's `tests/` directory, or a tiny example binary) that FAILS with the change applied and PASSES on the unchanged HEAD. Run it both ways and report the outputs.

Deliver, inside the worktree directory {wt}/SEED_OUT/ (create it):
  change1.diff  — `git diff` of the source change only (no demo files), applicable with `git apply` at the repository root
  demo1/        — `demo1/files/<path relative to the repository root>` for every demonstration file (so that `cp -r demo1/files/. <repo root>/` installs it), `demo1/run.sh` (run from the repository root after installing the files; exits 0 iff the demonstration PASSES, i.e. exits non-zero with the change applied and 0 on the unchanged HEAD; it must set CARGO_NET_OFFLINE=true and use --offline), and README.txt: expected output with and without the change
  meta1.json    — {{"property": "{pid}", "summary": one line, "what_it_needs_to_manifest": …, "clause_broken": …, "files_touched": […], "tests_run": […commands…], "tests_result": "…"}}
  and the same for change2 (change2.diff, demo2/, meta2.json).
Before finishing: `git stash`/`git checkout -- .` so the worktree's tracked files are back at HEAD (the SEED_OUT directory is untracked and stays), and delete the worktree's `target` directory to free disk space (`rm -rf {wt}/target`). Final report: for each change, 3–5 lines (what, why it breaks the property, what is needed to see it, what you ran).""")
