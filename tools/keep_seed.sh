#!/bin/bash
# tools/keep_seed.sh <seed-id e.g. C31-1> <worktree> <n> <crate>...
# Confirms a seeded change in the scratch worktree (compiles, the touched crates' tests pass, the
# demonstration fails with the change and passes without) and, if confirmed, keeps it under
# /verif/seeded/<seed-id>/.
set -u
ID=$1; WT=$2; N=$3; shift 3
OUT=$WT/SEED_OUT
DEST=/verif/seeded/$ID
export CARGO_NET_OFFLINE=true
cd "$WT" || exit 2
git checkout -q -- . ; git clean -fdq -e SEED_OUT -e target
log=$(mktemp)
fail() { echo "NOT CONFIRMED: $1"; git checkout -q -- .; git clean -fdq -e SEED_OUT -e target; exit 1; }
# install the demo
if [ -d "$OUT/demo$N/files" ]; then cp -r "$OUT/demo$N/files/." .; else echo "old-format demo: install by hand before calling"; fi
run_demo() { if [ -x "$OUT/demo$N/run.sh" ] || [ -f "$OUT/demo$N/run.sh" ]; then bash "$OUT/demo$N/run.sh" >>$log 2>&1; else bash -c "$DEMO_CMD" >>$log 2>&1; fi; }
echo "== demo on HEAD (must pass)"; run_demo || fail "demo fails on unchanged HEAD"
git apply "$OUT/change$N.diff" || fail "patch does not apply"
echo "== tests of touched crates with the change (must pass)"
for c in "$@"; do
  # run the crate's own tests, excluding the demo test target if it is an integration test
  cargo test -p "$c" --offline --lib --bins >>$log 2>&1 || fail "cargo test -p $c --lib fails with the change"
  for t in $(ls crates/$c/tests/*.rs relay-crates/$c/tests/*.rs 2>/dev/null | xargs -n1 basename 2>/dev/null | sed 's/\.rs$//'); do
    if ! grep -rqs "$t" "$OUT/demo$N" ; then cargo test -p "$c" --offline --test "$t" >>$log 2>&1 || fail "existing integration test $t fails with the change"; fi
  done
done
echo "== demo with the change (must fail)"; if run_demo; then fail "demo passes with the change"; fi
git checkout -q -- . ; git clean -fdq -e SEED_OUT -e target
mkdir -p "$DEST"; cp "$OUT/change$N.diff" "$DEST/patch.diff"; rm -rf "$DEST/demo"; cp -r "$OUT/demo$N" "$DEST/demo"
python3 - "$OUT/meta$N.json" "$DEST/meta.json" "$ID" "$*" <<'PY'
import json,sys
m=json.load(open(sys.argv[1]))
m["seed_id"]=sys.argv[3]
m["confirmed_by_coordinator"]={"ran":"tools/keep_seed.sh: demo passes on HEAD; patch applies; `cargo test -p <crate> --lib --bins` + existing integration tests of touched crates ("+sys.argv[4]+") pass with the change; demo fails with the change","workspace_suite":"as reported by the seeding agent in tests_run/tests_result"}
json.dump(m,open(sys.argv[2],"w"),indent=1)
PY
echo "CONFIRMED -> $DEST"
