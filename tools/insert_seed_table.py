#!/usr/bin/env python3
"""Development-time: put seeded/TABLE.md into DESIGN.md section 12.3."""
import os, re, subprocess
os.chdir(os.path.dirname(os.path.dirname(os.path.abspath(__file__))))
subprocess.run(["python3", "tools/seed_table.py"], stdout=subprocess.DEVNULL)
table = open("seeded/TABLE.md").read()
rows = [l for l in table.splitlines()[2:] if l.startswith("|")]
caught_input = sum(("failing input (" in r) for r in rows)
caught_noinput = sum("no failing input found" in r for r in rows)
missed = sum("MISSED" in r for r in rows)
notrun = sum(("not run" in r) or ("did not complete" in r) for r in rows)
s = open("DESIGN.md").read()
head = "### 12.3 Seeded changes and which checks catch them"
i = s.index(head)
body = f'''{head}

Fresh sub-agents were given only the text of one property and a scratch worktree of /repo and asked for two
independent changes that break the property, still compile, keep the 197-test suite green, and need something
specific to manifest; each change comes with a demonstration that fails with it and passes without it. A change
is kept under `seeded/<id>/` (`patch.diff`, `demo/`, `meta.json`) only after `tools/keep_seed.sh` re-confirmed it
in a scratch worktree (demo passes on HEAD, patch applies, the touched crates' tests pass with the change, demo
fails with the change; the workspace suite as reported by the seeding agent, re-run by the coordinator where the
agent had not). Checks are run against a seed by `tools/seed_check.sh`, which never touches /repo: a scratch
worktree gets the patch, a scratch copy of /verif gets every `/repo` path rewritten to it, and `./check` runs
there; results are under `seeded/<id>/results/`.

{len(rows)} seeded changes are kept: {caught_input} are caught with a concrete failing input as the replay,
{caught_noinput} are caught as a broken proof obligation / tie / correspondence without a failing input
(`no-failing-input-found`), {missed} are missed, {notrun} could not be run in the time available.

Seeds that were MISSED at first, and what was strengthened (all are caught now; the table shows the last run):
* C07-1 (leftover-tokens span ended at `trim_end()`): the generators never produced a complete declaration
  followed by Unicode white space that is not lexer white space → new trailing-junk / truncation / insertion
  classes with floors.
* C04-1/C04-2 (were caught only as a key mismatch without failing input): `samesig` gained macro-generated
  modules, an `include!`-d definition and a layout-controlled file whose (module, line) pairs are permutations.
* C06-1 (racing bucket allocation): the harness died with SIGSEGV and the check reported a machinery fault →
  `vlib/core.py` now treats a crash of the real code as a violation and bisects to the crashing request.
* C16-1/C16-2 (cross-kind duplicate response name; required list-typed argument): mutators for all four kind
  pairs and for list-typed required arguments, with floors.
* C11-1/C11-2 (placeholder `__typename` for pointer-only selection sets; nested inline fragments dropped from
  the normalization AST): hand projects + a biased generator stream with an injection step.
* C15-2 (shallow merge into an existing inline fragment): injection stream with the same refinement reached
  directly and through client fields, overlapping linked field with different sub-selections.
* C25-1 (refetch index looked up by path SUFFIX) and C09-1 (variables nested two levels deep in object arguments
  not collected): witness projects + injection streams (`suffix`, `nested`) with floors.
* C24-2 (`WhitespaceCharacter` lost the tab): the whitespace union is now regenerated from the source
  (`C24_whitespace_set`) and read from the implementation's `iso.ts` by the oracle.

{table}
'''
j = s.find("\n## ", i)
s = s[:i] + body + (s[j:] if j != -1 else "")
open("DESIGN.md", "w").write(s)
print(len(rows), caught_input, caught_noinput, missed, notrun)
