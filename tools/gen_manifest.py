#!/usr/bin/env python3
"""Development-time generator (never run by a check): MANIFEST.json from props/*.py, and
known_findings.json from known_findings.d/*.json."""
import importlib, json, os, sys, glob
HERE = os.path.dirname(os.path.dirname(os.path.abspath(__file__)))
sys.path.insert(0, HERE)
os.chdir(HERE)

ALL = [f"C{i:02d}" for i in range(1, 34)]
NA_REASONS = {}
if os.path.exists("not_applicable.json"):
    NA_REASONS = json.load(open("not_applicable.json"))

checks, na = [], []
for pid in ALL:
    path = f"props/{pid}.py"
    if not os.path.exists(path):
        na.append({"property_id": pid, "reason": NA_REASONS.get(pid, "not yet claimed: model and proofs for this property are still being built (see DESIGN.md section 8)")})
        continue
    m = importlib.import_module(f"props.{pid}")
    checks.append({
        "property_id": pid,
        "quick_cmd": f"./check {pid} --tier quick",
        "thorough_cmd": f"./check {pid} --tier thorough",
        "evidence_file": f"/verif/evidence/{pid}.json",
        "replay_cmd_template": f"./check {pid} --replay {{path}}",
        "engine": getattr(m, "DRIVER", "lean"),
        "level_claimed": {"category": "proof", "text": m.LEVEL_TEXT, "design_ref": f"DESIGN.md section 8, {pid}"},
        "level_note": m.LEVEL_NOTE,
        "technique": m.TECHNIQUE,
    })

hooks_commits = []
if os.path.exists("hooks_commits.txt"):
    hooks_commits = [l.split()[0] for l in open("hooks_commits.txt") if l.strip() and not l.startswith("#")]

manifest = {
    "version": 1,
    "setup_cmd": "./setup.sh",
    "hooks": {
        "guard": "isographlabs_isograph_verif",
        "enable": "cargo feature `isographlabs_isograph_verif` of the hooked crates, switched on only by the path dependencies of /verif/harness/* (cargo build -p hx_<engine> in /verif/harness)",
        "baseline_off_cmd": "cd /repo && cargo test --workspace --no-fail-fast --offline",
        "source_commits": hooks_commits,
        "add_only": True,
    },
    "engines": [
        {"name": "lean", "path": "lean/", "serves_properties": [c["property_id"] for c in checks],
         "kind_free_text": "Lean 4 project: executable models (IsoVerif/Model), tables regenerated from /repo (IsoVerif/Gen), lemmas, property theorems (IsoVerif/Props), line-protocol drivers (Driver/)"},
        {"name": "harness", "path": "harness/", "serves_properties": [c["property_id"] for c in checks],
         "kind_free_text": "Rust workspace calling the real crates in-process: generators, correspondence runs"},
        {"name": "translators", "path": "translators/", "serves_properties": [c["property_id"] for c in checks],
         "kind_free_text": "Python translators regenerating Lean tables from Rust source"},
    ],
    "checks": checks,
    "not_applicable": na,
    "notes": "Every check: regenerate Gen/*.lean from /repo -> build harness against /repo -> lake build the property's theorems + #print axioms audit -> differential correspondence model vs implementation -> direct oracle on implementation output -> decide (DESIGN.md sections 2 and 4). known_findings.json lists open findings (suppressing only their own signature) and fixed ones (suppressing nothing).",
}
json.dump(manifest, open("MANIFEST.json", "w"), indent=1)

kf = []
for f in sorted(glob.glob("known_findings.d/*.json")):
    kf += json.load(open(f))
json.dump(kf, open("known_findings.json", "w"), indent=1)
print(f"{len(checks)} checks, {len(na)} not yet claimed, {len(kf)} findings")
