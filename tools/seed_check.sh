#!/bin/bash
# tools/seed_check.sh <seed-id> <property>...      (development tool, not a registered check)
# Runs the given properties' quick checks against a seeded change WITHOUT touching /repo:
# a scratch worktree of /repo gets the patch, a scratch copy of /verif (committed + working files,
# without build output) gets every "/repo" path rewritten to the worktree, and the checks run there
# with VERIF_REPO set.  Everything is removed afterwards.  Results -> seeded/<seed-id>/results/.
set -u
ID=$1; shift
SEED=/verif/seeded/$ID
S=/tmp/sv_$ID
rm -rf $S; mkdir -p $S
git -C /repo worktree add -q --detach $S/repo HEAD || exit 2
git -C $S/repo apply $SEED/patch.diff 2>/dev/null || (cd $S/repo && patch -p1 -F3 -s < $SEED/patch.diff) || { echo "patch does not apply to current /repo HEAD"; git -C /repo worktree remove --force $S/repo; exit 2; }
rsync -a --exclude .git --exclude 'harness/target' --exclude '.work' --exclude replays --exclude seeded /verif/ $S/verif/
# share nothing mutable: lean/.lake is copied (small); harness/target starts cold unless a warm cache exists
grep -rl '/repo' $S/verif/harness --include=Cargo.toml | xargs sed -i "s#/repo/#$S/repo/#g"
grep -rl '"/repo' $S/verif/harness --include='*.rs' 2>/dev/null | xargs -r sed -i "s#\"/repo#\"$S/repo#g"
mkdir -p $SEED/results
export VERIF_REPO=$S/repo CARGO_NET_OFFLINE=true
if [ -d /tmp/sv_target_cache ]; then export CARGO_TARGET_DIR=/tmp/sv_target_cache; fi
cd $S/verif
rc_all=0
for P in "$@"; do
  ./check $P --tier quick > $SEED/results/$P.out 2>&1; rc=$?
  echo "$ID $P exit=$rc $(grep -m1 '^VIOLATION' $SEED/results/$P.out)"
  for r in $(grep '^VIOLATION' $SEED/results/$P.out | sed 's/.*replay=\([^ ]*\).*/\1/'); do mkdir -p $SEED/results/replays; cp $S/verif/$r $SEED/results/replays/$P.$(basename $r) 2>/dev/null; done
  cp $S/verif/evidence/$P.json $SEED/results/$P.evidence.json 2>/dev/null
done
cd /; git -C /repo worktree remove --force $S/repo; rm -rf $S
